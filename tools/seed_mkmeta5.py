#!/usr/bin/env python3
"""mkmeta.py Cxx  — writes /verif/seeded/Cxx-m9/{patch.diff,demo.rs,meta.json,replay.json} from /tmp/confirm5/Cxx"""
import json, os, re, sys, shutil, glob, subprocess
P = sys.argv[1]; C = f'/tmp/confirm5/{P}'; L = f'{C}/logs'; D = f'/verif/seeded/{P}-m9'
TXT = json.load(open('/tmp/seed5/texts.json'))[P]
os.makedirs(D, exist_ok=True)
shutil.copy(f'{C}/out/m1/patch.diff', D); shutil.copy(f'{C}/out/m1/demo.rs', D)
log = open(f'/tmp/seed5/{P}.confirm.log').read()
def rc(k):
    m = re.search(k + r' rc=(\d+)', log); return int(m.group(1)) if m else None
def vio(f):
    t = open(f).read() if os.path.exists(f) else ''
    v = [l for l in t.splitlines() if l.startswith('VIOLATION')]
    summ = [l for l in t.splitlines() if l.startswith('check ' + P)]
    return v, (summ[-1] if summ else '')
v0, s0 = vio(f'{L}/q0.log'); v1, s1 = vio(f'{L}/q1.log')
def desc(v, s, r):
    if not v: return f'missed: exit {r}, 0 VIOLATION lines ({s})'
    wi = sum(1 for l in v if not l.rstrip().endswith('no-failing-input-found'))
    return f'VIOLATION x{len(v)}, exit {r} ({wi} with failing input; {s})'
suite = re.search(r'suite passed=(\d+) failed=(\d+)', log)
meta = {
 'id': f'{P}-m9', 'property': P, 'round': 5, 'input': f'/tmp/seed5/{P}/out/m1',
 'breaks': TXT['breaks'], 'site': TXT['site'], 'needs_to_manifest': TXT['needs'],
 'patch_applied_as_is': True,
 'repo_head': subprocess.run(['git','-C',f'{C}/repo','rev-parse','--short','HEAD'],capture_output=True,text=True).stdout.strip(),
 'verif_head': subprocess.run(['git','-C','/verif','rev-parse','--short','HEAD'],capture_output=True,text=True).stdout.strip(),
 'suite_green_with_patch': rc('suite_with_patch') == 0,
 'suite_counts': f'{suite.group(1)} passed, {suite.group(2)} failed (cargo test --offline)' if suite else None,
 'demo_red_with_patch': rc('demo_with_patch') not in (0, None),
 'demo_green_without': rc('demo_without') == 0,
 'commands': ['/tmp/seed5/confirm5.sh ' + P + ' (scripted by the lead: apply patch, cargo test --offline, demo red, revert, demo green, re-apply, VERIF_REPO=<worktree> ./check ' + P + ' --tier quick at seeds 0 and 1)'],
 'detected_by': {f'{P} quick seed 0': desc(v0, s0, rc('quick seed0')), f'{P} quick seed 1': desc(v1, s1, rc('quick seed1'))},
 'violation_lines': v0[:12],
 'failing_input_found': any(not l.rstrip().endswith('no-failing-input-found') for l in v0 + v1),
 'failing_input_found_by_own_check': any(not l.rstrip().endswith('no-failing-input-found') for l in v0 + v1),
 'notes': TXT.get('notes', ''),
}
# keep one replay with a failing input
for l in v0:
    if not l.rstrip().endswith('no-failing-input-found'):
        rp = re.search(r'replay=(\S+)', l).group(1)
        src = f'{C}/replays0/{P}/' + os.path.basename(rp)
        if os.path.exists(src): shutil.copy(src, f'{D}/replay.json'); break
json.dump(meta, open(f'{D}/meta.json', 'w'), indent=1, ensure_ascii=False)
print(json.dumps(meta['detected_by'], indent=1))
