#!/bin/bash
# usage: confirm5.sh Cxx   (after the seeder finished)
P=$1; C=/tmp/confirm5/$P; W=$C/repo; L=$C/logs
mkdir -p $C $L
cp -r /tmp/seed5/$P/out $C/out || exit 9
git -C /repo worktree move /tmp/seed5/$P $W || exit 9
cd $W; git checkout -q -- .; rm -f tests/seed_demo.rs
export CARGO_NET_OFFLINE=true
git apply $C/out/m1/patch.diff || { echo "APPLY FAILED"; exit 8; }
git diff --stat | tail -1
cargo test --offline > $L/suite.log 2>&1; echo "suite_with_patch rc=$?"
grep -h '^test result' $L/suite.log | awk '{p+=$4; f+=$6} END {print "suite passed=" p " failed=" f}'
cp $C/out/m1/demo.rs tests/seed_demo.rs
cargo test --offline --test seed_demo > $L/demo_red.log 2>&1; echo "demo_with_patch rc=$?"; grep -h '^test result' $L/demo_red.log
git checkout -q -- .
cargo test --offline --test seed_demo > $L/demo_green.log 2>&1; echo "demo_without rc=$?"; grep -h '^test result' $L/demo_green.log
rm -f tests/seed_demo.rs
git apply $C/out/m1/patch.diff
cd /verif
VERIF_REPO=$W ./check $P --tier quick > $L/q0.log 2>&1; echo "quick seed0 rc=$?"; grep -c '^VIOLATION' $L/q0.log; grep '^VIOLATION' $L/q0.log | head -12
mkdir -p $C/replays0; cp -r /verif/replays/$P $C/replays0/ 2>/dev/null
VERIF_SEED=1 VERIF_REPO=$W ./check $P --tier quick --skip-build > $L/q1.log 2>&1; echo "quick seed1 rc=$?"; grep -c '^VIOLATION' $L/q1.log
tail -5 $L/q0.log
