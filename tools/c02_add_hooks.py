#!/usr/bin/env python3
"""Insert the add-only `#[cfg(darklua_verif)]` writer-trace lines into dense.rs / readable.rs.
usage: c02_add_hooks.py <repo-root>   (idempotent; development record of how the hook commit was produced)"""
import re, sys, os

CH = "{c}.encode_utf8(&mut [0; 4])"
DENSE = {
    "push_str": ('"push_str"', "content", "0"),
    "push_char": ('"push_char"', CH.format(c="character"), "0"),
    "merge_char": ('"merge_char"', CH.format(c="character"), "0"),
    "push_new_line_if_needed": ('"push_new_line_if_needed"', '""', "pushed_length as i64"),
    "push_space_if_needed": ('"push_space_if_needed"', CH.format(c="next_character"), "pushed_length as i64"),
    "push_new_line": ('"push_new_line"', '""', "0"),
    "push_space": ('"push_space"', '""', "0"),
    "raw_push_str": ('"raw_push_str"', "content", "0"),
    "raw_push_char": ('"raw_push_char"', CH.format(c="character"), "0"),
    "push_str_and_break_if": ('"push_str_and_break_if"', "content", "predicate(self.get_last_push_str()) as i64"),
    "push_char_and_break_if": ('"push_char_and_break_if"', CH.format(c="content"), "predicate(self.get_last_push_str()) as i64"),
}
READABLE = dict(DENSE)
del READABLE["merge_char"], READABLE["push_char_and_break_if"]
READABLE.update({
    "push_can_add_new_line": ('"push_can_add_new_line"', '""', "value as i64"),
    "pop_can_add_new_line": ('"pop_can_add_new_line"', '""', "0"),
    "push_indentation": ('"push_indentation"', '""', "0"),
    "pop_indentation": ('"pop_indentation"', '""', "0"),
    "write_indentation": ('"write_indentation"', '""', "0"),
})

def patch(path, table):
    lines = open(path).read().split("\n")
    out, i, done = [], 0, set()
    while i < len(lines):
        line = lines[i]
        m = re.match(r"^    fn (\w+)(<F>)?\(", line)
        if m and m.group(1) in table and m.group(1) not in done:
            name = m.group(1)
            # copy the signature up to the line that opens the body
            while True:
                out.append(lines[i])
                if lines[i].rstrip().endswith("{"):
                    break
                i += 1
            i += 1
            op, text, detail = table[name]
            hook1 = "        #[cfg(darklua_verif)]"
            hook2 = "        crate::verif_hooks::trace(%s, %s, %s);" % (op, text, detail)
            if not (i < len(lines) and lines[i] == hook1):
                out += [hook1, hook2]
            done.add(name)
            continue
        out.append(line); i += 1
    missing = set(table) - done
    if missing:
        sys.exit("not found in %s: %s" % (path, sorted(missing)))
    open(path, "w").write("\n".join(out))

root = sys.argv[1]
patch(os.path.join(root, "src/generator/dense.rs"), DENSE)
patch(os.path.join(root, "src/generator/readable.rs"), READABLE)
