#!/bin/sh
# Lead's helper: build the driver and EVERY property's theorem module (run after each merge).
cd "$(dirname "$0")/lean" || exit 2
T=""; for i in 01 02 03 04 05 06 07 08 09 10 11 12 13 14 15 16 17 18 19 20; do T="$T DarkluaModel.C$i.Thm"; done
lake build $T dlv-model DarkluaModel.Shared.VisitorSoundHeapU DarkluaModel.Shared.VisitorSoundHeapV DarkluaModel.Shared.VisitorSoundCompose 2>&1 | grep -E "error|Build completed" | head -20
lake env lean AuditAll.lean 2>&1 | tail -3
