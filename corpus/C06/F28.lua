local T = {x = 1}
local function getT() emit("getT") return T end
local function key() emit("key") return "x" end
do local __DARKLUA_VAR0 = {x = 40} getT()[key()] //= 5 + __DARKLUA_VAR0.x emit(T.x, __DARKLUA_VAR0.x) end
