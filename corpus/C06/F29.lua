local n = 0
local function key() n = n + 1 emit("key", n) return "k" end
local t = { k = 1 }
t[`{key()}`] += 1
emit(n, t.k)
