local i = 0
repeat
  i = i + 1
  local x = i
  if x == 1 then continue end
  emit(x)
until x >= 3
return i
