-- a loop with a `continue` AFTER an inner loop without continue (directly, or inside a function of the body):
-- the inner loop's frame must be gone when the outer `continue` is rewritten and when the outer loop is wrapped
for i = 1, 3 do
  for j = 1, 2 do emit("j", j) end
  if i == 2 then continue end
  emit("tail", i)
end
local w = 0
while w < 3 do
  w += 1
  local g = function(n) local k = 0 while k < 2 do k += 1 end return n + k end
  if w == 1 then continue end
  emit("tail", g(w))
end
for _, v in ipairs({1, 2, 3}) do
  function G_cp(n) for j = 1, 1 do end return n end
  local k = 0
  repeat k += 1 until k >= 2
  if v == 2 then continue end
  emit("gen", G_cp(v), k)
  if v == 3 then break end
end
emit("done")
-- … and the other order: the `continue` first, a loop without continue after it (the outer loop must be wrapped)
for i = 1, 3 do
  if i == 2 then continue end
  for j = 1, 2 do emit("j2", j) end
  emit("tail2", i)
end
local u = 0
while u < 3 do
  u += 1
  if u == 1 then continue end
  local k = 0
  repeat k += 1 until k >= 2
  emit("tail3", u, k)
end
emit("done2")
