local T = {x = 1, 10}
local function key() emit("key") return "x" end
local function getT() emit("getT") return T end
T[key() :: string] += 5 emit(T.x)
getT()[key() :: any] -= 1 emit(T.x)
T[key() .. ""] *= 2 emit(T.x)
T[-(-1)] += 1 emit(T[1])
(getT() :: any).x += 1 emit(T.x)
return T.x
