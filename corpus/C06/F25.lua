local function c(n, v) emit(n) return v end
return if c(1, false) then 1 elseif c(2, true) then 2 elseif c(3, true) then 3 else 4
