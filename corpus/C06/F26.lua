local o = setmetatable({}, {__idiv = function() emit("idiv") return 1 end, __div = function() emit("div") return 2.5 end})
return o // 2
