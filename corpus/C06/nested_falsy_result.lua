-- an if-expression as the RESULT of a then / elseif branch of another one, whose first condition is statically
-- falsy and whose `elseif` is only known at run time and yields nil / false (seeded C06-m6): it must not be taken
-- for statically truthy
local F = {off = false, on = true}
local function c() emit("c") return true end
local function d() emit("d") return true end
emit(1, if c() then (if false then 1 elseif d() then nil else 2) else 3)
emit(2, if c() then if nil then 1 elseif F.on then false elseif true then 9 else 2 else 3)
emit(3, if F.off then 0 elseif c() then (if ("a" == "b") then "s" elseif d() then F.off else {}) else 3)
emit(4, (if c() then (if false then true elseif F.on then nil elseif true then 9 else "e") else 3), "end")
return if c() then (if false then 1 elseif d() then nil else 2) else 3
