return t[ u[1] ], 1 .. 2 -- inside H3 (spaces present)
