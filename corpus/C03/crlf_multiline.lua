local a = 1 -- c
--[[ m
n ]] local b = [[x
y]]
return a, b