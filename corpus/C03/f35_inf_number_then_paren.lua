local a = 1e999
(f)()
local b = -1e309
(g)()