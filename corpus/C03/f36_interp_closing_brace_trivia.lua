local a = `{ a
   }` .. `{
 b --[[c]]
	}x`