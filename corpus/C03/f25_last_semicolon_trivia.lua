do return 1 --[[a]] ; --[[b]]
end while x do break; end for i = 1, 2 do continue ; -- c
end