-- Luau constructs inside FUNCTION BODIES inside typeof(...) operands (never evaluated, but the scope visitors must
-- walk into them): compound assignment, floor division, interpolated string, continue, if-expression, casts
local size = 9
local half: typeof((function() local v = 0 v += 1 return v end)()) = size // 2
local function f(a: typeof((function() local t = {n = 7} t.n //= 2 t[`n`] -= 1 return t.n // 1 end)()), ...: typeof(`{size}`)): typeof((function(s) for i = 1, 2 do if i == 1 then continue end s ..= `{i}` end return s end)(""))
  return `{a}`
end
type Hidden = typeof((function() local x = if size > 1 then 1 else 2 x *= 2 return (x :: number) // 2 end)())
for i: typeof((function() local c = 0 c ^= 2 return c end)()) = 1, 2 do
  emit(i, f(i), (half :: typeof((function() local q = 1 q %= 2 return q end)())))
end
emit(id<<typeof((function() local r = "a" r ..= "b" return r end)())>>(half))
return half
