-- a loop whose body first holds a function (statement / expression) with a loop WITHOUT continue, then a nested
-- `continue` of the outer loop (seeded C07-m6: the inner loop's frame must be popped all the same)
if (0.25 == nil) then
  for i3 = 2, 1 do
    function G_fn4(n)
      for b = 2, 1 do
      end
    end
    if (true and true) then continue end
  end
end
local function fn10(n)
end
for i = 1, 3 do
  local g = function(n) local k = 0 while k < 2 do k += 1 end return n + k end
  emit(g(i))
  if i == 2 then continue end
  emit("tail", i)
end
local w = 0
while w < 3 do
  w += 1
  emit((function(n) local k = 0 repeat k += 1 until k >= 2 return n * k end)(w))
  function G_after(n) for j = 1, 2 do emit("j", j) end return n end
  do if w == 1 then continue end end
  emit("tail", G_after(w))
end
for _, v in ipairs({1, 2, 3}) do
  function G_gen(n) for j = 1, 1 do end for j = 1, 1 do if j == 1 then continue end end return n end
  if v == 3 then continue end
  emit("gen", G_gen(v))
end
