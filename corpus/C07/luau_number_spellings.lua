local t = { [0b101] = 1_000, [0xA_B] = 0b1_0 }
local x: typeof(0b11) = 0xFF_FF
return t[0b101], x, 1_0.5_0, 0B1, 1e1_0
local s = `{0b11}{1_0}{0xF_F}`
local function g(a) return a end
emit(g(0b1), g{0b10}, ({[0b1] = 0b1_1})[0b1], s, -0b1, 0b1 + 1_0, (0b1), #{0b1, 1_0})
for i = 0b1, 0b1_0, 0_1 do emit(i) end
