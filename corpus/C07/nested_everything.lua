local t = {x = 1}
local function f(...) return ... end
t.x += if t.x // 1 == 1 then #`{t.x // 1}{`in`}` else (2 :: typeof(t.x // 2))
for i = 1 // 1, f<<typeof(`{1 // 1}`)>>(2) do
  if i == 1 then continue end
  t[`x`] //= if i then 2 else 3
end
repeat
  const k: typeof(if t then 1 // 1 else `a`) = 1
  t.x ..= `{k}`
until (if t.x then true else false)
local g = @native function<T>(a: T, ...: any): T
  for _, v in ipairs({a // 1}) do if v then continue end end
  return a
end
type T = typeof(1 // 2)
emit { update = function() for i = 1, 3 do if i == 2 then continue end t.x += i // 1 emit(`{i}`, if i then 1 else 2) end end, 1 // 1 }
g "str"
return g(t.x)
