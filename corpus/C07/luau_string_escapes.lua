return "\x41\u{48}\z  b"
