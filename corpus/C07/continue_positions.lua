local n = 0
while n < 3 do
  n += 1
  do do if n == 1 then continue end end end
  for i = 1, 2 do
    repeat
      if i == 1 then continue end
      break
    until true
    if i == 2 then continue end
  end
  local function inner()
    for j = 1, 2 do continue end
  end
  inner()
  if n == 2 then continue else emit(n) end
end
return n
