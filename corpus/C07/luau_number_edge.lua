-- separators at the very end of the literal / right after the prefix (seeded C07-m7: the token is kept as written
-- by the retain_lines generator unless convert_luau_number rewrites it)
emit(100_, 2_, 0xF_, 0x_F, 1_000_, 0b1_)
local edge = { [2_] = 0xF_, n = 100_ }
for i = 1_, 2_ do emit(i, edge[2_], edge.n + 0x_F) end
return 100_
