#!/usr/bin/env python3
"""Regenerates MANIFEST.json from claims.json (the per-property claim texts) — run by hand, never by a check."""
import json, os
ROOT = os.path.dirname(os.path.abspath(__file__))
props = [json.loads(l) for l in open(os.path.join(ROOT, "properties.jsonl"))]
claims = json.load(open(os.path.join(ROOT, "claims.json")))
hooks = json.load(open(os.path.join(ROOT, "hooks.json")))
checks, na = [], []
for p in props:
    c = claims.get(p["id"])
    if c and c.get("claimed"):
        checks.append({
            "property_id": p["id"],
            "quick_cmd": f"./check {p['id']} --tier quick",
            "thorough_cmd": f"./check {p['id']} --tier thorough",
            "evidence_file": f"evidence/{p['id']}.json",
            "replay_cmd_template": f"./check {p['id']} --replay {{path}}",
            "engine": "lean-proof",
            "level_claimed": {"category": "proof", "text": c["text"], "design_ref": c.get("design_ref", "DESIGN.md §7 " + p["id"])},
            "level_note": c["note"],
            "technique": c.get("technique", "Lean 4 theorems about a hand-written model + differential correspondence with the real code + independent oracle"),
        })
    else:
        na.append({"property_id": p["id"], "reason": (c or {}).get("reason", "not claimed yet: machinery for this property is still being built (see DESIGN.md section 7)")})
claimed = [c["property_id"] for c in checks]
m = {
    "version": 1,
    "setup_cmd": "./setup.sh",
    "hooks": hooks,
    "engines": [
        {"name": "lean-proof", "path": "lean/", "serves_properties": claimed,
         "kind_free_text": "Lean 4 models + theorems (lake project DarkluaModel), axiom audit, line-protocol model driver dlv-model"},
        {"name": "harness", "path": "harness/", "serves_properties": claimed,
         "kind_free_text": "Rust crate dlv: runs real darklua code in-process and the Lean model on the same inputs (correspondence) and judges real outputs with independent oracles"},
    ],
    "checks": checks,
    "notes": "See DESIGN.md. ./check <Cxx> rebuilds the harness against /repo's working tree (cfg darklua_verif), rebuilds and audits the Lean theorems, runs corpus + known-finding replay, correspondence and oracle, writes evidence/<Cxx>.json.",
    "not_applicable": na,
}
json.dump(m, open(os.path.join(ROOT, "MANIFEST.json"), "w"), indent=1)
print("claimed:", claimed)
