#!/usr/bin/env python3
"""Lead's helper: merge a builder branch into main, unioning known_findings.json and evidence files."""
import json, subprocess, sys, re
br = sys.argv[1]
def sh(*a, check=False):
    return subprocess.run(a, cwd='/verif', stdout=subprocess.PIPE, stderr=subprocess.STDOUT, text=True)
def show(ref):
    r = sh('git', 'show', f'{ref}:known_findings.json')
    return json.loads(r.stdout) if r.returncode == 0 else []
ours, theirs = show('HEAD'), show(br)
sh('git', 'checkout', '--', 'evidence')
r = sh('git', 'merge', '--no-commit', '--no-ff', br)
print(r.stdout[-1500:])
if r.returncode != 0 and 'CONFLICT' not in r.stdout and 'Already up to date' not in r.stdout:
    print('MERGE FAILED', r.returncode); sys.exit(1)
st = sh('git', 'status', '--short').stdout
conflicts = [l[3:] for l in st.splitlines() if l[:2] in ('UU', 'AA', 'DU', 'UD')]
for c in conflicts:
    if c == 'known_findings.json':
        continue
    if c == 'claims.json':
        # main's claims + the branch's own properties' entries
        own_c = set('C' + m for m in re.findall(r'c?(\d\d)', br.split('-')[0]))
        o = json.loads(sh('git', 'show', 'HEAD:claims.json').stdout); t = json.loads(sh('git', 'show', f'{br}:claims.json').stdout)
        for k in own_c:
            if k in t: o[k] = t[k]
        open('/verif/claims.json', 'w').write(json.dumps(o, indent=1, ensure_ascii=False) + '\n'); sh('git', 'add', c)
        continue
    if c.startswith('evidence/') or c == 'harness/Cargo.lock':
        sh('git', 'checkout', '--ours', c); sh('git', 'add', c)
    elif c == 'harness/src/main.rs':
        import re as _re
        t = open('/verif/' + c).read()
        t = _re.sub(r'<<<<<<< HEAD\n(.*?)=======\n(.*?)>>>>>>> [^\n]+\n', lambda m: m.group(1) + m.group(2), t, flags=_re.S)
        open('/verif/' + c, 'w').write(t); sh('git', 'add', c)
    else:
        print('UNRESOLVED CONFLICT:', c)
# union of findings; property-scoped ids for ids beyond F24
def norm(e):
    # ids are scoped by property: (property, id) is the key; builders numbered independently
    return e
# a branch only contributes findings of its own properties (named in the branch: c06c07-r2 -> C06, C07)
own = set('C' + m for m in re.findall(r'c?(\d\d)', br.split('-')[0]))
theirs = [e for e in theirs if e['property'] in own]
ours = [e for e in ours if e['property'] not in own] if own and theirs else ours
seen, out = set(), []
for e in [norm(x) for x in ours] + [norm(x) for x in theirs]:
    key = (e['property'], e['id'])
    if key not in seen:
        seen.add(key); out.append(e)
out.sort(key=lambda e: (e['property'], e['id']))
if out:
    json.dump(out, open('/verif/known_findings.json', 'w'), indent=1)
    sh('git', 'add', 'known_findings.json')
print(sh('git', 'status', '--short').stdout[:1500])
