#!/bin/sh
# validation run: every registered thorough command once, sequentially (not a registered check itself)
cd "$(dirname "$0")"
./setup.sh >/dev/null 2>&1
for p in C01 C02 C03 C04 C05 C06 C07 C08 C09 C10 C11 C12 C13 C14 C15 C16 C17 C18 C19 C20; do
  ./check $p --tier thorough 2>&1 | grep -v "^KNOWN-FINDING" | tail -3
done
