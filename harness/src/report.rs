//! What a harness run covered and found; written as JSON for `./check` to fold into evidence.
use serde_json::{json, Value};
use std::collections::{BTreeMap, BTreeSet, HashSet};
use std::hash::{Hash, Hasher};

#[derive(Clone, Debug)]
pub struct Violation {
    /// "oracle" (the implementation breaks the property on `input`),
    /// "correspondence" (model and implementation differ on `input`),
    /// "finding-changed" (a listed known finding now fails differently)
    pub kind: String,
    pub check: String,
    pub what: String,
    pub input: Value,
    pub failing_input_found: bool,
}

pub struct Report {
    pub property: String,
    pub tier: String,
    pub seed: u64,
    pub evaluations: u64,
    distinct: HashSet<u64>,
    pub samples: Vec<Value>,
    pub histograms: BTreeMap<String, BTreeMap<String, u64>>,
    pub counters: BTreeMap<String, u64>,
    pub exhaustive: BTreeMap<String, bool>,
    pub violations: Vec<Violation>,
    pub known_seen: Vec<Value>,
    pub notes: Vec<String>,
    pub rule: String,
    pub max_samples: usize,
    violation_keys: BTreeSet<String>,
}

pub fn hash_of<T: Hash>(t: &T) -> u64 {
    let mut h = std::collections::hash_map::DefaultHasher::new();
    t.hash(&mut h);
    h.finish()
}

impl Report {
    pub fn new(property: &str, tier: &str, seed: u64) -> Self {
        Report {
            property: property.to_owned(),
            tier: tier.to_owned(),
            seed,
            evaluations: 0,
            distinct: HashSet::new(),
            samples: Vec::new(),
            histograms: BTreeMap::new(),
            counters: BTreeMap::new(),
            exhaustive: BTreeMap::new(),
            violations: Vec::new(),
            known_seen: Vec::new(),
            notes: Vec::new(),
            rule: String::new(),
            max_samples: 12,
            violation_keys: BTreeSet::new(),
        }
    }
    pub fn is_thorough(&self) -> bool {
        self.tier == "thorough"
    }
    /// one explored case; `nontrivial_key` is Some(key) when the case is non-trivial by the
    /// property's stated rule; keys are deduplicated.
    pub fn case<K: Hash>(&mut self, nontrivial_key: Option<K>) {
        self.evaluations += 1;
        if let Some(k) = nontrivial_key {
            self.distinct.insert(hash_of(&k));
        }
    }
    pub fn distinct_nontrivial(&self) -> usize {
        self.distinct.len()
    }
    pub fn sample(&mut self, v: Value) {
        if self.samples.len() < self.max_samples {
            self.samples.push(v);
        }
    }
    pub fn hist(&mut self, name: &str, bucket: &str) {
        *self
            .histograms
            .entry(name.to_owned())
            .or_default()
            .entry(bucket.to_owned())
            .or_default() += 1;
    }
    pub fn count(&mut self, name: &str, n: u64) {
        *self.counters.entry(name.to_owned()).or_default() += n;
    }
    pub fn violation(&mut self, v: Violation) {
        // keep at most a handful per check so one systematic break does not flood the report
        let key = format!("{}:{}", v.kind, v.check);
        let n = self.violations.iter().filter(|x| format!("{}:{}", x.kind, x.check) == key).count();
        self.violation_keys.insert(key);
        if n < 3 {
            self.violations.push(v);
        } else {
            self.count("violations_suppressed", 1);
        }
    }
    /// violations already recorded for this check (used to skip expensive shrinking)
    pub fn violations_for(&self, check: &str) -> usize {
        self.violations.iter().filter(|v| v.check == check).count()
    }
    pub fn known_finding(&mut self, id: &str, what: &str) {
        self.known_seen.push(json!({"id": id, "what": what}));
    }
    /// fold a worker thread's report into this one
    pub fn merge(&mut self, other: Report) {
        self.evaluations += other.evaluations;
        self.distinct.extend(other.distinct);
        for s in other.samples {
            self.sample(s);
        }
        for (name, h) in other.histograms {
            let mine = self.histograms.entry(name).or_default();
            for (k, v) in h {
                *mine.entry(k).or_default() += v;
            }
        }
        for (k, v) in other.counters {
            *self.counters.entry(k).or_default() += v;
        }
        for (k, v) in other.exhaustive {
            let e = self.exhaustive.entry(k).or_insert(true);
            *e = *e && v;
        }
        for v in other.violations {
            self.violation(v);
        }
        self.known_seen.extend(other.known_seen);
        self.notes.extend(other.notes);
    }
    /// run `work(thread_index, &mut thread_report)` on `threads` threads and merge the reports
    pub fn parallel<F>(&mut self, threads: usize, work: F)
    where
        F: Fn(usize, &mut Report) + Sync,
    {
        let results: Vec<Report> = std::thread::scope(|scope| {
            let handles: Vec<_> = (0..threads)
                .map(|i| {
                    let work = &work;
                    let mut r = Report::new(&self.property, &self.tier, self.seed);
                    r.max_samples = 3;
                    scope.spawn(move || {
                        work(i, &mut r);
                        r
                    })
                })
                .collect();
            handles.into_iter().map(|h| h.join().expect("worker thread panicked")).collect()
        });
        for r in results {
            self.merge(r);
        }
    }
    pub fn to_json(&self) -> Value {
        json!({
            "property": self.property,
            "tier": self.tier,
            "seed": self.seed,
            "evaluations": self.evaluations,
            "distinct_nontrivial": self.distinct.len(),
            "rule": self.rule,
            "samples": self.samples,
            "histograms": self.histograms,
            "counters": self.counters,
            "exhaustive": self.exhaustive,
            "notes": self.notes,
            "known_findings_seen": self.known_seen,
            "violations": self.violations.iter().map(|v| json!({
                "kind": v.kind, "check": v.check, "what": v.what, "input": v.input,
                "failing_input_found": v.failing_input_found,
            })).collect::<Vec<_>>(),
        })
    }
}

/// entries of /verif/known_findings.json for one property
pub fn known_findings(property: &str) -> Vec<Value> {
    let path = concat!(env!("CARGO_MANIFEST_DIR"), "/../known_findings.json");
    let text = match std::fs::read_to_string(path) {
        Ok(t) => t,
        Err(_) => return Vec::new(),
    };
    let all: Value = serde_json::from_str(&text).expect("known_findings.json is not valid JSON");
    all.as_array()
        .map(|a| {
            a.iter()
                .filter(|e| e["property"] == property)
                .cloned()
                .collect()
        })
        .unwrap_or_default()
}
