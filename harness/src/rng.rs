//! SplitMix64: every random choice of a run derives from one state seeded by VERIF_SEED.
#[derive(Clone, Debug)]
pub struct Rng(pub u64);

impl Rng {
    pub fn new(seed: u64) -> Self {
        // scramble so that consecutive seeds give unrelated streams (not the same stream shifted)
        let mut z = seed.wrapping_add(0x632BE59BD9B4E019).wrapping_mul(0xD1B54A32D192ED03);
        z = (z ^ (z >> 29)).wrapping_mul(0xBF58476D1CE4E5B9);
        z = (z ^ (z >> 32)).wrapping_mul(0x94D049BB133111EB);
        Rng(z ^ (z >> 31))
    }
    pub fn next_u64(&mut self) -> u64 {
        self.0 = self.0.wrapping_add(0x9E3779B97F4A7C15);
        let mut z = self.0;
        z = (z ^ (z >> 30)).wrapping_mul(0xBF58476D1CE4E5B9);
        z = (z ^ (z >> 27)).wrapping_mul(0x94D049BB133111EB);
        z ^ (z >> 31)
    }
    /// uniform in 0..n (n > 0)
    pub fn below(&mut self, n: usize) -> usize {
        (self.next_u64() % (n as u64)) as usize
    }
    pub fn range(&mut self, lo: i64, hi_inclusive: i64) -> i64 {
        lo + (self.next_u64() % ((hi_inclusive - lo + 1) as u64)) as i64
    }
    pub fn chance(&mut self, num: u32, den: u32) -> bool {
        (self.next_u64() % den as u64) < num as u64
    }
    pub fn pick<'a, T>(&mut self, items: &'a [T]) -> &'a T {
        &items[self.below(items.len())]
    }
    pub fn fork(&mut self) -> Rng {
        Rng(self.next_u64())
    }
    pub fn shuffle<T>(&mut self, items: &mut [T]) {
        for i in (1..items.len()).rev() {
            let j = self.below(i + 1);
            items.swap(i, j);
        }
    }
}
