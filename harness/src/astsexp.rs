//! Rust side of the shared AST codec (wire grammar: BUILDING-AST.md; Lean side:
//! `lean/DarkluaModel/Shared/AstSexp.lean`).
//!
//! Converts between darklua's real AST (`darklua_core::nodes::*`, public accessors and
//! constructors only) and the one-line S-expression text. Tokens are ignored in the forward
//! direction and never produced in the reverse direction.
//!
//! Public API
//! ----------
//! * `Sexp` { `Atom`, `List` } with `Sexp::parse`, `Display`/`to_string`, `atom()`, `list()`, `head()`.
//! * forward: `block_to_sexp`, `expr_to_sexp`, `stmt_to_sexp`, `type_to_sexp` (text) and
//!   `block_to_tree`, `expr_to_tree`, `stmt_to_tree`, `type_to_tree` (`Sexp` values).
//! * reverse: `sexp_to_block`, `sexp_to_expr`, `sexp_to_stmt`, `sexp_to_type` (text) and
//!   `tree_to_block`, `tree_to_expr`, `tree_to_stmt`, `tree_to_type` (`Sexp` values).
//!   Errors are `String`s of the form `"<reason>: <detail>"`; the reason (text before the
//!   first `:`) is a stable category (`syntax`, `prefix`, `variable`, `callstmt`, `call`,
//!   `cassign`, `fnbody`, `generics`, `name`, `type`, ...).
//! * `hex_name`, `unhex_name`, `hex_bytes`, `unhex_bytes` for the `x<hex>` atoms.
//!
//! What the forward direction drops (not representable in the wire grammar)
//! -----------------------------------------------------------------------
//! * all tokens / trivia / literal spellings (number base and exponent, string quotes);
//! * type instantiation on a *method* call (`obj:m<<T>>(…)`): the types are dropped, the
//!   call itself is kept (`call_drops_method_types` tells);
//! * attribute arguments and grouping: `@[a, b(1)]` and `@a @b` both give the names `a b`;
//! * the leading `|` / `&` of union / intersection types.
//!
//! Numbers
//! -------
//! `(num f<16 hex>)` carries `NumberExpression::compute_value().to_bits()`. Reverse: ALWAYS `DecimalNumber::new(f64::from_bits(bits))`, one literal
//! node, for every bit pattern, so that `compute_value().to_bits()` is exactly the wire value
//! (including negative numbers, -0.0, infinities and NaN payloads). Note that this is NOT
//! `Expression::from(f64)`, which builds `-x`, `1/0`, `0/0` trees and attaches exponents.
//! Such a node holding a negative / non-finite value cannot come out of darklua's parser and
//! the generators print it as `(-1/0)`, `(0/0)` or a `-`-prefixed literal, which re-parses to
//! a different tree.
//!
//! Strings: `(str x<hex>)` is `StringExpression::get_value()`; rebuilt with `from_value(bytes)`.
//!
//! Prefix / Variable: the wire format folds `Prefix` and `Variable` into `expr`. The reverse
//! direction converts an expr back where a prefix (call / field / index / inst target) or a
//! variable (assignment targets) is required and returns `Err("prefix: …")` /
//! `Err("variable: …")` when the expr is not one — it never wraps in parentheses.
//!
//! Types: `(typeof expr)` or `(ty TAG kid*)`, TAG being an `x<hex>` name. Vocabulary:
//!
//! ```text
//! type T ::= name:Foo P*            named type, kids = type parameters
//!          | field:ns.Foo P*        namespaced type
//!          | name<>:Foo | field<>:ns.Foo     `Foo<>`: present but empty parameter list
//!          | true | false | nil
//!          | string:x<hex>          singleton string type (value bytes)
//!          | array T
//!          | table ENTRY*           ENTRY ::= prop[-read|-write]:NAME T
//!                                           | litprop[-read|-write]:x<hex> T
//!                                           | indexer[-read|-write] T T
//!          | paren T | optional T | union T+ | intersection T+
//!          | function GENERICS? ARG* VARIADIC? (return R)
//!                                   ARG ::= (arg T) | (arg:NAME T)
//!                                   VARIADIC ::= generic-pack:T | variadic-pack T
//!                                   R ::= T | PACK
//!          | (typeof expr)
//! pack PACK ::= pack T* VARIADIC?   `(A, B, ...C)`
//!          | variadic-pack T        `...T`
//!          | generic-pack:T         `T...`
//! type parameter P ::= T | PACK
//! GENERICS ::= generics G*          G ::= generic:T DEFAULT? | generic-pack:T DEFAULTPACK?
//! ```
//!
//! Positions: function variadic type (`optty` #1 of fnbody) is `T | generic-pack:T`; the
//! return type (`optty` #2) is `R`. A type declaration with generic parameters is
//! `(typedecl bool name (ty generic-decl (ty generics G*) T))`, without: `(typedecl bool name T)`.
//! fnbody generic names are `T` for a type variable and `T...` for a generic type pack
//! (variables first, as in darklua's `GenericParameters`).
//!
//! Reverse direction for types: the whole vocabulary above is decoded, except
//! * `string:` / `litprop:` whose bytes are not UTF-8 (`StringType::from_value` takes a `String`),
//! * a `table` with several non-string indexers, or an `indexer` whose key is a `string:` type
//!   (darklua's `TableType::push_property` rewrites / replaces those),
//! * `generics` mixing defaults in an order `GenericParametersWithDefaults` refuses,
//! which return `Err("type: …")`.
#![allow(clippy::result_large_err)]

use darklua_core::nodes::*;
use std::fmt;

// ---------------------------------------------------------------------------------------------
// S-expressions
// ---------------------------------------------------------------------------------------------

#[derive(Clone, Debug, PartialEq, Eq)]
pub enum Sexp {
    Atom(String),
    List(Vec<Sexp>),
}

impl Sexp {
    /// Parse exactly one S-expression (atoms: any run of characters other than whitespace and
    /// parentheses). Iterative: nesting depth is not limited by the call stack.
    pub fn parse(text: &str) -> Result<Sexp, String> {
        let bytes = text.as_bytes();
        let mut stack: Vec<Vec<Sexp>> = Vec::new();
        let mut current: Vec<Sexp> = Vec::new();
        let mut i = 0;
        while i < bytes.len() {
            match bytes[i] {
                b'(' => {
                    stack.push(std::mem::take(&mut current));
                    i += 1;
                }
                b')' => {
                    let parent = stack
                        .pop()
                        .ok_or_else(|| format!("syntax: unbalanced ')' at byte {}", i))?;
                    let done = std::mem::replace(&mut current, parent);
                    current.push(Sexp::List(done));
                    i += 1;
                }
                b' ' | b'\n' | b'\t' | b'\r' => i += 1,
                _ => {
                    let start = i;
                    while i < bytes.len() && !matches!(bytes[i], b'(' | b')' | b' ' | b'\n' | b'\t' | b'\r') {
                        i += 1;
                    }
                    current.push(Sexp::Atom(text[start..i].to_owned()));
                }
            }
        }
        if !stack.is_empty() {
            return Err("syntax: unbalanced '('".to_owned());
        }
        if current.len() != 1 {
            return Err(format!("syntax: expected one S-expression, found {}", current.len()));
        }
        Ok(current.pop().unwrap())
    }

    pub fn atom(&self) -> Option<&str> {
        match self {
            Sexp::Atom(a) => Some(a),
            Sexp::List(_) => None,
        }
    }

    pub fn list(&self) -> Option<&[Sexp]> {
        match self {
            Sexp::Atom(_) => None,
            Sexp::List(items) => Some(items),
        }
    }

    /// the leading atom of a list: `(head …)`
    pub fn head(&self) -> Option<&str> {
        self.list().and_then(|items| items.first()).and_then(Sexp::atom)
    }

    fn write(&self, out: &mut String) {
        match self {
            Sexp::Atom(a) => out.push_str(a),
            Sexp::List(items) => {
                out.push('(');
                for (i, item) in items.iter().enumerate() {
                    if i > 0 {
                        out.push(' ');
                    }
                    item.write(out);
                }
                out.push(')');
            }
        }
    }
}

impl fmt::Display for Sexp {
    fn fmt(&self, f: &mut fmt::Formatter<'_>) -> fmt::Result {
        let mut out = String::new();
        self.write(&mut out);
        f.write_str(&out)
    }
}

fn a(s: &str) -> Sexp {
    Sexp::Atom(s.to_owned())
}
fn l(items: Vec<Sexp>) -> Sexp {
    Sexp::List(items)
}
fn tagged(head: &str, rest: impl IntoIterator<Item = Sexp>) -> Sexp {
    let mut items = vec![a(head)];
    items.extend(rest);
    Sexp::List(items)
}

pub fn hex_bytes(bytes: &[u8]) -> String {
    const DIGITS: &[u8; 16] = b"0123456789abcdef";
    let mut s = String::with_capacity(bytes.len() * 2 + 1);
    s.push('x');
    for b in bytes {
        s.push(DIGITS[(b >> 4) as usize] as char);
        s.push(DIGITS[(b & 15) as usize] as char);
    }
    s
}

pub fn hex_name(name: &str) -> String {
    hex_bytes(name.as_bytes())
}

pub fn unhex_bytes(atom: &str) -> Option<Vec<u8>> {
    let digits = atom.strip_prefix('x')?.as_bytes();
    if digits.len() % 2 != 0 {
        return None;
    }
    let value = |c: u8| -> Option<u8> {
        match c {
            b'0'..=b'9' => Some(c - b'0'),
            b'a'..=b'f' => Some(c - b'a' + 10),
            b'A'..=b'F' => Some(c - b'A' + 10),
            _ => None,
        }
    };
    digits
        .chunks(2)
        .map(|pair| Some(value(pair[0])? * 16 + value(pair[1])?))
        .collect()
}

pub fn unhex_name(atom: &str) -> Option<String> {
    String::from_utf8(unhex_bytes(atom)?).ok()
}

fn name(s: &str) -> Sexp {
    Sexp::Atom(hex_name(s))
}
fn ident(identifier: &Identifier) -> Sexp {
    name(identifier.get_name())
}
fn opt_ident(identifier: Option<&Identifier>) -> Sexp {
    identifier.map(ident).unwrap_or_else(|| a("-"))
}
fn boolean(b: bool) -> Sexp {
    a(if b { "true" } else { "false" })
}

// ---------------------------------------------------------------------------------------------
// forward: darklua AST -> Sexp
// ---------------------------------------------------------------------------------------------

pub fn block_to_sexp(block: &Block) -> String {
    block_to_tree(block).to_string()
}
pub fn expr_to_sexp(expr: &Expression) -> String {
    expr_to_tree(expr).to_string()
}
pub fn stmt_to_sexp(stmt: &Statement) -> String {
    stmt_to_tree(stmt).to_string()
}
pub fn type_to_sexp(ty: &Type) -> String {
    type_to_tree(ty).to_string()
}

/// The f64 darklua computes for a number literal (see the module documentation).
pub fn number_value(number: &NumberExpression) -> f64 {
    number.compute_value()
}

fn binop_name(op: BinaryOperator) -> &'static str {
    use BinaryOperator::*;
    match op {
        And => "and",
        Or => "or",
        Equal => "eq",
        NotEqual => "ne",
        LowerThan => "lt",
        LowerOrEqualThan => "le",
        GreaterThan => "gt",
        GreaterOrEqualThan => "ge",
        Plus => "add",
        Minus => "sub",
        Asterisk => "mul",
        Slash => "div",
        DoubleSlash => "idiv",
        Percent => "mod",
        Caret => "pow",
        Concat => "concat",
    }
}

fn binop_of(name: &str) -> Option<BinaryOperator> {
    use BinaryOperator::*;
    Some(match name {
        "and" => And,
        "or" => Or,
        "eq" => Equal,
        "ne" => NotEqual,
        "lt" => LowerThan,
        "le" => LowerOrEqualThan,
        "gt" => GreaterThan,
        "ge" => GreaterOrEqualThan,
        "add" => Plus,
        "sub" => Minus,
        "mul" => Asterisk,
        "div" => Slash,
        "idiv" => DoubleSlash,
        "mod" => Percent,
        "pow" => Caret,
        "concat" => Concat,
        _ => return None,
    })
}

fn compound_of(name: &str) -> Option<CompoundOperator> {
    use CompoundOperator::*;
    Some(match name {
        "add" => Plus,
        "sub" => Minus,
        "mul" => Asterisk,
        "div" => Slash,
        "idiv" => DoubleSlash,
        "mod" => Percent,
        "pow" => Caret,
        "concat" => Concat,
        _ => return None,
    })
}

pub fn expr_to_tree(expr: &Expression) -> Sexp {
    match expr {
        Expression::Nil(_) => a("nil"),
        Expression::True(_) => a("true"),
        Expression::False(_) => a("false"),
        Expression::VariableArguments(_) => a("vararg"),
        Expression::Number(number) => {
            l(vec![a("num"), Sexp::Atom(format!("f{:016x}", number_value(number).to_bits()))])
        }
        Expression::String(string) => l(vec![a("str"), Sexp::Atom(hex_bytes(string.get_value()))]),
        Expression::Identifier(identifier) => l(vec![a("var"), ident(identifier)]),
        Expression::Parenthese(paren) => paren_tree(paren),
        Expression::Unary(unary) => {
            let op = match unary.operator() {
                UnaryOperator::Minus => "neg",
                UnaryOperator::Not => "not",
                UnaryOperator::Length => "len",
            };
            l(vec![a("un"), a(op), expr_to_tree(unary.get_expression())])
        }
        Expression::Binary(binary) => l(vec![
            a("bin"),
            a(binop_name(binary.operator())),
            expr_to_tree(binary.left()),
            expr_to_tree(binary.right()),
        ]),
        Expression::Call(call) => call_tree(call),
        Expression::Field(field) => field_tree(field),
        Expression::Index(index) => index_tree(index),
        Expression::Function(function) => l(vec![
            a("fn"),
            fnbody_tree(
                function.get_parameters(),
                function.is_variadic(),
                function.get_variadic_type(),
                function.get_return_type(),
                function.get_generic_parameters(),
                Some(function.attributes()),
                function.get_block(),
            ),
        ]),
        Expression::Table(table) => table_tree(table),
        Expression::If(if_expr) => l(vec![
            a("ifx"),
            expr_to_tree(if_expr.get_condition()),
            expr_to_tree(if_expr.get_result()),
            l(if_expr
                .iter_branches()
                .map(|branch| {
                    l(vec![expr_to_tree(branch.get_condition()), expr_to_tree(branch.get_result())])
                })
                .collect()),
            expr_to_tree(if_expr.get_else_result()),
        ]),
        Expression::InterpolatedString(string) => tagged(
            "interp",
            string.iter_segments().map(|segment| match segment {
                InterpolationSegment::String(s) => l(vec![a("s"), Sexp::Atom(hex_bytes(s.get_value()))]),
                InterpolationSegment::Value(v) => l(vec![a("v"), expr_to_tree(v.get_expression())]),
            }),
        ),
        Expression::TypeCast(cast) => l(vec![
            a("cast"),
            expr_to_tree(cast.get_expression()),
            type_to_tree(cast.get_type()),
        ]),
        Expression::TypeInstantiation(inst) => inst_tree(inst),
    }
}

fn paren_tree(paren: &ParentheseExpression) -> Sexp {
    l(vec![a("paren"), expr_to_tree(paren.inner_expression())])
}
fn field_tree(field: &FieldExpression) -> Sexp {
    l(vec![a("field"), prefix_tree(field.get_prefix()), ident(field.get_field())])
}
fn index_tree(index: &IndexExpression) -> Sexp {
    l(vec![a("index"), prefix_tree(index.get_prefix()), expr_to_tree(index.get_index())])
}
fn inst_tree(inst: &TypeInstantiationExpression) -> Sexp {
    let mut items = vec![a("inst"), prefix_tree(inst.get_prefix())];
    items.extend(inst.iter_types().map(type_to_tree));
    l(items)
}
fn table_tree(table: &TableExpression) -> Sexp {
    tagged(
        "table",
        table.iter_entries().map(|entry| match entry {
            TableEntry::Value(value) => l(vec![a("pos"), expr_to_tree(value)]),
            TableEntry::Field(field) => {
                l(vec![a("named"), ident(field.get_field()), expr_to_tree(field.get_value())])
            }
            TableEntry::Index(index) => {
                l(vec![a("keyed"), expr_to_tree(index.get_key()), expr_to_tree(index.get_value())])
            }
        }),
    )
}

pub fn prefix_to_tree(prefix: &Prefix) -> Sexp {
    prefix_tree(prefix)
}

fn prefix_tree(prefix: &Prefix) -> Sexp {
    match prefix {
        Prefix::Call(call) => call_tree(call),
        Prefix::Field(field) => field_tree(field),
        Prefix::Identifier(identifier) => l(vec![a("var"), ident(identifier)]),
        Prefix::Index(index) => index_tree(index),
        Prefix::Parenthese(paren) => paren_tree(paren),
        Prefix::TypeInstantiation(inst) => inst_tree(inst),
    }
}

pub fn variable_to_tree(variable: &Variable) -> Sexp {
    match variable {
        Variable::Identifier(identifier) => l(vec![a("var"), ident(identifier)]),
        Variable::Field(field) => field_tree(field),
        Variable::Index(index) => index_tree(index),
    }
}

pub fn call_to_tree(call: &FunctionCall) -> Sexp {
    call_tree(call)
}

fn call_tree(call: &FunctionCall) -> Sexp {
    let mut items = vec![a("call"), prefix_tree(call.get_prefix()), opt_ident(call.get_method())];
    match call.get_arguments() {
        Arguments::Tuple(tuple) => {
            items.push(a("t"));
            items.extend(tuple.iter_values().map(expr_to_tree));
        }
        Arguments::String(string) => {
            items.push(a("s"));
            items.push(l(vec![a("str"), Sexp::Atom(hex_bytes(string.get_value()))]));
        }
        Arguments::Table(table) => {
            items.push(a("b"));
            items.push(table_tree(table));
        }
    }
    l(items)
}

fn opt_type_tree<T>(ty: Option<&T>, f: impl Fn(&T) -> Sexp) -> Sexp {
    ty.map(f).unwrap_or_else(|| a("-"))
}

fn tname_tree(typed: &TypedIdentifier) -> Sexp {
    l(vec![a("n"), ident(typed.get_identifier()), opt_type_tree(typed.get_type(), type_to_tree)])
}

fn attribute_names(attributes: &Attributes) -> Vec<Sexp> {
    let mut names = Vec::new();
    for attribute in attributes.iter_attributes() {
        match attribute {
            Attribute::Name(named) => names.push(ident(named.get_identifier())),
            Attribute::Group(group) => {
                names.extend(group.iter_attributes().map(|element| ident(element.name())))
            }
        }
    }
    names
}

#[allow(clippy::too_many_arguments)]
fn fnbody_tree(
    parameters: &[TypedIdentifier],
    is_variadic: bool,
    variadic_type: Option<&FunctionVariadicType>,
    return_type: Option<&FunctionReturnType>,
    generics: Option<&GenericParameters>,
    attributes: Option<&Attributes>,
    block: &Block,
) -> Sexp {
    let generic_names = generics
        .map(|generics| {
            generics
                .iter_type_variable()
                .map(ident)
                .chain(
                    generics
                        .iter_generic_type_pack()
                        .map(|pack| name(&format!("{}...", pack.get_name().get_name()))),
                )
                .collect()
        })
        .unwrap_or_default();
    l(vec![
        a("fnbody"),
        l(parameters.iter().map(tname_tree).collect()),
        boolean(is_variadic),
        opt_type_tree(variadic_type, |ty| match ty {
            FunctionVariadicType::Type(ty) => type_to_tree(ty),
            FunctionVariadicType::GenericTypePack(pack) => generic_pack_tree(pack),
        }),
        opt_type_tree(return_type, return_type_tree),
        l(generic_names),
        l(attributes.map(attribute_names).unwrap_or_default()),
        block_to_tree(block),
    ])
}

pub fn stmt_to_tree(stmt: &Statement) -> Sexp {
    match stmt {
        Statement::Assign(assign) => l(vec![
            a("assign"),
            l(assign.iter_variables().map(variable_to_tree).collect()),
            l(assign.iter_values().map(expr_to_tree).collect()),
        ]),
        Statement::CompoundAssign(assign) => l(vec![
            a("cassign"),
            a(binop_name(assign.get_operator().to_binary_operator())),
            variable_to_tree(assign.get_variable()),
            expr_to_tree(assign.get_value()),
        ]),
        Statement::Call(call) => l(vec![a("callstmt"), call_tree(call)]),
        Statement::Do(do_stmt) => l(vec![a("do"), block_to_tree(do_stmt.get_block())]),
        Statement::Function(function) => {
            let fname = function.get_name();
            let mut names = vec![ident(fname.get_name())];
            names.extend(fname.get_field_names().iter().map(ident));
            l(vec![
                a("function"),
                l(names),
                opt_ident(fname.get_method()),
                fnbody_tree(
                    function.get_parameters(),
                    function.is_variadic(),
                    function.get_variadic_type(),
                    function.get_return_type(),
                    function.get_generic_parameters(),
                    Some(function.attributes()),
                    function.get_block(),
                ),
            ])
        }
        Statement::GenericFor(gfor) => l(vec![
            a("gfor"),
            l(gfor.iter_identifiers().map(tname_tree).collect()),
            l(gfor.iter_expressions().map(expr_to_tree).collect()),
            block_to_tree(gfor.get_block()),
        ]),
        Statement::NumericFor(nfor) => l(vec![
            a("nfor"),
            tname_tree(nfor.get_identifier()),
            expr_to_tree(nfor.get_start()),
            expr_to_tree(nfor.get_end()),
            nfor.get_step().map(expr_to_tree).unwrap_or_else(|| a("-")),
            block_to_tree(nfor.get_block()),
        ]),
        Statement::If(if_stmt) => l(vec![
            a("if"),
            l(if_stmt
                .iter_branches()
                .map(|branch| l(vec![expr_to_tree(branch.get_condition()), block_to_tree(branch.get_block())]))
                .collect()),
            if_stmt.get_else_block().map(block_to_tree).unwrap_or_else(|| a("-")),
        ]),
        Statement::LocalAssign(assign) => l(vec![
            a("local"),
            a(kind_name(assign.get_assignment_kind())),
            l(assign.iter_variables().map(tname_tree).collect()),
            l(assign.iter_values().map(expr_to_tree).collect()),
        ]),
        Statement::LocalFunction(function) => l(vec![
            a("localfn"),
            a(kind_name(function.get_assignment_kind())),
            ident(function.get_identifier()),
            fnbody_tree(
                function.get_parameters(),
                function.is_variadic(),
                function.get_variadic_type(),
                function.get_return_type(),
                function.get_generic_parameters(),
                Some(function.attributes()),
                function.get_block(),
            ),
        ]),
        Statement::Repeat(repeat) => l(vec![
            a("repeat"),
            block_to_tree(repeat.get_block()),
            expr_to_tree(repeat.get_condition()),
        ]),
        Statement::While(while_stmt) => l(vec![
            a("while"),
            expr_to_tree(while_stmt.get_condition()),
            block_to_tree(while_stmt.get_block()),
        ]),
        Statement::TypeDeclaration(decl) => {
            let ty = type_to_tree(decl.get_type());
            let ty = match decl.get_generic_parameters() {
                None => ty,
                Some(generics) => ty_node(
                    "generic-decl",
                    vec![
                        ty_node(
                            "generics",
                            generics
                                .iter()
                                .map(|parameter| match parameter {
                                    GenericParameterRef::TypeVariable(variable) => {
                                        ty_node(&format!("generic:{}", variable.get_name()), vec![])
                                    }
                                    GenericParameterRef::TypeVariableWithDefault(variable) => ty_node(
                                        &format!("generic:{}", variable.get_type_variable().get_name()),
                                        vec![type_to_tree(variable.get_default_type())],
                                    ),
                                    GenericParameterRef::GenericTypePack(pack) => generic_pack_tree(pack),
                                    GenericParameterRef::GenericTypePackWithDefault(pack) => ty_node(
                                        &format!(
                                            "generic-pack:{}",
                                            pack.get_generic_type_pack().get_name().get_name()
                                        ),
                                        vec![match pack.get_default_type() {
                                            GenericTypePackDefault::TypePack(pack) => type_pack_tree(pack),
                                            GenericTypePackDefault::VariadicTypePack(pack) => {
                                                variadic_pack_tree(pack)
                                            }
                                            GenericTypePackDefault::GenericTypePack(pack) => {
                                                generic_pack_tree(pack)
                                            }
                                        }],
                                    ),
                                })
                                .collect(),
                        ),
                        ty,
                    ],
                ),
            };
            l(vec![a("typedecl"), boolean(decl.is_exported()), ident(decl.get_name()), ty])
        }
        Statement::TypeFunction(function) => l(vec![
            a("typefn"),
            boolean(function.is_exported()),
            ident(function.get_identifier()),
            fnbody_tree(
                function.get_parameters(),
                function.is_variadic(),
                function.get_variadic_type(),
                function.get_return_type(),
                function.get_generic_parameters(),
                None,
                function.get_block(),
            ),
        ]),
    }
}

fn kind_name(kind: AssignmentKind) -> &'static str {
    match kind {
        AssignmentKind::Local => "local",
        AssignmentKind::Const => "const",
    }
}

pub fn block_to_tree(block: &Block) -> Sexp {
    let mut items = vec![a("block"), l(block.iter_statements().map(stmt_to_tree).collect())];
    if let Some(last) = block.get_last_statement() {
        items.push(match last {
            LastStatement::Break(_) => a("break"),
            LastStatement::Continue(_) => a("continue"),
            LastStatement::Return(ret) => tagged("return", ret.iter_expressions().map(expr_to_tree)),
        });
    }
    l(items)
}

// --- types -----------------------------------------------------------------------------------

fn ty_node(tag: &str, kids: Vec<Sexp>) -> Sexp {
    let mut items = vec![a("ty"), name(tag)];
    items.extend(kids);
    l(items)
}

fn generic_pack_tree(pack: &GenericTypePack) -> Sexp {
    ty_node(&format!("generic-pack:{}", pack.get_name().get_name()), vec![])
}
fn variadic_pack_tree(pack: &VariadicTypePack) -> Sexp {
    ty_node("variadic-pack", vec![type_to_tree(pack.get_type())])
}
fn variadic_argument_tree(ty: &VariadicArgumentType) -> Sexp {
    match ty {
        VariadicArgumentType::GenericTypePack(pack) => generic_pack_tree(pack),
        VariadicArgumentType::VariadicTypePack(pack) => variadic_pack_tree(pack),
    }
}
fn type_pack_tree(pack: &TypePack) -> Sexp {
    let mut kids: Vec<Sexp> = pack.iter().map(type_to_tree).collect();
    if let Some(variadic) = pack.get_variadic_type() {
        kids.push(variadic_argument_tree(variadic));
    }
    ty_node("pack", kids)
}
fn return_type_tree(ty: &FunctionReturnType) -> Sexp {
    match ty {
        FunctionReturnType::Type(ty) => type_to_tree(ty),
        FunctionReturnType::TypePack(pack) => type_pack_tree(pack),
        FunctionReturnType::GenericTypePack(pack) => generic_pack_tree(pack),
        FunctionReturnType::VariadicTypePack(pack) => variadic_pack_tree(pack),
    }
}
fn type_parameters_tree(type_name: &TypeName) -> Vec<Sexp> {
    type_name
        .get_type_parameters()
        .map(|parameters| {
            parameters
                .iter()
                .map(|parameter| match parameter {
                    TypeParameter::Type(ty) => type_to_tree(ty),
                    TypeParameter::TypePack(pack) => type_pack_tree(pack),
                    TypeParameter::VariadicTypePack(pack) => variadic_pack_tree(pack),
                    TypeParameter::GenericTypePack(pack) => generic_pack_tree(pack),
                })
                .collect()
        })
        .unwrap_or_default()
}
/// `Foo<>` (a present but empty parameter list) is tagged `name<>:Foo`
fn empty_parameters_mark(type_name: &TypeName) -> &'static str {
    match type_name.get_type_parameters() {
        Some(parameters) if parameters.is_empty() => "<>",
        _ => "",
    }
}
fn modifier_suffix(modifier: Option<&TablePropertyModifier>) -> &'static str {
    match modifier {
        None => "",
        Some(TablePropertyModifier::Read) => "-read",
        Some(TablePropertyModifier::Write) => "-write",
    }
}

pub fn type_to_tree(ty: &Type) -> Sexp {
    match ty {
        Type::Name(type_name) => ty_node(
            &format!("name{}:{}", empty_parameters_mark(type_name), type_name.get_type_name().get_name()),
            type_parameters_tree(type_name),
        ),
        Type::Field(field) => ty_node(
            &format!(
                "field{}:{}.{}",
                empty_parameters_mark(field.get_type_name()),
                field.get_namespace().get_name(),
                field.get_type_name().get_type_name().get_name()
            ),
            type_parameters_tree(field.get_type_name()),
        ),
        Type::True(_) => ty_node("true", vec![]),
        Type::False(_) => ty_node("false", vec![]),
        Type::Nil(_) => ty_node("nil", vec![]),
        Type::String(string) => ty_node(&format!("string:{}", hex_bytes(string.get_value())), vec![]),
        Type::Array(array) => ty_node("array", vec![type_to_tree(array.get_element_type())]),
        Type::Table(table) => ty_node(
            "table",
            table
                .iter_entries()
                .map(|entry| match entry {
                    TableEntryType::Property(property) => ty_node(
                        &format!(
                            "prop{}:{}",
                            modifier_suffix(property.get_modifier()),
                            property.get_identifier().get_name()
                        ),
                        vec![type_to_tree(property.get_type())],
                    ),
                    TableEntryType::Literal(property) => ty_node(
                        &format!(
                            "litprop{}:{}",
                            modifier_suffix(property.get_modifier()),
                            hex_bytes(property.get_string().get_value())
                        ),
                        vec![type_to_tree(property.get_type())],
                    ),
                    TableEntryType::Indexer(indexer) => ty_node(
                        &format!("indexer{}", modifier_suffix(indexer.get_modifier())),
                        vec![type_to_tree(indexer.get_key_type()), type_to_tree(indexer.get_value_type())],
                    ),
                })
                .collect(),
        ),
        Type::TypeOf(expression) => l(vec![a("typeof"), expr_to_tree(expression.get_expression())]),
        Type::Parenthese(paren) => ty_node("paren", vec![type_to_tree(paren.get_inner_type())]),
        Type::Function(function) => {
            let mut kids = Vec::new();
            if let Some(generics) = function.get_generic_parameters() {
                kids.push(ty_node(
                    "generics",
                    generics
                        .iter_type_variable()
                        .map(|variable| ty_node(&format!("generic:{}", variable.get_name()), vec![]))
                        .chain(generics.iter_generic_type_pack().map(generic_pack_tree))
                        .collect(),
                ));
            }
            for argument in function.iter_arguments() {
                let tag = match argument.get_name() {
                    Some(name) => format!("arg:{}", name.get_name()),
                    None => "arg".to_owned(),
                };
                kids.push(ty_node(&tag, vec![type_to_tree(argument.get_type())]));
            }
            if let Some(variadic) = function.get_variadic_argument_type() {
                kids.push(variadic_argument_tree(variadic));
            }
            kids.push(ty_node("return", vec![return_type_tree(function.get_return_type())]));
            ty_node("function", kids)
        }
        Type::Optional(optional) => ty_node("optional", vec![type_to_tree(optional.get_inner_type())]),
        Type::Intersection(intersection) => {
            ty_node("intersection", intersection.iter_types().map(type_to_tree).collect())
        }
        Type::Union(union) => ty_node("union", union.iter_types().map(type_to_tree).collect()),
    }
}

/// True when the call is `obj:m<<T>>(…)`: its method type instantiation is the one piece of
/// type syntax the wire grammar has no slot for (the forward direction drops it).
pub fn call_drops_method_types(call: &FunctionCall) -> bool {
    call.has_method_type_instantiation()
}

// ---------------------------------------------------------------------------------------------
// reverse: Sexp -> darklua AST
// ---------------------------------------------------------------------------------------------

type R<T> = Result<T, String>;

pub fn sexp_to_block(text: &str) -> R<Block> {
    tree_to_block(&Sexp::parse(text)?)
}
pub fn sexp_to_expr(text: &str) -> R<Expression> {
    tree_to_expr(&Sexp::parse(text)?)
}
pub fn sexp_to_stmt(text: &str) -> R<Statement> {
    tree_to_stmt(&Sexp::parse(text)?)
}
pub fn sexp_to_type(text: &str) -> R<Type> {
    tree_to_type(&Sexp::parse(text)?)
}

fn short(s: &Sexp) -> String {
    let text = s.to_string();
    if text.len() > 60 {
        let mut end = 60;
        while !text.is_char_boundary(end) {
            end -= 1;
        }
        format!("{}…", &text[..end])
    } else {
        text
    }
}

fn want_list<'a>(s: &'a Sexp, what: &str) -> R<&'a [Sexp]> {
    s.list().ok_or_else(|| format!("syntax: expected a list for {}, got {}", what, short(s)))
}
fn want_atom<'a>(s: &'a Sexp, what: &str) -> R<&'a str> {
    s.atom().ok_or_else(|| format!("syntax: expected an atom for {}, got {}", what, short(s)))
}
fn want_name(s: &Sexp) -> R<String> {
    let atom = want_atom(s, "name")?;
    unhex_name(atom).ok_or_else(|| format!("name: not x<hex of UTF-8>: {}", atom))
}
fn want_bytes(s: &Sexp) -> R<Vec<u8>> {
    let atom = want_atom(s, "bytes")?;
    unhex_bytes(atom).ok_or_else(|| format!("syntax: not x<hex>: {}", atom))
}
fn want_opt_name(s: &Sexp) -> R<Option<String>> {
    if s.atom() == Some("-") {
        Ok(None)
    } else {
        want_name(s).map(Some)
    }
}
fn want_bool(s: &Sexp) -> R<bool> {
    match s.atom() {
        Some("true") => Ok(true),
        Some("false") => Ok(false),
        _ => Err(format!("syntax: expected true/false, got {}", short(s))),
    }
}
fn exprs(items: &[Sexp]) -> R<Vec<Expression>> {
    items.iter().map(tree_to_expr).collect()
}

fn expr_kind(expr: &Expression) -> &'static str {
    match expr {
        Expression::Binary(_) => "binary",
        Expression::Call(_) => "call",
        Expression::False(_) => "false",
        Expression::Field(_) => "field",
        Expression::Function(_) => "function",
        Expression::Identifier(_) => "identifier",
        Expression::If(_) => "if",
        Expression::Index(_) => "index",
        Expression::Nil(_) => "nil",
        Expression::Number(_) => "number",
        Expression::Parenthese(_) => "parenthese",
        Expression::String(_) => "string",
        Expression::InterpolatedString(_) => "interpolated-string",
        Expression::Table(_) => "table",
        Expression::True(_) => "true",
        Expression::Unary(_) => "unary",
        Expression::VariableArguments(_) => "vararg",
        Expression::TypeCast(_) => "type-cast",
        Expression::TypeInstantiation(_) => "type-instantiation",
    }
}

/// An expression as a `Prefix`, without ever adding parentheses.
pub fn expr_into_prefix(expr: Expression) -> R<Prefix> {
    match expr {
        Expression::Call(call) => Ok(Prefix::Call(call)),
        Expression::Field(field) => Ok(Prefix::Field(field)),
        Expression::Identifier(identifier) => Ok(Prefix::Identifier(identifier)),
        Expression::Index(index) => Ok(Prefix::Index(index)),
        Expression::Parenthese(paren) => Ok(Prefix::Parenthese(paren)),
        Expression::TypeInstantiation(inst) => Ok(Prefix::TypeInstantiation(inst)),
        other => Err(format!("prefix: a {} expression is not a valid prefix", expr_kind(&other))),
    }
}

/// An expression as an assignable `Variable`.
pub fn expr_into_variable(expr: Expression) -> R<Variable> {
    match expr {
        Expression::Identifier(identifier) => Ok(Variable::Identifier(identifier)),
        Expression::Field(field) => Ok(Variable::Field(field)),
        Expression::Index(index) => Ok(Variable::Index(index)),
        other => Err(format!("variable: a {} expression is not assignable", expr_kind(&other))),
    }
}

fn prefix_of(s: &Sexp) -> R<Prefix> {
    expr_into_prefix(tree_to_expr(s)?)
}

pub fn tree_to_expr(s: &Sexp) -> R<Expression> {
    let items = match s {
        Sexp::Atom(atom) => {
            return match atom.as_str() {
                "nil" => Ok(Expression::Nil(None)),
                "true" => Ok(Expression::True(None)),
                "false" => Ok(Expression::False(None)),
                "vararg" => Ok(Expression::VariableArguments(None)),
                _ => Err(format!("syntax: unknown expression atom {}", atom)),
            }
        }
        Sexp::List(items) => items,
    };
    let head = s.head().ok_or_else(|| format!("syntax: expression without head: {}", short(s)))?;
    let bad = || format!("syntax: ill-formed ({} …): {}", head, short(s));
    match (head, &items[1..]) {
        ("num", [bits]) => {
            let atom = want_atom(bits, "number bits")?;
            let digits = atom
                .strip_prefix('f')
                .filter(|d| d.len() == 16 && d.bytes().all(|b| b.is_ascii_hexdigit()))
                .ok_or_else(bad)?;
            let bits = u64::from_str_radix(digits, 16).map_err(|_| bad())?;
            Ok(DecimalNumber::new(f64::from_bits(bits)).into())
        }
        ("str", [bytes]) => Ok(StringExpression::from_value(want_bytes(bytes)?).into()),
        ("var", [n]) => Ok(Expression::Identifier(Identifier::new(want_name(n)?))),
        ("paren", [e]) => Ok(ParentheseExpression::new(tree_to_expr(e)?).into()),
        ("un", [op, e]) => {
            let op = match op.atom() {
                Some("neg") => UnaryOperator::Minus,
                Some("not") => UnaryOperator::Not,
                Some("len") => UnaryOperator::Length,
                _ => return Err(bad()),
            };
            Ok(UnaryExpression::new(op, tree_to_expr(e)?).into())
        }
        ("bin", [op, left, right]) => {
            let op = op.atom().and_then(binop_of).ok_or_else(bad)?;
            Ok(BinaryExpression::new(op, tree_to_expr(left)?, tree_to_expr(right)?).into())
        }
        ("call", _) => Ok(tree_to_call(s)?.into()),
        ("field", [e, n]) => Ok(FieldExpression::new(prefix_of(e)?, Identifier::new(want_name(n)?)).into()),
        ("index", [e, k]) => Ok(IndexExpression::new(prefix_of(e)?, tree_to_expr(k)?).into()),
        ("fn", [body]) => {
            let parts = fnbody_of(body)?;
            let mut function = FunctionExpression::new(parts.block, parts.parameters, parts.is_variadic);
            if let Some(ty) = parts.variadic_type {
                function.set_variadic_type(ty);
            }
            if let Some(ty) = parts.return_type {
                function.set_return_type(ty);
            }
            if let Some(generics) = parts.generics {
                function.set_generic_parameters(generics);
            }
            Ok(function.with_attributes(parts.attributes).into())
        }
        ("table", entries) => Ok(table_of(entries)?.into()),
        ("ifx", [c, t, elifs, e]) => {
            let mut if_expr = IfExpression::new(tree_to_expr(c)?, tree_to_expr(t)?, tree_to_expr(e)?);
            for branch in want_list(elifs, "elseif branches")? {
                match want_list(branch, "elseif branch")? {
                    [c, t] => if_expr.push_branch(ElseIfExpressionBranch::new(tree_to_expr(c)?, tree_to_expr(t)?)),
                    _ => return Err(bad()),
                }
            }
            Ok(if_expr.into())
        }
        ("interp", segments) => {
            let mut out = Vec::with_capacity(segments.len());
            for segment in segments {
                match (segment.head(), want_list(segment, "interp segment")?) {
                    (Some("s"), [_, bytes]) => {
                        out.push(InterpolationSegment::String(StringSegment::from_value(want_bytes(bytes)?)))
                    }
                    (Some("v"), [_, e]) => out.push(InterpolationSegment::Value(ValueSegment::new(tree_to_expr(e)?))),
                    _ => return Err(bad()),
                }
            }
            Ok(InterpolatedStringExpression::new(out).into())
        }
        ("cast", [e, ty]) => Ok(TypeCastExpression::new(tree_to_expr(e)?, tree_to_type(ty)?).into()),
        ("inst", [e, types @ ..]) => {
            let types = types.iter().map(tree_to_type).collect::<R<Vec<_>>>()?;
            Ok(TypeInstantiationExpression::new(prefix_of(e)?, types).into())
        }
        _ => Err(bad()),
    }
}

fn table_of(entries: &[Sexp]) -> R<TableExpression> {
    let mut out = Vec::with_capacity(entries.len());
    for entry in entries {
        let bad = || format!("syntax: ill-formed table entry: {}", short(entry));
        out.push(match (entry.head(), want_list(entry, "table entry")?) {
            (Some("pos"), [_, v]) => TableEntry::Value(Box::new(tree_to_expr(v)?)),
            (Some("named"), [_, k, v]) => TableFieldEntry::new(Identifier::new(want_name(k)?), tree_to_expr(v)?).into(),
            (Some("keyed"), [_, k, v]) => TableIndexEntry::new(tree_to_expr(k)?, tree_to_expr(v)?).into(),
            _ => return Err(bad()),
        });
    }
    Ok(TableExpression::new(out))
}

pub fn tree_to_call(s: &Sexp) -> R<FunctionCall> {
    let bad = || format!("call: ill-formed call: {}", short(s));
    match want_list(s, "call")? {
        [head, f, method, kind, args @ ..] if head.atom() == Some("call") => {
            let prefix = prefix_of(f)?;
            let method = want_opt_name(method)?.map(Identifier::new);
            let arguments = match (kind.atom(), args) {
                (Some("t"), args) => Arguments::Tuple(TupleArguments::new(exprs(args)?)),
                (Some("s"), [arg]) => match (arg.head(), arg.list().unwrap_or(&[])) {
                    (Some("str"), [_, bytes]) => Arguments::String(StringExpression::from_value(want_bytes(bytes)?)),
                    _ => return Err(format!("call: kind s needs exactly one (str …) argument: {}", short(s))),
                },
                (Some("b"), [arg]) => match (arg.head(), arg.list().unwrap_or(&[])) {
                    (Some("table"), [_, entries @ ..]) => Arguments::Table(table_of(entries)?),
                    _ => return Err(format!("call: kind b needs exactly one (table …) argument: {}", short(s))),
                },
                (Some("s"), _) | (Some("b"), _) => {
                    return Err(format!("call: kind s/b needs exactly one argument: {}", short(s)))
                }
                _ => return Err(bad()),
            };
            Ok(FunctionCall::new(prefix, arguments, method))
        }
        _ => Err(bad()),
    }
}

struct FnParts {
    parameters: Vec<TypedIdentifier>,
    is_variadic: bool,
    variadic_type: Option<FunctionVariadicType>,
    return_type: Option<FunctionReturnType>,
    generics: Option<GenericParameters>,
    attributes: Attributes,
    attribute_count: usize,
    block: Block,
}

fn tname_of(s: &Sexp) -> R<TypedIdentifier> {
    match (s.head(), want_list(s, "typed name")?) {
        (Some("n"), [_, n, ty]) => {
            let typed = TypedIdentifier::new(want_name(n)?);
            Ok(if ty.atom() == Some("-") { typed } else { typed.with_type(tree_to_type(ty)?) })
        }
        _ => Err(format!("syntax: ill-formed typed name: {}", short(s))),
    }
}
fn tnames(s: &Sexp) -> R<Vec<TypedIdentifier>> {
    want_list(s, "typed names")?.iter().map(tname_of).collect()
}

fn fnbody_of(s: &Sexp) -> R<FnParts> {
    match (s.head(), want_list(s, "fnbody")?) {
        (Some("fnbody"), [_, params, variadic, variadic_type, return_type, generics, attributes, body]) => {
            let is_variadic = want_bool(variadic)?;
            let variadic_type = if variadic_type.atom() == Some("-") {
                None
            } else if !is_variadic {
                return Err("fnbody: variadic type on a function that is not variadic".to_owned());
            } else {
                Some(match generic_pack_of(variadic_type)? {
                    Some(pack) => FunctionVariadicType::GenericTypePack(pack),
                    None => FunctionVariadicType::Type(Box::new(tree_to_type(variadic_type)?)),
                })
            };
            let return_type = if return_type.atom() == Some("-") { None } else { Some(return_type_of(return_type)?) };
            let mut parsed_generics: Option<GenericParameters> = None;
            let mut seen_pack = false;
            for generic in want_list(generics, "generic names")? {
                let generic = want_name(generic)?;
                if let Some(pack_name) = generic.strip_suffix("...") {
                    seen_pack = true;
                    let pack = GenericTypePack::new(pack_name);
                    match parsed_generics.as_mut() {
                        None => parsed_generics = Some(GenericParameters::from_generic_type_pack(pack)),
                        Some(generics) => generics.push_generic_type_pack(pack),
                    }
                } else if seen_pack {
                    return Err("generics: type variable after a generic type pack".to_owned());
                } else {
                    match parsed_generics.as_mut() {
                        None => parsed_generics = Some(GenericParameters::from_type_variable(generic)),
                        Some(generics) => generics.push_type_variable(generic),
                    }
                }
            }
            let mut attrs = Attributes::new();
            let names = want_list(attributes, "attribute names")?;
            for attribute in names {
                attrs.append_attribute(NamedAttribute::new(want_name(attribute)?));
            }
            Ok(FnParts {
                parameters: tnames(params)?,
                is_variadic,
                variadic_type,
                return_type,
                generics: parsed_generics,
                attributes: attrs,
                attribute_count: names.len(),
                block: tree_to_block(body)?,
            })
        }
        _ => Err(format!("syntax: ill-formed fnbody: {}", short(s))),
    }
}

fn kind_of(s: &Sexp) -> R<AssignmentKind> {
    match s.atom() {
        Some("local") => Ok(AssignmentKind::Local),
        Some("const") => Ok(AssignmentKind::Const),
        _ => Err(format!("syntax: expected local/const, got {}", short(s))),
    }
}

pub fn tree_to_stmt(s: &Sexp) -> R<Statement> {
    let items = want_list(s, "statement")?;
    let head = s.head().ok_or_else(|| format!("syntax: statement without head: {}", short(s)))?;
    let bad = || format!("syntax: ill-formed ({} …): {}", head, short(s));
    match (head, &items[1..]) {
        ("assign", [targets, values]) => {
            let variables = exprs(want_list(targets, "assignment targets")?)?
                .into_iter()
                .map(expr_into_variable)
                .collect::<R<Vec<_>>>()?;
            Ok(AssignStatement::new(variables, exprs(want_list(values, "assignment values")?)?).into())
        }
        ("cassign", [op, target, value]) => {
            let op_name = op.atom().filter(|name| binop_of(name).is_some()).ok_or_else(bad)?;
            let op = compound_of(op_name)
                .ok_or_else(|| format!("cassign: {} is not a compound assignment operator", op_name))?;
            Ok(CompoundAssignStatement::new(op, expr_into_variable(tree_to_expr(target)?)?, tree_to_expr(value)?).into())
        }
        ("callstmt", [call]) => {
            if call.head() != Some("call") {
                return Err(format!("callstmt: the expression of a call statement must be a call: {}", short(call)));
            }
            Ok(Statement::Call(tree_to_call(call)?))
        }
        ("do", [block]) => Ok(DoStatement::new(tree_to_block(block)?).into()),
        ("function", [names, method, body]) => {
            let mut names = want_list(names, "function name")?.iter().map(want_name).collect::<R<Vec<_>>>()?.into_iter();
            let root = names.next().ok_or_else(|| "syntax: function statement without a name".to_owned())?;
            let fname = FunctionName::new(
                Identifier::new(root),
                names.map(Identifier::new).collect(),
                want_opt_name(method)?.map(Identifier::new),
            );
            let parts = fnbody_of(body)?;
            let mut function = FunctionStatement::new(fname, parts.block, parts.parameters, parts.is_variadic);
            if let Some(ty) = parts.variadic_type {
                function.set_variadic_type(ty);
            }
            if let Some(ty) = parts.return_type {
                function.set_return_type(ty);
            }
            if let Some(generics) = parts.generics {
                function.set_generic_parameters(generics);
            }
            Ok(function.with_attributes(parts.attributes).into())
        }
        ("gfor", [names, values, block]) => {
            Ok(GenericForStatement::new(tnames(names)?, exprs(want_list(values, "for values")?)?, tree_to_block(block)?).into())
        }
        ("nfor", [n, start, end, step, block]) => {
            let step = if step.atom() == Some("-") { None } else { Some(tree_to_expr(step)?) };
            Ok(NumericForStatement::new(tname_of(n)?, tree_to_expr(start)?, tree_to_expr(end)?, step, tree_to_block(block)?).into())
        }
        ("if", [branches, else_block]) => {
            let mut out = Vec::new();
            for branch in want_list(branches, "if branches")? {
                match want_list(branch, "if branch")? {
                    [c, b] => out.push(IfBranch::new(tree_to_expr(c)?, tree_to_block(b)?)),
                    _ => return Err(bad()),
                }
            }
            if out.is_empty() {
                return Err("syntax: if statement without branches".to_owned());
            }
            let else_block = if else_block.atom() == Some("-") { None } else { Some(tree_to_block(else_block)?) };
            Ok(IfStatement::new(out, else_block).into())
        }
        ("local", [kind, names, values]) => Ok(VariableAssignment::new(tnames(names)?, exprs(want_list(values, "local values")?)?)
            .with_assignment_kind(kind_of(kind)?)
            .into()),
        ("localfn", [kind, n, body]) => {
            let parts = fnbody_of(body)?;
            let mut function = FunctionAssignment::new(Identifier::new(want_name(n)?), parts.block, parts.parameters, parts.is_variadic);
            function.set_assignment_kind(kind_of(kind)?);
            if let Some(ty) = parts.variadic_type {
                function.set_variadic_type(ty);
            }
            if let Some(ty) = parts.return_type {
                function.set_return_type(ty);
            }
            if let Some(generics) = parts.generics {
                function.set_generic_parameters(generics);
            }
            Ok(function.with_attributes(parts.attributes).into())
        }
        ("repeat", [block, condition]) => Ok(RepeatStatement::new(tree_to_block(block)?, tree_to_expr(condition)?).into()),
        ("while", [condition, block]) => Ok(WhileStatement::new(tree_to_block(block)?, tree_to_expr(condition)?).into()),
        ("typedecl", [exported, n, ty]) => {
            let (generics, ty) = match ty_parts(ty)? {
                Some((tag, [generics, inner])) if tag == "generic-decl" => (Some(generics_with_defaults_of(generics)?), inner),
                Some((tag, _)) if tag == "generic-decl" => return Err(format!("type: ill-formed generic-decl: {}", short(ty))),
                _ => (None, ty),
            };
            let mut decl = TypeDeclarationStatement::new(Identifier::new(want_name(n)?), tree_to_type(ty)?);
            if let Some(generics) = generics {
                decl.set_generic_parameters(generics);
            }
            if want_bool(exported)? {
                decl.set_exported();
            }
            Ok(decl.into())
        }
        ("typefn", [exported, n, body]) => {
            let parts = fnbody_of(body)?;
            if parts.attribute_count != 0 {
                return Err("fnbody: a type function cannot carry attributes".to_owned());
            }
            let mut function = TypeFunctionStatement::new(Identifier::new(want_name(n)?), parts.block, parts.parameters, parts.is_variadic);
            if let Some(ty) = parts.variadic_type {
                function.set_variadic_type(ty);
            }
            if let Some(ty) = parts.return_type {
                function.set_return_type(ty);
            }
            if let Some(generics) = parts.generics {
                function.set_generic_parameters(generics);
            }
            if want_bool(exported)? {
                function.set_exported();
            }
            Ok(function.into())
        }
        _ => Err(bad()),
    }
}

pub fn tree_to_block(s: &Sexp) -> R<Block> {
    let bad = || format!("syntax: ill-formed block: {}", short(s));
    let (statements, last) = match (s.head(), want_list(s, "block")?) {
        (Some("block"), [_, statements]) => (statements, None),
        (Some("block"), [_, statements, last]) => (statements, Some(last)),
        _ => return Err(bad()),
    };
    let statements = want_list(statements, "statements")?.iter().map(tree_to_stmt).collect::<R<Vec<_>>>()?;
    let last = match last {
        None => None,
        Some(last) => Some(match last {
            Sexp::Atom(atom) if atom == "break" => LastStatement::new_break(),
            Sexp::Atom(atom) if atom == "continue" => LastStatement::new_continue(),
            Sexp::List(items) if last.head() == Some("return") => LastStatement::Return(ReturnStatement::new(exprs(&items[1..])?)),
            _ => return Err(bad()),
        }),
    };
    Ok(Block::new(statements, last))
}

// --- types -----------------------------------------------------------------------------------

/// `(ty TAG kids…)` → `Some((decoded TAG, kids))`; `(typeof …)` → `None`.
fn ty_parts(s: &Sexp) -> R<Option<(String, &[Sexp])>> {
    match (s.head(), want_list(s, "type")?) {
        (Some("ty"), [_, tag, kids @ ..]) => Ok(Some((want_name(tag)?, kids))),
        (Some("typeof"), [_, _]) => Ok(None),
        _ => Err(format!("type: ill-formed type: {}", short(s))),
    }
}

/// `Some(pack)` when `s` is `(ty generic-pack:T)` (without default)
fn generic_pack_of(s: &Sexp) -> R<Option<GenericTypePack>> {
    Ok(match ty_parts(s)? {
        Some((tag, [])) => tag.strip_prefix("generic-pack:").map(GenericTypePack::new),
        _ => None,
    })
}

fn variadic_pack_of(s: &Sexp) -> R<Option<VariadicTypePack>> {
    Ok(match ty_parts(s)? {
        Some((tag, [inner])) if tag == "variadic-pack" => Some(VariadicTypePack::new(tree_to_type(inner)?)),
        _ => None,
    })
}

fn variadic_argument_of(s: &Sexp) -> R<Option<VariadicArgumentType>> {
    if let Some(pack) = generic_pack_of(s)? {
        return Ok(Some(VariadicArgumentType::GenericTypePack(pack)));
    }
    Ok(variadic_pack_of(s)?.map(VariadicArgumentType::VariadicTypePack))
}

fn type_pack_of(s: &Sexp) -> R<Option<TypePack>> {
    match ty_parts(s)? {
        Some((tag, kids)) if tag == "pack" => {
            let mut pack = TypePack::default();
            for (i, kid) in kids.iter().enumerate() {
                if i + 1 == kids.len() {
                    if let Some(variadic) = variadic_argument_of(kid)? {
                        pack.set_variadic_type(variadic);
                        break;
                    }
                }
                pack.push_type(tree_to_type(kid)?);
            }
            Ok(Some(pack))
        }
        _ => Ok(None),
    }
}

fn return_type_of(s: &Sexp) -> R<FunctionReturnType> {
    if let Some(pack) = type_pack_of(s)? {
        return Ok(FunctionReturnType::TypePack(Box::new(pack)));
    }
    if let Some(pack) = generic_pack_of(s)? {
        return Ok(FunctionReturnType::GenericTypePack(Box::new(pack)));
    }
    if let Some(pack) = variadic_pack_of(s)? {
        return Ok(FunctionReturnType::VariadicTypePack(pack));
    }
    Ok(FunctionReturnType::Type(Box::new(tree_to_type(s)?)))
}

fn type_parameter_of(s: &Sexp) -> R<TypeParameter> {
    if let Some(pack) = type_pack_of(s)? {
        return Ok(TypeParameter::TypePack(pack));
    }
    if let Some(pack) = generic_pack_of(s)? {
        return Ok(TypeParameter::GenericTypePack(pack));
    }
    if let Some(pack) = variadic_pack_of(s)? {
        return Ok(TypeParameter::VariadicTypePack(pack));
    }
    Ok(TypeParameter::Type(tree_to_type(s)?))
}

fn type_name_of(type_name: &str, parameters: &[Sexp], empty_list: bool) -> R<TypeName> {
    let mut out = TypeName::new(type_name);
    if empty_list {
        if !parameters.is_empty() {
            return Err(format!("type: name<>:{} cannot have type parameters", type_name));
        }
        return Ok(out.with_type_parameters(std::iter::empty::<TypeParameter>().collect()));
    }
    for parameter in parameters {
        out.push_type_parameter(type_parameter_of(parameter)?);
    }
    Ok(out)
}

fn modifier_of(tag_head: &str, base: &str) -> Option<Option<TablePropertyModifier>> {
    match tag_head.strip_prefix(base)? {
        "" => Some(None),
        "-read" => Some(Some(TablePropertyModifier::Read)),
        "-write" => Some(Some(TablePropertyModifier::Write)),
        _ => None,
    }
}

fn string_type_of(hex: &str) -> R<StringType> {
    let bytes = unhex_bytes(hex).ok_or_else(|| format!("type: bad string bytes {}", hex))?;
    let value = String::from_utf8(bytes).map_err(|_| "type: non-UTF-8 string type cannot be rebuilt".to_owned())?;
    Ok(StringType::from_value(value))
}

fn generics_of(s: &Sexp) -> R<GenericParameters> {
    let kids = match ty_parts(s)? {
        Some((tag, kids)) if tag == "generics" => kids,
        _ => return Err(format!("type: expected generics, got {}", short(s))),
    };
    let mut out: Option<GenericParameters> = None;
    let mut seen_pack = false;
    for kid in kids {
        match ty_parts(kid)? {
            Some((tag, [])) if tag.starts_with("generic:") => {
                if seen_pack {
                    return Err("generics: type variable after a generic type pack".to_owned());
                }
                let variable = &tag["generic:".len()..];
                match out.as_mut() {
                    None => out = Some(GenericParameters::from_type_variable(variable)),
                    Some(generics) => generics.push_type_variable(variable),
                }
            }
            Some((tag, [])) if tag.starts_with("generic-pack:") => {
                seen_pack = true;
                let pack = GenericTypePack::new(&tag["generic-pack:".len()..]);
                match out.as_mut() {
                    None => out = Some(GenericParameters::from_generic_type_pack(pack)),
                    Some(generics) => generics.push_generic_type_pack(pack),
                }
            }
            _ => return Err(format!("type: ill-formed generic parameter: {}", short(kid))),
        }
    }
    out.ok_or_else(|| "type: empty generics cannot be rebuilt".to_owned())
}

fn generics_with_defaults_of(s: &Sexp) -> R<GenericParametersWithDefaults> {
    let kids = match ty_parts(s)? {
        Some((tag, kids)) if tag == "generics" => kids,
        _ => return Err(format!("type: expected generics, got {}", short(s))),
    };
    let order_error = || "type: generic parameter order not accepted by GenericParametersWithDefaults".to_owned();
    let mut out: Option<GenericParametersWithDefaults> = None;
    // darklua stores: type variables, then (variables with defaults | packs), then packs with defaults
    let mut stage = 0;
    for kid in kids {
        let (tag, defaults) = ty_parts(kid)?.ok_or_else(|| format!("type: ill-formed generic parameter: {}", short(kid)))?;
        if let Some(variable) = tag.strip_prefix("generic:") {
            match defaults {
                [] => {
                    if stage > 0 {
                        return Err(order_error());
                    }
                    match out.as_mut() {
                        None => out = Some(GenericParametersWithDefaults::from_type_variable(variable)),
                        Some(generics) => generics.push_type_variable(variable),
                    }
                }
                [default] => {
                    if stage > 1 {
                        return Err(order_error());
                    }
                    stage = 1;
                    let with_default = TypeVariableWithDefault::new(variable, tree_to_type(default)?);
                    match out.as_mut() {
                        None => out = Some(GenericParametersWithDefaults::from_type_variable_with_default(with_default)),
                        Some(generics) => {
                            if !generics.push_type_variable_with_default(with_default) {
                                return Err(order_error());
                            }
                        }
                    }
                }
                _ => return Err(format!("type: ill-formed generic parameter: {}", short(kid))),
            }
        } else if let Some(pack_name) = tag.strip_prefix("generic-pack:") {
            let pack = GenericTypePack::new(pack_name);
            match defaults {
                [] => {
                    if stage > 1 {
                        return Err(order_error());
                    }
                    stage = 1;
                    match out.as_mut() {
                        None => out = Some(GenericParametersWithDefaults::from_generic_type_pack(pack)),
                        Some(generics) => {
                            if !generics.push_generic_type_pack(pack) {
                                return Err(order_error());
                            }
                        }
                    }
                }
                [default] => {
                    stage = 2;
                    let default = if let Some(pack) = type_pack_of(default)? {
                        GenericTypePackDefault::TypePack(Box::new(pack))
                    } else if let Some(pack) = generic_pack_of(default)? {
                        GenericTypePackDefault::GenericTypePack(pack)
                    } else if let Some(pack) = variadic_pack_of(default)? {
                        GenericTypePackDefault::VariadicTypePack(pack)
                    } else {
                        return Err(format!("type: ill-formed generic pack default: {}", short(default)));
                    };
                    let with_default = GenericTypePackWithDefault::new(pack, default);
                    match out.as_mut() {
                        None => out = Some(GenericParametersWithDefaults::from_generic_type_pack_with_default(with_default)),
                        Some(generics) => generics.push_generic_type_pack_with_default(with_default),
                    }
                }
                _ => return Err(format!("type: ill-formed generic parameter: {}", short(kid))),
            }
        } else {
            return Err(format!("type: ill-formed generic parameter: {}", short(kid)));
        }
    }
    out.ok_or_else(|| "type: empty generics cannot be rebuilt".to_owned())
}

pub fn tree_to_type(s: &Sexp) -> R<Type> {
    let (tag, kids) = match ty_parts(s)? {
        None => {
            let items = s.list().unwrap();
            return Ok(ExpressionType::new(tree_to_expr(&items[1])?).into());
        }
        Some(parts) => parts,
    };
    let bad = || format!("type: ill-formed or unsupported type node {}: {}", tag, short(s));
    let (tag_head, tag_arg) = match tag.split_once(':') {
        Some((head, arg)) => (head, Some(arg)),
        None => (tag.as_str(), None),
    };
    match (tag_head, tag_arg, kids) {
        ("name" | "name<>", Some(type_name), parameters) => {
            Ok(type_name_of(type_name, parameters, tag_head == "name<>")?.into())
        }
        ("field" | "field<>", Some(path), parameters) => {
            let (namespace, type_name) = path.split_once('.').ok_or_else(bad)?;
            Ok(TypeField::new(namespace, type_name_of(type_name, parameters, tag_head == "field<>")?).into())
        }
        ("true", None, []) => Ok(Type::True(None)),
        ("false", None, []) => Ok(Type::False(None)),
        ("nil", None, []) => Ok(Type::Nil(None)),
        ("string", Some(hex), []) => Ok(string_type_of(hex)?.into()),
        ("array", None, [element]) => Ok(ArrayType::new(tree_to_type(element)?).into()),
        ("paren", None, [inner]) => Ok(ParentheseType::new(tree_to_type(inner)?).into()),
        ("optional", None, [inner]) => Ok(OptionalType::new(tree_to_type(inner)?).into()),
        ("union", None, [_, ..]) => Ok(UnionType::from(kids.iter().map(tree_to_type).collect::<R<Vec<_>>>()?).into()),
        ("intersection", None, [_, ..]) => {
            Ok(IntersectionType::from(kids.iter().map(tree_to_type).collect::<R<Vec<_>>>()?).into())
        }
        ("table", None, entries) => {
            let mut table = TableType::default();
            let mut has_indexer = false;
            for entry in entries {
                let (entry_tag, entry_kids) =
                    ty_parts(entry)?.ok_or_else(|| format!("type: ill-formed table type entry: {}", short(entry)))?;
                let (entry_head, entry_arg) = match entry_tag.split_once(':') {
                    Some((head, arg)) => (head, Some(arg)),
                    None => (entry_tag.as_str(), None),
                };
                let entry_bad = || format!("type: ill-formed table type entry: {}", short(entry));
                if let (Some(modifier), Some(property), [ty]) = (modifier_of(entry_head, "prop"), entry_arg, entry_kids) {
                    let mut property = TablePropertyType::new(property, tree_to_type(ty)?);
                    if let Some(modifier) = modifier {
                        property.set_modifier(modifier);
                    }
                    table.push_property(property);
                } else if let (Some(modifier), Some(hex), [ty]) = (modifier_of(entry_head, "litprop"), entry_arg, entry_kids) {
                    let mut property = TableLiteralPropertyType::new(string_type_of(hex)?, tree_to_type(ty)?);
                    if let Some(modifier) = modifier {
                        property.set_modifier(modifier);
                    }
                    table.push_property(property);
                } else if let (Some(modifier), None, [key, value]) = (modifier_of(entry_head, "indexer"), entry_arg, entry_kids) {
                    let key = tree_to_type(key)?;
                    if matches!(key, Type::String(_)) {
                        return Err("type: an indexer keyed by a string type is rewritten by darklua".to_owned());
                    }
                    if has_indexer {
                        return Err("type: a table type with several indexers cannot be rebuilt".to_owned());
                    }
                    has_indexer = true;
                    let mut indexer = TableIndexerType::new(key, tree_to_type(value)?);
                    if let Some(modifier) = modifier {
                        indexer.set_modifier(modifier);
                    }
                    table.push_property(indexer);
                } else {
                    return Err(entry_bad());
                }
            }
            Ok(table.into())
        }
        ("function", None, [front @ .., ret]) => {
            let return_type = match ty_parts(ret)? {
                Some((tag, [inner])) if tag == "return" => return_type_of(inner)?,
                _ => return Err(bad()),
            };
            let mut function = FunctionType::new(return_type);
            let mut front = front;
            if let Some(first) = front.first() {
                if matches!(ty_parts(first)?, Some((tag, _)) if tag == "generics") {
                    function.set_generic_parameters(generics_of(first)?);
                    front = &front[1..];
                }
            }
            for (i, kid) in front.iter().enumerate() {
                if i + 1 == front.len() {
                    if let Some(variadic) = variadic_argument_of(kid)? {
                        function.set_variadic_type(variadic);
                        break;
                    }
                }
                match ty_parts(kid)? {
                    Some((tag, [ty])) if tag == "arg" => function.push_argument(FunctionArgumentType::new(tree_to_type(ty)?)),
                    Some((tag, [ty])) if tag.starts_with("arg:") => {
                        function.push_argument(FunctionArgumentType::new(tree_to_type(ty)?).with_name(&tag["arg:".len()..]))
                    }
                    _ => return Err(bad()),
                }
            }
            Ok(function.into())
        }
        _ => Err(bad()),
    }
}
