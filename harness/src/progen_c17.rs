//! Targeted program generator for property C17 (source text, error-free by construction in the
//! MODIFIED environment: `assert` returns its arguments, `debug.profilebegin/profileend` do nothing,
//! the injected global holds the configured value).
//!
//! Shapes: calls of the targeted function / reads of the targeted global in statement, single-value
//! and multi-value expression position, 0..4 arguments (pure per darklua's evaluator, effectful
//! through the externs `emit emitv get1 get2 flag1 flag2 sink`, multi-value last arguments `two()` /
//! `...`), nested targeted calls, under local shadowing of `assert` / `debug` / `select` / `_G` / the
//! injected name at every scope kind (do, while, repeat incl. its condition, numeric for, generic
//! for, if/else, function parameter, local function, a `local` after uses in the same block), as a
//! field / method of another table. Falsy first arguments are frequent on purpose: in the modified
//! environment they do not raise.
use crate::rng::Rng;
use std::collections::BTreeSet;

#[derive(Clone, Debug, PartialEq)]
pub enum Target {
    Assert,
    Profiling,
    /// injected identifier; `prefix_ok`: the configured value can be indexed (table or string);
    /// `is_string`: method calls on it are fine
    Inject { name: String, prefix_ok: bool, is_string: bool },
}

#[derive(Clone, Copy, Debug, PartialEq)]
enum Shadow {
    /// a function that emits its arguments and returns them
    Callable,
    /// a number: can only be read
    Number,
    /// a table with the fields the uses need
    Table,
}

pub struct Gen<'a> {
    rng: &'a mut Rng,
    target: Target,
    out: String,
    indent: usize,
    /// innermost last: (name, what it holds)
    scopes: Vec<Vec<(String, Shadow)>>,
    in_vararg_fn: bool,
    budget: i64,
    counter: usize,
    pub used: BTreeSet<&'static str>,
    /// probability (in 1/100) of deliberately entering a listed defect region
    defect_rate: u32,
}

const PRELUDE: &str = "\
local n = 3
local zn, zf, zt = nil, false, 5
local t = { x = 1, y = false, s = 'str',
  assert = function(...) emitv('t.assert', ...) return ... end,
  sel = function(k, ...) emitv('t.sel', k) return ... end,
  DEBUG = 7, FLAG = 9,
  debug = { profilebegin = function(...) emitv('t.begin', ...) end, profileend = function(...) emitv('t.end', ...) end },
  _G = { DEBUG = 8, FLAG = 10 } }
local obj = { assert = function(self, ...) emitv('obj.assert', ...) return ... end,
  profilebegin = function(self, ...) emitv('obj.begin', ...) end }
local function two() emit(20) return 21, 22 end
local function none() emit(30) end
local function falsy() emit(40) return false, 'msg' end
";

/// parenthesise anything that is not a plain leaf (keeps operator precedence out of the picture; the
/// parentheses only truncate to one value, which every operand position does anyway)
fn paren_if_needed(e: &str) -> String {
    let simple = e.chars().all(|c| c.is_ascii_alphanumeric() || c == '_' || c == '.' || c == '\'');
    if simple || e == "..." {
        e.to_owned()
    } else {
        format!("({})", e)
    }
}

pub fn generate(rng: &mut Rng, target: Target, budget: i64, defect_rate: u32) -> (String, BTreeSet<&'static str>) {
    let mut g = Gen {
        rng,
        target,
        out: String::new(),
        indent: 0,
        scopes: vec![Vec::new()],
        in_vararg_fn: true, // the main chunk is variadic
        budget,
        counter: 0,
        used: BTreeSet::new(),
        defect_rate,
    };
    g.out.push_str(PRELUDE);
    if let Target::Inject { name, .. } = &g.target {
        // the table fields follow the injected name
        g.out = g.out.replace("DEBUG", name);
    }
    let n = 4 + g.rng.below(8);
    for _ in 0..n {
        g.item(0);
    }
    g.final_return();
    (g.out, g.used)
}

impl<'a> Gen<'a> {
    fn line(&mut self, text: &str) {
        for _ in 0..self.indent {
            self.out.push_str("  ");
        }
        self.out.push_str(text);
        self.out.push('\n');
    }

    fn fresh(&mut self, base: &str) -> String {
        self.counter += 1;
        format!("{}{}", base, self.counter)
    }

    fn shadow_of(&self, name: &str) -> Option<Shadow> {
        for scope in self.scopes.iter().rev() {
            for (n, s) in scope.iter().rev() {
                if n == name {
                    return Some(*s);
                }
            }
        }
        None
    }

    fn declare(&mut self, name: &str, s: Shadow) {
        self.scopes.last_mut().unwrap().push((name.to_owned(), s));
    }

    fn defect(&mut self) -> bool {
        let r = self.defect_rate;
        r > 0 && self.rng.chance(r, 100)
    }

    fn inject_name(&self) -> String {
        match &self.target {
            Target::Inject { name, .. } => name.clone(),
            _ => "DEBUG".to_owned(),
        }
    }

    // ---------------------------------------------------------------- argument expressions

    /// an expression darklua's evaluator classifies as free of side effects
    fn pure_arg(&mut self) -> String {
        self.used.insert("arg:pure");
        let choices: [&str; 24] = [
            "1", "0", "-2", "0.5", "'s'", "''", "true", "false", "nil", "function() end", "{}", "{1, 2}", "(1)",
            "1 + 2", "'a' .. 'b'", "not true", "true and 1", "nil or 2", "1 < 2", "#'abc'", "n", "t", "two", "false and n",
        ];
        let c = *self.rng.pick(&choices);
        if c == "n" && self.rng.chance(1, 4) && self.in_vararg_fn {
            return "...".to_owned();
        }
        c.to_owned()
    }

    /// an expression darklua's evaluator classifies as having side effects (really effectful or not)
    fn effect_arg(&mut self, depth: u32) -> String {
        self.used.insert("arg:kept");
        let k = self.rng.below(22);
        match k {
            0 => format!("emit({})", self.rng.below(9)),
            1 => "get1()".to_owned(),
            2 => "flag1()".to_owned(),
            3 => "flag2()".to_owned(),
            4 => "two()".to_owned(),
            5 => "none()".to_owned(),
            6 => "falsy()".to_owned(),
            7 => "sink(get2())".to_owned(),
            8 => "t.x".to_owned(),
            9 => "t.y".to_owned(),
            10 => "t['s']".to_owned(),
            11 => "n + 1".to_owned(),
            12 => "n == 1".to_owned(),
            13 => "-n".to_owned(),
            14 => "#t".to_owned(),
            15 => "(get1())".to_owned(),
            16 => "{ get1() }".to_owned(),
            17 => "n and get1()".to_owned(),
            18 => "flag1() or 2".to_owned(),
            19 => "{ [get2()] = emit(5) }".to_owned(),
            _ => {
                if depth < 2 && self.callee_callable() && !matches!(self.target, Target::Inject { .. }) {
                    self.used.insert("nested-target-call");
                    let inner = self.target_call_expr(depth + 1, true);
                    // a nested profiling call as a last argument would be in multi-value position
                    if self.target == Target::Profiling || self.rng.chance(1, 2) { format!("({})", inner) } else { inner }
                } else {
                    "get2()".to_owned()
                }
            }
        }
    }

    /// a value of statically UNKNOWN truthiness without side effects per the evaluator: falsy (`zn`, `zf`,
    /// the undefined global `zu`), truthy (`zt`, `n`, `t`) — so that both arms of `and` / `or` really run
    fn unknown_leaf(&mut self) -> String {
        let choices = ["zn", "zf", "zu", "zt", "n", "t", "zn", "zf"];
        let c = *self.rng.pick(&choices);
        if c == "t" && self.in_vararg_fn && self.rng.chance(1, 3) {
            return "...".to_owned();
        }
        c.to_owned()
    }

    /// a leaf the evaluator knows (constant) or one with a side effect
    fn any_leaf(&mut self, depth: u32) -> String {
        match self.rng.below(16) {
            0 => "nil".to_owned(),
            1 => "false".to_owned(),
            2 => "true".to_owned(),
            3 => "1".to_owned(),
            4 => "'s'".to_owned(),
            5 => "get1()".to_owned(),
            6 => "flag1()".to_owned(),
            7 => format!("emit({})", self.rng.below(9)),
            8 => "t.x".to_owned(),
            9 => "t.y".to_owned(),
            10 => "two()".to_owned(),
            11 => "none()".to_owned(),
            12 => "falsy()".to_owned(),
            13 => "sink(get2())".to_owned(),
            14 => "function() end".to_owned(),
            _ => {
                if depth < 2 && self.callee_callable() && !matches!(self.target, Target::Inject { .. }) {
                    self.used.insert("nested-target-call");
                    format!("({})", self.target_call_expr(depth + 1, true))
                } else {
                    "t['s']".to_owned()
                }
            }
        }
    }

    /// arguments drawn compositionally from the expression grammar the evaluator's `has_side_effects`
    /// distinguishes: `and` / `or` / `not` / comparison / parentheses / table constructors over leaves of
    /// known value, of unknown truthiness (falsy and truthy at run time) and with side effects. Every
    /// operator used is total, so the programs stay error-free.
    fn comp_arg(&mut self, depth: u32, size: u32) -> String {
        self.used.insert("arg:compositional");
        if size == 0 {
            return if self.rng.chance(1, 2) { self.unknown_leaf() } else { self.any_leaf(depth) };
        }
        match self.rng.below(12) {
            0..=2 => {
                self.used.insert("arg:or");
                let l = if self.rng.chance(2, 3) { self.unknown_leaf() } else { self.comp_arg(depth, size - 1) };
                let r = self.comp_arg(depth, size - 1);
                format!("{} or {}", paren_if_needed(&l), paren_if_needed(&r))
            }
            3..=5 => {
                self.used.insert("arg:and");
                let l = if self.rng.chance(2, 3) { self.unknown_leaf() } else { self.comp_arg(depth, size - 1) };
                let r = self.comp_arg(depth, size - 1);
                format!("{} and {}", paren_if_needed(&l), paren_if_needed(&r))
            }
            6 => format!("not {}", paren_if_needed(&self.comp_arg(depth, size - 1))),
            7 => format!("({})", self.comp_arg(depth, size - 1)),
            8 => {
                self.used.insert("arg:table-constructor");
                match self.rng.below(3) {
                    0 => format!("{{ {} }}", self.comp_arg(depth, size - 1)),
                    1 => format!("{{ k = {} }}", self.comp_arg(depth, size - 1)),
                    _ => format!("{{ {}, {} }}", self.unknown_leaf(), self.comp_arg(depth, size - 1)),
                }
            }
            9 => {
                self.used.insert("arg:comparison");
                let op = *self.rng.pick(&["==", "~="]);
                format!("{} {} {}", paren_if_needed(&self.unknown_leaf()), op, paren_if_needed(&self.comp_arg(depth, size - 1)))
            }
            _ => {
                if self.rng.chance(1, 2) { self.unknown_leaf() } else { self.any_leaf(depth) }
            }
        }
    }

    fn multi_last(&mut self) -> Option<String> {
        if self.rng.chance(1, 4) {
            self.used.insert("arg:multi-value-last");
            Some(if self.in_vararg_fn && self.rng.chance(1, 2) { "...".to_owned() } else { "two()".to_owned() })
        } else {
            None
        }
    }

    /// `min..=4` arguments
    fn args(&mut self, depth: u32, min: usize) -> Vec<String> {
        let count = match self.rng.below(10) {
            0 => 0,
            1..=3 => 1,
            4..=6 => 2,
            7..=8 => 3,
            _ => 4,
        }
        .max(min);
        let mut v = Vec::new();
        for _ in 0..count {
            let a = match self.rng.below(5) {
                0 | 1 => self.comp_arg(depth, 3),
                2 => self.pure_arg(),
                _ => self.effect_arg(depth),
            };
            v.push(a);
        }
        if !v.is_empty() {
            if let Some(m) = self.multi_last() {
                *v.last_mut().unwrap() = m;
            }
        }
        v
    }

    // ---------------------------------------------------------------- targeted calls

    fn callee(&mut self) -> String {
        match self.target {
            Target::Profiling => {
                if self.rng.chance(1, 2) { "debug.profilebegin".to_owned() } else { "debug.profileend".to_owned() }
            }
            _ => "assert".to_owned(),
        }
    }

    /// is the targeted callee callable right now (global = modified environment, or a callable / table shadow)?
    fn callee_callable(&self) -> bool {
        let root = if self.target == Target::Profiling { "debug" } else { "assert" };
        !matches!(self.shadow_of(root), Some(Shadow::Number))
    }

    fn callee_is_global(&self) -> bool {
        let root = if self.target == Target::Profiling { "debug" } else { "assert" };
        self.shadow_of(root).is_none()
    }

    /// a targeted call as an expression; `single_ok`: the context keeps only the first value
    fn target_call_expr(&mut self, depth: u32, single_ok: bool) -> String {
        let callee = self.callee();
        let global = self.callee_is_global();
        // F18: zero-argument `assert()` in expression position
        let avoid_zero = self.target == Target::Assert && global && !self.defect();
        let min = if avoid_zero { 1 } else { 0 };
        let args = self.args(depth, min);
        let _ = single_ok;
        if args.len() == 1 && self.rng.chance(1, 12) {
            match args[0].as_str() {
                "'s'" => {
                    self.used.insert("call:string-argument");
                    return format!("{}'s'", callee);
                }
                "{}" | "{1, 2}" | "{ get1() }" => {
                    self.used.insert("call:table-argument");
                    return format!("{}{}", callee, args[0]);
                }
                _ => {}
            }
        }
        format!("{}({})", callee, args.join(", "))
    }

    /// a targeted call in statement position
    fn target_call_stmt(&mut self) {
        let callee = self.callee();
        let global = self.callee_is_global();
        let mut args = self.args(0, 0);
        let _ = global;
        self.used.insert("position:statement");
        if args.len() == 1 && args[0] == "'s'" && self.rng.chance(1, 6) {
            self.line(&format!("{}'s'", callee));
            return;
        }
        if args.len() == 1 && args[0].starts_with('{') && self.rng.chance(1, 4) {
            self.used.insert("call:table-argument");
            self.line(&format!("{}{}", callee, args[0]));
            return;
        }
        self.line(&format!("{}({})", callee, args.join(", ")));
    }

    fn use_call(&mut self) {
        if !self.callee_callable() {
            let root = if self.target == Target::Profiling { "debug" } else { "assert" };
            self.used.insert("shadow:read-only");
            self.line(&format!("emit({})", root));
            return;
        }
        let global = self.callee_is_global();
        self.used.insert(if global { "callee:global" } else { "callee:shadowed" });
        match self.rng.below(9) {
            0..=2 => self.target_call_stmt(),
            3 => {
                self.used.insert("position:single-value");
                let v = self.fresh("v");
                let c = self.target_call_expr(0, true);
                self.line(&format!("local {} = {}", v, c));
                self.line(&format!("emit({})", v));
            }
            4 => {
                // multi-value position: for profiling this is a listed defect region when global
                if self.target == Target::Profiling && global && !self.defect() {
                    self.used.insert("position:single-value");
                    let c = self.target_call_expr(0, true);
                    self.line(&format!("emitv(({}), 1)", c));
                } else {
                    self.used.insert("position:multi-value");
                    let c = self.target_call_expr(0, false);
                    self.line(&format!("emitv({})", c));
                }
            }
            5 => {
                self.used.insert("position:local-list");
                let (a, b, c) = (self.fresh("a"), self.fresh("b"), self.fresh("c"));
                let call = self.target_call_expr(0, true);
                self.line(&format!("local {}, {}, {} = {}", a, b, c, call));
                self.line(&format!("emitv({}, {}, {})", a, b, c));
            }
            6 => {
                self.used.insert("position:operand");
                let c = self.target_call_expr(0, true);
                let form = self.rng.below(4);
                match form {
                    0 => self.line(&format!("emit({} == nil)", c)),
                    1 => self.line(&format!("emit(not {})", c)),
                    2 => self.line(&format!("if {} then emit(1) else emit(2) end", c)),
                    _ => self.line(&format!("emitv({}, 5)", c)),
                }
            }
            7 => {
                self.used.insert("position:table-constructor");
                let c = self.target_call_expr(0, true);
                let v = self.fresh("tb");
                self.line(&format!("local {} = {{ {}, 'end' }}", v, c));
                self.line(&format!("emit({})", v));
            }
            _ => {
                // under a shadowed `select`, the n >= 2 expression form needs the reserved alias
                self.used.insert("position:select-form");
                if self.target == Target::Assert {
                    let a = self.pure_arg();
                    let b = self.effect_arg(1);
                    self.line(&format!("emitv(assert({}, {}))", a, b));
                } else {
                    self.target_call_stmt();
                }
            }
        }
    }

    fn use_inject(&mut self) {
        let (name, prefix_ok, is_string) = match &self.target {
            Target::Inject { name, prefix_ok, is_string } => (name.clone(), *prefix_ok, *is_string),
            _ => unreachable!(),
        };
        let shadow = self.shadow_of(&name);
        let g_shadow = self.shadow_of("_G");
        self.used.insert(if shadow.is_none() { "name:global" } else { "name:shadowed" });
        let mut choice = self.rng.below(12);
        if g_shadow == Some(Shadow::Number) && matches!(choice, 5 | 6 | 11) {
            // `_G` holds a number here: it cannot be indexed
            choice = 0;
        }
        match choice {
            0 | 1 => {
                self.used.insert("read:expression");
                self.line(&format!("emit({})", name));
            }
            2 => {
                self.used.insert("read:local-init");
                let v = self.fresh("v");
                self.line(&format!("local {} = {}", v, name));
                self.line(&format!("emitv({}, 1)", v));
            }
            3 => {
                self.used.insert("read:condition");
                self.line(&format!("if {} then emit('yes') else emit('no') end", name));
            }
            4 => {
                self.used.insert("read:operand");
                self.line(&format!("emit({} == nil, {} ~= 1)", name, name));
            }
            5 => {
                self.used.insert(if g_shadow.is_none() { "read:_G.field" } else { "read:shadowed-_G.field" });
                self.line(&format!("emit(_G.{})", name));
            }
            6 => {
                self.used.insert(if g_shadow.is_none() { "read:_G[string]" } else { "read:shadowed-_G[string]" });
                self.line(&format!("emit(_G['{}'], _G[\"{}\"])", name, name));
            }
            7 => {
                self.used.insert("read:field-of-other-table");
                self.line(&format!("emit(t.{}, t._G.{}, t['{}'])", name, name, name));
            }
            8 => {
                self.used.insert("write:field-of-other-table");
                self.line(&format!("t.{} = t.{} + 1", name, name));
                self.line(&format!("local k{} = {{ {} = 2 }}", self.counter, name));
            }
            9 | 10 => {
                // prefix position, also under a shadowing local (F19, fixed)
                let indexable = match shadow {
                    None => prefix_ok,
                    Some(Shadow::Table) => true,
                    Some(_) => false,
                };
                if indexable {
                    self.used.insert(if shadow.is_none() { "read:prefix-position" } else { "read:prefix-position-shadowed" });
                    if is_string && shadow.is_none() && self.rng.chance(1, 2) {
                        self.line(&format!("emit({}:len())", name));
                    } else {
                        self.line(&format!("emit({}.x, {}[1])", name, name));
                    }
                } else {
                    self.used.insert("read:call-argument-list");
                    self.line(&format!("emitv(1, {}, two())", name));
                }
            }
            _ => {
                self.used.insert("read:return-of-closure");
                let f = self.fresh("f");
                self.line(&format!("local function {}() return {}, _G.{} end", f, name, name));
                self.line(&format!("emitv({}())", f));
            }
        }
    }

    fn use_target(&mut self) {
        match self.target {
            Target::Inject { .. } => self.use_inject(),
            _ => self.use_call(),
        }
        self.budget -= 1;
    }

    fn field_of_other(&mut self) {
        self.used.insert("field-or-method-of-another-table");
        match self.target {
            Target::Assert => {
                let args = self.args(1, 0);
                match self.rng.below(3) {
                    0 => self.line(&format!("t.assert({})", args.join(", "))),
                    1 => self.line(&format!("obj:assert({})", args.join(", "))),
                    _ => self.line(&format!("emitv(t.assert({}))", args.join(", "))),
                }
            }
            Target::Profiling => {
                let args = self.args(1, 0);
                match self.rng.below(3) {
                    0 => self.line(&format!("t.debug.profilebegin({})", args.join(", "))),
                    1 => self.line(&format!("obj:profilebegin({})", args.join(", "))),
                    _ => self.line(&format!("t.debug.profileend({})", args.join(", "))),
                }
            }
            Target::Inject { .. } => self.use_inject(),
        }
    }

    // ---------------------------------------------------------------- shadowing scopes

    fn shadow_candidates(&self) -> Vec<(String, Shadow, String)> {
        // (name, what it holds, initialiser)
        match &self.target {
            Target::Assert => vec![
                ("assert".to_owned(), Shadow::Callable, "t.assert".to_owned()),
                ("select".to_owned(), Shadow::Callable, "t.sel".to_owned()),
            ],
            Target::Profiling => vec![("debug".to_owned(), Shadow::Table, "t.debug".to_owned())],
            Target::Inject { name, .. } => vec![
                (name.clone(), Shadow::Number, "5".to_owned()),
                (name.clone(), Shadow::Table, "{ x = 1, 'one' }".to_owned()),
                ("_G".to_owned(), Shadow::Table, "t._G".to_owned()),
            ],
        }
    }

    fn body(&mut self, depth: u32) {
        let n = 1 + self.rng.below(3);
        for _ in 0..n {
            self.item(depth + 1);
        }
    }

    fn open(&mut self) {
        self.scopes.push(Vec::new());
        self.indent += 1;
    }

    fn close(&mut self) {
        self.scopes.pop();
        self.indent -= 1;
    }

    fn shadow_scope(&mut self, depth: u32) {
        let cands = self.shadow_candidates();
        let (name, kind, init) = self.rng.pick(&cands).clone();
        let which = self.rng.below(10);
        match which {
            0 => {
                self.used.insert("shadow:do");
                self.line("do");
                self.open();
                if self.rng.chance(1, 2) {
                    // uses before the declaration in the same block still see the global
                    self.use_target();
                    self.used.insert("shadow:local-after-use");
                }
                self.line(&format!("local {} = {}", name, init));
                self.declare(&name, kind);
                self.body(depth);
                self.close();
                self.line("end");
            }
            1 => {
                self.used.insert("shadow:while");
                let i = self.fresh("i");
                self.line(&format!("local {} = 0", i));
                self.line(&format!("while {} < 2 do", i));
                self.open();
                self.line(&format!("{} = {} + 1", i, i));
                self.line(&format!("local {} = {}", name, init));
                self.declare(&name, kind);
                self.body(depth);
                self.close();
                self.line("end");
            }
            2 => {
                self.used.insert("shadow:repeat");
                self.line("repeat");
                self.open();
                self.line(&format!("local {} = {}", name, init));
                self.declare(&name, kind);
                self.body(depth);
                // the condition is inside the scope of the body's locals
                let cond = self.repeat_condition();
                self.close();
                self.line(&format!("until {}", cond));
            }
            3 => {
                self.used.insert("shadow:numeric-for");
                self.line(&format!("for {} = 1, 2 do", name));
                self.open();
                self.declare(&name, Shadow::Number);
                self.body(depth);
                self.close();
                self.line("end");
            }
            4 => {
                self.used.insert("shadow:generic-for");
                self.line(&format!("for _, {} in ipairs({{ {} }}) do", name, init));
                self.open();
                self.declare(&name, kind);
                self.body(depth);
                self.close();
                self.line("end");
            }
            5 => {
                self.used.insert("shadow:if-branch");
                self.line("if flag2() then");
                self.open();
                self.line(&format!("local {} = {}", name, init));
                self.declare(&name, kind);
                self.body(depth);
                self.close();
                self.line("else");
                self.open();
                self.body(depth);
                self.close();
                self.line("end");
            }
            6 => {
                self.used.insert("shadow:function-parameter");
                let f = self.fresh("g");
                let variadic = self.rng.chance(1, 2);
                self.line(&format!("local function {}({}{})", f, name, if variadic { ", ..." } else { "" }));
                let saved = self.in_vararg_fn;
                self.in_vararg_fn = variadic;
                self.open();
                self.declare(&name, kind);
                self.body(depth);
                self.close();
                self.in_vararg_fn = saved;
                self.line("end");
                self.line(&format!("{}({}, 1, nil, 'z')", f, init));
            }
            7 => {
                if kind == Shadow::Callable {
                    self.used.insert("shadow:local-function");
                    self.line("do");
                    self.open();
                    self.line(&format!("local function {}(...) emitv('local {}', ...) return ... end", name, name));
                    self.declare(&name, Shadow::Callable);
                    self.body(depth);
                    self.close();
                    self.line("end");
                } else {
                    self.used.insert("shadow:function-expression-parameter");
                    let f = self.fresh("h");
                    self.line(&format!("local {} = function({})", f, name));
                    let saved = self.in_vararg_fn;
                    self.in_vararg_fn = false;
                    self.open();
                    self.declare(&name, kind);
                    self.body(depth);
                    self.close();
                    self.in_vararg_fn = saved;
                    self.line("end");
                    self.line(&format!("{}({})", f, init));
                }
            }
            8 => {
                // a closure created while the name is shadowed, called after the scope ended
                self.used.insert("shadow:closure-escapes-scope");
                let f = self.fresh("esc");
                self.line(&format!("local {}", f));
                self.line("do");
                self.open();
                self.line(&format!("local {} = {}", name, init));
                self.declare(&name, kind);
                self.line(&format!("{} = function(...)", f));
                let saved = self.in_vararg_fn;
                self.in_vararg_fn = true;
                self.open();
                self.body(depth);
                self.close();
                self.in_vararg_fn = saved;
                self.line("end");
                self.close();
                self.line("end");
                self.line(&format!("{}(4, 5)", f));
            }
            _ => {
                // method definition: `self` is inserted, parameters shadow
                self.used.insert("shadow:method-parameter");
                let m = self.fresh("m");
                self.line(&format!("function obj:{}({})", m, name));
                let saved = self.in_vararg_fn;
                self.in_vararg_fn = false;
                self.open();
                self.declare(&name, kind);
                self.body(depth);
                self.close();
                self.in_vararg_fn = saved;
                self.line("end");
                self.line(&format!("obj:{}({})", m, init));
            }
        }
        // after the scope: the global is visible again
        if self.rng.chance(1, 2) {
            self.used.insert("use-after-shadow-scope");
            self.use_target();
        }
    }

    fn repeat_condition(&mut self) -> String {
        match &self.target {
            Target::Assert => {
                if self.callee_callable() {
                    self.used.insert("repeat-condition-uses-name");
                    "assert(true, 1)".to_owned()
                } else {
                    "true".to_owned()
                }
            }
            Target::Profiling => "true".to_owned(),
            Target::Inject { name, .. } => {
                self.used.insert("repeat-condition-uses-name");
                format!("{} == {} or true", name, name)
            }
        }
    }

    fn plain_scope(&mut self, depth: u32) {
        match self.rng.below(4) {
            0 => {
                self.line("do");
                self.open();
                self.body(depth);
                self.close();
                self.line("end");
            }
            1 => {
                self.line("if flag1() then");
                self.open();
                self.body(depth);
                self.close();
                self.line("end");
            }
            2 => {
                let f = self.fresh("fn");
                self.used.insert("inside-vararg-function");
                self.line(&format!("local function {}(...)", f));
                let saved = self.in_vararg_fn;
                self.in_vararg_fn = true;
                self.open();
                self.body(depth);
                if self.target != Target::Profiling && self.rng.chance(1, 2) && self.callee_callable_or_inject() {
                    self.used.insert("position:return");
                    let e = self.return_expr();
                    self.line(&format!("return {}", e));
                }
                self.close();
                self.in_vararg_fn = saved;
                self.line("end");
                self.line(&format!("emitv({}(1, false, 'x'))", f));
            }
            _ => {
                self.line("for k = 1, 2 do");
                self.open();
                self.body(depth);
                self.close();
                self.line("end");
            }
        }
    }

    fn callee_callable_or_inject(&self) -> bool {
        matches!(self.target, Target::Inject { .. }) || self.callee_callable()
    }

    fn return_expr(&mut self) -> String {
        match &self.target {
            Target::Inject { name, .. } => format!("{}, 2", name),
            _ => self.target_call_expr(0, false),
        }
    }

    fn item(&mut self, depth: u32) {
        if self.budget <= 0 || depth > 3 {
            self.use_target();
            return;
        }
        self.budget -= 1;
        if !matches!(self.target, Target::Inject { .. }) && self.callee_is_global() && self.rng.chance(1, 14) {
            // F31 (fixed): a bare `local _ = …` produced by the rule would shadow the program's own `_`
            self.used.insert("underscore-read-after-removed-call");
            let callee = self.callee();
            self.line("local _ = 9");
            if self.rng.chance(1, 2) {
                self.line(&format!("{}(t.x)", callee));
            } else {
                // F36 (fixed): a later kept argument reads `_`
                self.used.insert("underscore-read-in-later-argument");
                self.line(&format!("{}(t.x, emit(_), n + 1, sink(_))", callee));
            }
            self.line("emit(_)");
            return;
        }
        match self.rng.below(12) {
            0..=4 => self.use_target(),
            5..=7 => self.shadow_scope(depth),
            8 => self.field_of_other(),
            9 | 10 => self.plain_scope(depth),
            _ => {
                let k = self.rng.below(50);
                self.line(&format!("emit({})", k));
            }
        }
    }

    fn final_return(&mut self) {
        match &self.target {
            Target::Profiling => self.line("return n"),
            Target::Inject { name, .. } => {
                let name = name.clone();
                if self.shadow_of(&name).is_none() && self.shadow_of("_G").is_none() {
                    self.used.insert("position:return");
                    self.line(&format!("return {}, _G.{}", name, name));
                } else {
                    self.line("return n");
                }
            }
            Target::Assert => {
                self.used.insert("position:return");
                let e = self.target_call_expr(0, false);
                self.line(&format!("return {}", e));
            }
        }
    }
}
