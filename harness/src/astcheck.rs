//! `dlv astcheck [--seed N] [--random N] [--verbose]`: self-test of the shared AST codec
//! (`astsexp.rs` against `lean/DarkluaModel/Shared/AstSexp.lean` through the `ast.echo` /
//! `ast.echoexpr` driver ops, and against darklua's own parser + dense generator).
//!
//! Inputs: every .lua/.luau file under $VERIF_REPO (default /repo) tests/, bench_content/,
//! site/; every fenced code block of the .md files under site/; every string literal of the
//! .rs files under src/ and tests/ — each kept only when darklua's `Parser` accepts it — plus
//! random programs from the generator below (raw constructor-built trees, and the same trees
//! after dense generation + parsing).
//!
//! Checks, per tree `B` (s = block_to_sexp(B)):
//!   echo     Lean `ast.echo s` answers exactly `s`
//!   reverse  `sexp_to_block(s)` = Ok(B2) ⇒ block_to_sexp(B2) == s; Err allowed only for a
//!            documented `type:` / `generics:` reason on a tree that contains type syntax
//!   equal    B2 == B by darklua's own derived PartialEq, after normalising in B what the wire
//!            drops (number spelling, method type instantiation, attribute groups, leading `|`)
//!   regen    (parsed trees only) DenseLuaGenerator(B2) parses, and its sexp == s
//!   golden   a hand-written table source → wire text pins the meaning of every operator / head
//! and on mutated / ill-formed S-expressions: Lean accepts ⇒ Rust accepts with the same
//! re-encoding or refuses with a documented structural reason; Lean rejects ⇒ Rust rejects.
use crate::astsexp::{self, Sexp};
use crate::model::Model;
use crate::rng::Rng;
use darklua_core::generator::{DenseLuaGenerator, LuaGenerator};
use darklua_core::nodes::*;
use darklua_core::process::{DefaultVisitor, NodeProcessor, NodeVisitor};
use darklua_core::Parser;
use std::collections::{BTreeMap, BTreeSet};
use std::panic::{catch_unwind, AssertUnwindSafe};
use std::path::{Path, PathBuf};

struct Case {
    label: String,
    block: Block,
    /// came out of darklua's parser (so the regenerate check applies)
    parsed: bool,
}

#[derive(Default)]
struct Stats {
    counts: BTreeMap<String, u64>,
    node_kinds: BTreeMap<String, u64>,
    reverse_failures: BTreeMap<String, u64>,
    mismatches: Vec<String>,
}

impl Stats {
    fn bump(&mut self, key: &str) {
        *self.counts.entry(key.to_owned()).or_default() += 1;
    }
    fn mismatch(&mut self, what: String) {
        if self.mismatches.len() < 40 {
            eprintln!("MISMATCH {}", what);
        }
        self.mismatches.push(what);
    }
}

fn repo_root() -> PathBuf {
    PathBuf::from(std::env::var("VERIF_REPO").unwrap_or_else(|_| "/repo".to_owned()))
}

fn walk(dir: &Path, out: &mut Vec<PathBuf>) {
    let Ok(entries) = std::fs::read_dir(dir) else { return };
    let mut entries: Vec<_> = entries.flatten().map(|e| e.path()).collect();
    entries.sort();
    for path in entries {
        let name = path.file_name().and_then(|n| n.to_str()).unwrap_or("");
        if path.is_dir() {
            if name != "node_modules" && name != "target" && name != ".git" {
                walk(&path, out);
            }
        } else {
            out.push(path);
        }
    }
}

fn parse_quiet(code: &str) -> Option<Block> {
    catch_unwind(AssertUnwindSafe(|| Parser::default().parse(code).ok())).ok().flatten()
}

/// string literals of a Rust source file: "…" with the usual escapes, r"…", r#"…"#
fn rust_string_literals(source: &str) -> Vec<String> {
    let bytes = source.as_bytes();
    let mut out = Vec::new();
    let mut i = 0;
    while i < bytes.len() {
        match bytes[i] {
            b'/' if bytes.get(i + 1) == Some(&b'/') => {
                while i < bytes.len() && bytes[i] != b'\n' {
                    i += 1;
                }
            }
            b'\'' => {
                // char literal or lifetime: skip '\x', 'c'
                if bytes.get(i + 1) == Some(&b'\\') {
                    i += 2;
                    while i < bytes.len() && bytes[i] != b'\'' {
                        i += 1;
                    }
                    i += 1;
                } else if bytes.get(i + 2) == Some(&b'\'') {
                    i += 3;
                } else {
                    i += 1;
                }
            }
            b'r' if matches!(bytes.get(i + 1), Some(b'"') | Some(b'#'))
                && (i == 0 || !(bytes[i - 1].is_ascii_alphanumeric() || bytes[i - 1] == b'_')) =>
            {
                let mut j = i + 1;
                let mut hashes = 0;
                while bytes.get(j) == Some(&b'#') {
                    hashes += 1;
                    j += 1;
                }
                if bytes.get(j) != Some(&b'"') {
                    i += 1;
                    continue;
                }
                j += 1;
                let start = j;
                let closing: Vec<u8> = std::iter::once(b'"').chain(std::iter::repeat(b'#').take(hashes)).collect();
                let mut end = None;
                while j + closing.len() <= bytes.len() {
                    if bytes[j..j + closing.len()] == closing[..] {
                        end = Some(j);
                        break;
                    }
                    j += 1;
                }
                match end {
                    Some(end) => {
                        out.push(String::from_utf8_lossy(&bytes[start..end]).into_owned());
                        i = end + closing.len();
                    }
                    None => i = bytes.len(),
                }
            }
            b'"' => {
                let mut j = i + 1;
                let mut text: Vec<u8> = Vec::new();
                let mut ok = true;
                while j < bytes.len() && bytes[j] != b'"' {
                    if bytes[j] == b'\\' {
                        j += 1;
                        match bytes.get(j) {
                            Some(b'n') => text.push(b'\n'),
                            Some(b't') => text.push(b'\t'),
                            Some(b'r') => text.push(b'\r'),
                            Some(b'0') => text.push(0),
                            Some(b'\\') => text.push(b'\\'),
                            Some(b'"') => text.push(b'"'),
                            Some(b'\'') => text.push(b'\''),
                            Some(b'\n') => {
                                // line continuation: skip leading whitespace of the next line
                                while matches!(bytes.get(j + 1), Some(b' ') | Some(b'\t') | Some(b'\n')) {
                                    j += 1;
                                }
                            }
                            _ => ok = false, // \x.., \u{..}: not worth decoding
                        }
                        j += 1;
                    } else {
                        text.push(bytes[j]);
                        j += 1;
                    }
                }
                if ok {
                    if let Ok(text) = String::from_utf8(text) {
                        out.push(text);
                    }
                }
                i = j + 1;
            }
            _ => i += 1,
        }
    }
    out
}

fn markdown_fences(source: &str) -> Vec<String> {
    let mut out = Vec::new();
    let mut current: Option<String> = None;
    for line in source.lines() {
        if line.trim_start().starts_with("```") {
            match current.take() {
                Some(code) => out.push(code),
                None => current = Some(String::new()),
            }
        } else if let Some(code) = current.as_mut() {
            code.push_str(line);
            code.push('\n');
        }
    }
    out
}

fn collect_corpus(stats: &mut Stats) -> Vec<Case> {
    let root = repo_root();
    let mut cases = Vec::new();
    let mut seen: BTreeSet<String> = BTreeSet::new();
    let mut files = Vec::new();
    for dir in ["tests", "bench_content", "site", "src", "scripts"] {
        walk(&root.join(dir), &mut files);
    }
    for path in files {
        let ext = path.extension().and_then(|e| e.to_str()).unwrap_or("");
        let Ok(bytes) = std::fs::read(&path) else { continue };
        let text = String::from_utf8_lossy(&bytes).into_owned();
        let (kind, snippets): (&str, Vec<String>) = match ext {
            "lua" | "luau" => ("file", vec![text]),
            "rs" => ("rs-literal", rust_string_literals(&text)),
            "md" | "mdx" => ("md-fence", markdown_fences(&text)),
            _ => continue,
        };
        for (index, code) in snippets.into_iter().enumerate() {
            stats.bump(&format!("source.{}.seen", kind));
            if kind != "file" && (code.trim().is_empty() || !seen.insert(code.clone())) {
                continue;
            }
            match parse_quiet(&code) {
                Some(block) => {
                    // a literal that parses to an empty block says nothing
                    if kind != "file" && block.is_empty() {
                        continue;
                    }
                    stats.bump(&format!("source.{}.parsed", kind));
                    cases.push(Case { label: format!("{}:{}#{}", kind, path.display(), index), block, parsed: true });
                }
                None => stats.bump(&format!("source.{}.rejected-by-parser", kind)),
            }
        }
    }
    for (index, code) in BUILTIN_SNIPPETS.iter().enumerate() {
        stats.bump("source.builtin.seen");
        match parse_quiet(code) {
            Some(block) => {
                stats.bump("source.builtin.parsed");
                cases.push(Case { label: format!("builtin#{} `{}`", index, code), block, parsed: true });
            }
            None => {
                stats.bump("source.builtin.rejected-by-parser");
                eprintln!("note: builtin snippet #{} rejected by darklua's parser: {}", index, code);
            }
        }
    }
    cases
}

/// hand-written corner cases (literal forms, type syntax the corpus is thin on)
const BUILTIN_SNIPPETS: &[&str] = &[
    "return 0x10, 0XfF, 0b1010, 0B11, 1_000, 1e3, 1E-3, .5, 5., 0xFFFFFFFFFFFFFFFF, 1e308, 5e-324",
    "return 1e999, -1e999",
    "return -0, -(0), - -1, not not x, #t, -x^2, (-x)^2, 2^3^4, (2^3)^4, a..b..c, (a..b)..c",
    r#"return 'a\\z', "\x41\u{48}\065\z  \n", [[long
]], [==[a]]b]==], '\255\0'"#,
    r#"return `a{b}c{ {1} }`, `{1}`, ``, `\{x}`, `a\n{1}`"#,
    r#"f'x' f"x" f[[x]] f{} f{1} f() f(...) a.b:c'x' a:b{} (f)() f()() f{}{} f'' ''"#,
    "obj:method<<number>>(1) obj:method<<typeof(x), T>>'s' local y = f<<number, string>>(1)",
    "local z = f<<>>()",
    "a, b.c, d[e], f().g, (h).i = 1, 2 a += 1 b.c -= 1 d[e] *= 2 x /= 1 x //= 1 x %= 1 x ^= 1 x ..= 's'",
    "const a, b = 1, 2",
    "const function f() end",
    "local function f<T, U...>(a: T, ...: U...): (T, U...) return a, ... end",
    "function a.b.c:d<T>(x: T?, ...: number): ...T end function e(...) end",
    "local f = @native function() end @checked local function g() end @native @checked function h() end",
    "type A = Foo<>",
    "type B = Foo<number, (string, boolean), ...T, U...> type C = ns.Foo<A>",
    r#"type A<T, U = number, V... = ...string> = { x: T, read y: U, write ["z"]: T, [number]: T }"#,
    "export type F = <T, R...>(a: T, b: number, ...T) -> (R...) type G = (x: number) -> () type H = () -> ...number",
    "type U = | A | B type V = & A & B",
    r#"type W = (A | B)? type X = A? | B type Y = typeof(f(1).x) type Z = 'lit' | "lit" | true | false | nil"#,
    "type T = { number } type T2 = {} type T3 = { { [string]: { x: number } } }",
    "export type function f(a, b: number, ...) return a end type function g<T>(x: T): T return x end",
    "local x = a :: number local y = (a :: any) :: string local z = if a then b elseif c then d elseif e then f else g",
    "for i = 1, 2 do end for i: number = 1, 2, 3 do break end for k: string, v in pairs(t), nil do continue end",
    "repeat local x = 1 until x while true do if a then break elseif b then continue else return end end",
    "do end do do end end if a then elseif b then else end return",
    r#"local t = { 1, a = 2, [3] = 4, ["k"] = 5; f(), ..., }"#,
    "return function(...: T...) end, function<T>(a: T, b): () end",
];

// ---------------------------------------------------------------------------------------------
// random programs: every node kind reachable
// ---------------------------------------------------------------------------------------------

struct Gen {
    rng: Rng,
    /// raw-only oddities (names the parser would refuse, non-finite numbers)
    weird: bool,
}

const NAMES: &[&str] = &["a", "b", "foo", "bar", "self", "x1", "_G", "value", "T", "Obj", "n", "i"];
const TYPE_NAMES: &[&str] = &["number", "string", "boolean", "T", "U", "Foo", "any"];

impl Gen {
    fn name(&mut self) -> String {
        if self.weird && self.rng.chance(1, 6) {
            return (*self.rng.pick(&["", "é", "end", "a b", "x(", "名"])).to_owned();
        }
        (*self.rng.pick(NAMES)).to_owned()
    }
    fn ident(&mut self) -> Identifier {
        Identifier::new(self.name())
    }
    fn type_name(&mut self) -> String {
        (*self.rng.pick(TYPE_NAMES)).to_owned()
    }
    fn bytes(&mut self) -> Vec<u8> {
        match self.rng.below(6) {
            0 => Vec::new(),
            1 => b"hello".to_vec(),
            2 => b"it's \"quoted\"\n\ttab\\".to_vec(),
            3 => "héllo ✓".as_bytes().to_vec(),
            4 => (0..self.rng.below(6)).map(|_| self.rng.below(256) as u8).collect(),
            _ => b"]]=] {x} `tick`".to_vec(),
        }
    }
    fn utf8(&mut self) -> String {
        (*self.rng.pick(&["", "ok", "a b", "it's", "say \"hi\"", "é✓", "line\nbreak"])).to_owned()
    }
    fn number(&mut self) -> Expression {
        match self.rng.below(10) {
            0 => DecimalNumber::new(0.0).into(),
            1 => DecimalNumber::new(self.rng.below(1000) as f64).into(),
            2 => DecimalNumber::new(self.rng.below(100000) as f64 / 64.0).into(),
            3 => DecimalNumber::new(1e300).into(),
            4 => DecimalNumber::new(f64::from_bits(self.rng.next_u64() & 0x7fef_ffff_ffff_ffff)).into(),
            5 => HexNumber::new(self.rng.next_u64() >> self.rng.below(64), self.rng.chance(1, 2)).into(),
            6 => BinaryNumber::new(self.rng.next_u64() >> self.rng.below(64), self.rng.chance(1, 2)).into(),
            7 => DecimalNumber::new(12500.0).with_exponent(2, self.rng.chance(1, 2)).into(),
            // hex literals with a binary exponent exist only through the constructor (the parser
            // refuses `0x1p4`); 2^exponent * integer may overflow u64
            9 if self.weird => HexNumber::new(self.rng.next_u64() >> self.rng.below(64), false)
                .with_exponent(self.rng.below(70) as u32, self.rng.chance(1, 2))
                .into(),
            8 if self.weird => DecimalNumber::new(*self.rng.pick(&[-1.5, -0.0, f64::INFINITY, f64::NEG_INFINITY, f64::NAN])).into(),
            _ => DecimalNumber::new(0.1).into(),
        }
    }
    fn leaf(&mut self) -> Expression {
        match self.rng.below(8) {
            0 => Expression::nil(),
            1 => true.into(),
            2 => false.into(),
            3 => Expression::variable_arguments(),
            4 => self.number(),
            5 => StringExpression::from_value(self.bytes()).into(),
            _ => Expression::Identifier(self.ident()),
        }
    }
    fn exprs(&mut self, d: u32, max: usize) -> Vec<Expression> {
        (0..self.rng.below(max + 1)).map(|_| self.expr(d)).collect()
    }
    fn prefix(&mut self, d: u32) -> Prefix {
        if d == 0 {
            return Prefix::Identifier(self.ident());
        }
        match self.rng.below(8) {
            0 | 1 => Prefix::Identifier(self.ident()),
            2 => FieldExpression::new(self.prefix(d - 1), self.ident()).into(),
            3 => IndexExpression::new(self.prefix(d - 1), self.expr(d - 1)).into(),
            4 => Prefix::Call(Box::new(self.call(d - 1))),
            5 | 6 => Prefix::Parenthese(Box::new(ParentheseExpression::new(self.expr(d - 1)))),
            _ => TypeInstantiationExpression::new(self.prefix(d - 1), self.types(d - 1, 1, 2)).into(),
        }
    }
    fn table(&mut self, d: u32) -> TableExpression {
        let entries = (0..self.rng.below(4))
            .map(|_| match self.rng.below(3) {
                0 => TableEntry::Value(Box::new(self.expr(d))),
                1 => TableFieldEntry::new(self.ident(), self.expr(d)).into(),
                _ => TableIndexEntry::new(self.expr(d), self.expr(d)).into(),
            })
            .collect();
        TableExpression::new(entries)
    }
    fn call(&mut self, d: u32) -> FunctionCall {
        let arguments = match self.rng.below(5) {
            0 => Arguments::String(StringExpression::from_value(self.bytes())),
            1 => Arguments::Table(self.table(d)),
            _ => Arguments::Tuple(TupleArguments::new(self.exprs(d, 3))),
        };
        let method = if self.rng.chance(1, 3) { Some(self.ident()) } else { None };
        FunctionCall::new(self.prefix(d), arguments, method)
    }
    fn typed(&mut self, d: u32) -> TypedIdentifier {
        let typed = TypedIdentifier::new(self.name());
        if self.rng.chance(1, 3) {
            typed.with_type(self.ty(d))
        } else {
            typed
        }
    }
    fn attributes(&mut self) -> Attributes {
        let mut attributes = Attributes::new();
        if self.rng.chance(1, 4) {
            attributes.append_attribute(NamedAttribute::new(*self.rng.pick(&["native", "checked", "deprecated"])));
            // darklua's parser (full-moon) does not read `@[…]` groups: raw-only
            if self.weird && self.rng.chance(1, 2) {
                attributes.append_attribute(
                    AttributeGroup::new(AttributeGroupElement::new("native"))
                        .with_attribute(AttributeGroupElement::new("checked")),
                );
            }
        }
        attributes
    }
    fn generics(&mut self) -> Option<GenericParameters> {
        if !self.rng.chance(1, 4) {
            return None;
        }
        let mut generics = match self.rng.below(3) {
            0 => GenericParameters::from_generic_type_pack(GenericTypePack::new("R")),
            _ => GenericParameters::from_type_variable("T"),
        };
        if self.rng.chance(1, 2) && generics.generic_type_packs_len() == 0 {
            generics.push_type_variable("U");
        }
        if self.rng.chance(1, 3) {
            generics.push_generic_type_pack(GenericTypePack::new("S"));
        }
        Some(generics)
    }
    /// (parameters, is_variadic, variadic type, return type, generics, block)
    #[allow(clippy::type_complexity)]
    fn fn_parts(
        &mut self,
        d: u32,
    ) -> (Vec<TypedIdentifier>, bool, Option<FunctionVariadicType>, Option<FunctionReturnType>, Option<GenericParameters>, Block) {
        let parameters = (0..self.rng.below(3)).map(|_| self.typed(d)).collect();
        let is_variadic = self.rng.chance(1, 3);
        let variadic_type = if is_variadic && self.rng.chance(1, 2) {
            Some(if self.rng.chance(1, 3) {
                FunctionVariadicType::GenericTypePack(GenericTypePack::new("R"))
            } else {
                FunctionVariadicType::Type(Box::new(self.ty(d)))
            })
        } else {
            None
        };
        let return_type = if self.rng.chance(1, 3) { Some(self.return_type(d)) } else { None };
        (parameters, is_variadic, variadic_type, return_type, self.generics(), self.block(d, false))
    }
    fn expr(&mut self, d: u32) -> Expression {
        if d == 0 {
            return self.leaf();
        }
        let d = d - 1;
        match self.rng.below(18) {
            0 | 1 | 2 => self.leaf(),
            3 => ParentheseExpression::new(self.expr(d)).into(),
            4 => {
                let op = *self.rng.pick(&[UnaryOperator::Minus, UnaryOperator::Not, UnaryOperator::Length]);
                UnaryExpression::new(op, self.expr(d)).into()
            }
            5 | 6 => {
                use BinaryOperator::*;
                let op = *self.rng.pick(&[
                    And, Or, Equal, NotEqual, LowerThan, LowerOrEqualThan, GreaterThan, GreaterOrEqualThan, Plus, Minus,
                    Asterisk, Slash, DoubleSlash, Percent, Caret, Concat,
                ]);
                BinaryExpression::new(op, self.expr(d), self.expr(d)).into()
            }
            7 | 8 => self.call(d).into(),
            9 => FieldExpression::new(self.prefix(d), self.ident()).into(),
            10 => IndexExpression::new(self.prefix(d), self.expr(d)).into(),
            11 => {
                let (parameters, is_variadic, variadic_type, return_type, generics, block) = self.fn_parts(d);
                let mut function = FunctionExpression::new(block, parameters, is_variadic);
                if let Some(ty) = variadic_type {
                    function.set_variadic_type(ty);
                }
                if let Some(ty) = return_type {
                    function.set_return_type(ty);
                }
                if let Some(generics) = generics {
                    function.set_generic_parameters(generics);
                }
                function.with_attributes(self.attributes()).into()
            }
            12 => self.table(d).into(),
            13 => {
                let mut if_expr = IfExpression::new(self.expr(d), self.expr(d), self.expr(d));
                for _ in 0..self.rng.below(3) {
                    if_expr.push_branch(ElseIfExpressionBranch::new(self.expr(d), self.expr(d)));
                }
                if_expr.into()
            }
            14 => {
                let segments = (0..self.rng.below(4))
                    .map(|i| {
                        if i % 2 == 0 {
                            let mut bytes = self.bytes();
                            if bytes.is_empty() {
                                bytes.push(b'-');
                            }
                            InterpolationSegment::String(StringSegment::from_value(bytes))
                        } else {
                            InterpolationSegment::Value(ValueSegment::new(self.expr(d)))
                        }
                    })
                    .collect();
                InterpolatedStringExpression::new(segments).into()
            }
            15 => TypeCastExpression::new(self.expr(d), self.ty(d)).into(),
            16 => TypeInstantiationExpression::new(self.prefix(d), self.types(d, 0, 2)).into(),
            _ => self.leaf(),
        }
    }
    fn types(&mut self, d: u32, min: usize, max: usize) -> Vec<Type> {
        (0..min + self.rng.below(max - min + 1)).map(|_| self.ty(d)).collect()
    }
    fn variadic_argument(&mut self, d: u32) -> VariadicArgumentType {
        if self.rng.chance(1, 2) {
            VariadicArgumentType::GenericTypePack(GenericTypePack::new("R"))
        } else {
            VariadicArgumentType::VariadicTypePack(VariadicTypePack::new(self.ty(d)))
        }
    }
    fn type_pack(&mut self, d: u32) -> TypePack {
        let mut pack = TypePack::default();
        for ty in self.types(d, 0, 3) {
            pack.push_type(ty);
        }
        if self.rng.chance(1, 3) {
            pack.set_variadic_type(self.variadic_argument(d));
        }
        pack
    }
    fn return_type(&mut self, d: u32) -> FunctionReturnType {
        match self.rng.below(6) {
            0 => FunctionReturnType::TypePack(Box::new(self.type_pack(d))),
            1 => FunctionReturnType::GenericTypePack(Box::new(GenericTypePack::new("R"))),
            2 => FunctionReturnType::VariadicTypePack(VariadicTypePack::new(self.ty(d))),
            _ => FunctionReturnType::Type(Box::new(self.ty(d))),
        }
    }
    fn type_name_node(&mut self, d: u32) -> TypeName {
        let mut type_name = TypeName::new(self.type_name());
        if d > 0 && self.rng.chance(1, 3) {
            for _ in 0..1 + self.rng.below(2) {
                let parameter = match self.rng.below(6) {
                    0 => TypeParameter::TypePack(self.type_pack(d - 1)),
                    1 => TypeParameter::VariadicTypePack(VariadicTypePack::new(self.ty(d - 1))),
                    2 => TypeParameter::GenericTypePack(GenericTypePack::new("R")),
                    _ => TypeParameter::Type(self.ty(d - 1)),
                };
                type_name.push_type_parameter(parameter);
            }
        }
        type_name
    }
    fn modifier(&mut self) -> Option<TablePropertyModifier> {
        match self.rng.below(5) {
            0 => Some(TablePropertyModifier::Read),
            1 => Some(TablePropertyModifier::Write),
            _ => None,
        }
    }
    fn ty(&mut self, d: u32) -> Type {
        if d == 0 {
            return match self.rng.below(6) {
                0 => Type::True(None),
                1 => Type::False(None),
                2 => Type::Nil(None),
                3 => StringType::from_value(self.utf8()).into(),
                _ => TypeName::new(self.type_name()).into(),
            };
        }
        let d = d - 1;
        match self.rng.below(14) {
            0 | 1 => self.type_name_node(d + 1).into(),
            2 => TypeField::new(*self.rng.pick(&["Module", "ns"]), self.type_name_node(d + 1)).into(),
            3 => self.ty(0),
            4 => ArrayType::new(self.ty(d)).into(),
            5 => {
                let mut table = TableType::default();
                let mut has_indexer = false;
                for _ in 0..self.rng.below(4) {
                    let mut entry: TableEntryType = match self.rng.below(4) {
                        0 if !has_indexer => {
                            has_indexer = true;
                            let key: Type = TypeName::new(self.type_name()).into();
                            TableIndexerType::new(key, self.ty(d)).into()
                        }
                        1 => TableLiteralPropertyType::new(StringType::from_value(self.utf8()), self.ty(d)).into(),
                        _ => TablePropertyType::new(self.ident(), self.ty(d)).into(),
                    };
                    if let Some(modifier) = self.modifier() {
                        entry.set_modifier(modifier);
                    }
                    table.push_property(entry);
                }
                table.into()
            }
            6 => ExpressionType::new(self.expr(d)).into(),
            7 => ParentheseType::new(self.ty(d)).into(),
            8 => {
                let mut function = FunctionType::new(self.return_type(d));
                if let Some(generics) = self.generics() {
                    function.set_generic_parameters(generics);
                }
                for _ in 0..self.rng.below(3) {
                    let argument = FunctionArgumentType::new(self.ty(d));
                    function.push_argument(if self.rng.chance(1, 2) { argument.with_name(self.ident()) } else { argument });
                }
                if self.rng.chance(1, 3) {
                    function.set_variadic_type(self.variadic_argument(d));
                }
                function.into()
            }
            9 => OptionalType::new(self.ty(d)).into(),
            10 => IntersectionType::from(self.types(d, 2, 3)).into(),
            11 => UnionType::from(self.types(d, 2, 3)).into(),
            _ => self.ty(0),
        }
    }
    fn variable(&mut self, d: u32) -> Variable {
        match self.rng.below(3) {
            0 => Variable::Identifier(self.ident()),
            1 => FieldExpression::new(self.prefix(d), self.ident()).into(),
            _ => IndexExpression::new(self.prefix(d), self.expr(d)).into(),
        }
    }
    fn kind(&mut self) -> AssignmentKind {
        if self.rng.chance(1, 4) {
            AssignmentKind::Const
        } else {
            AssignmentKind::Local
        }
    }
    fn stmt(&mut self, d: u32, in_loop: bool) -> Statement {
        let e = d.min(3);
        let d = d.saturating_sub(1);
        match self.rng.below(if d == 0 { 5 } else { 16 }) {
            0 => {
                let n = 1 + self.rng.below(2);
                AssignStatement::new((0..n).map(|_| self.variable(e)).collect(), (0..n).map(|_| self.expr(e)).collect()).into()
            }
            1 => {
                use CompoundOperator::*;
                let op = *self.rng.pick(&[Plus, Minus, Asterisk, Slash, DoubleSlash, Percent, Caret, Concat]);
                CompoundAssignStatement::new(op, self.variable(e), self.expr(e)).into()
            }
            2 => Statement::Call(self.call(e)),
            3 | 4 => {
                let n = 1 + self.rng.below(2);
                let values = self.rng.below(n + 1);
                VariableAssignment::new((0..n).map(|_| self.typed(e)).collect(), (0..values).map(|_| self.expr(e)).collect())
                    .with_assignment_kind(self.kind())
                    .into()
            }
            5 => DoStatement::new(self.block(d, in_loop)).into(),
            6 => {
                let fields = (0..self.rng.below(3)).map(|_| self.ident()).collect();
                let method = if self.rng.chance(1, 3) { Some(self.ident()) } else { None };
                let fname = FunctionName::new(self.ident(), fields, method);
                let (parameters, is_variadic, variadic_type, return_type, generics, block) = self.fn_parts(d);
                let mut function = FunctionStatement::new(fname, block, parameters, is_variadic);
                if let Some(ty) = variadic_type {
                    function.set_variadic_type(ty);
                }
                if let Some(ty) = return_type {
                    function.set_return_type(ty);
                }
                if let Some(generics) = generics {
                    function.set_generic_parameters(generics);
                }
                function.with_attributes(self.attributes()).into()
            }
            7 => {
                let names = (0..1 + self.rng.below(2)).map(|_| self.typed(e)).collect();
                let mut values = self.exprs(e, 2);
                if values.is_empty() {
                    values.push(self.expr(e));
                }
                GenericForStatement::new(names, values, self.block(d, true)).into()
            }
            8 => {
                let step = if self.rng.chance(1, 2) { Some(self.expr(e)) } else { None };
                NumericForStatement::new(self.typed(e), self.expr(e), self.expr(e), step, self.block(d, true)).into()
            }
            9 => {
                let branches = (0..1 + self.rng.below(3)).map(|_| IfBranch::new(self.expr(e), self.block(d, in_loop))).collect();
                let else_block = if self.rng.chance(1, 2) { Some(self.block(d, in_loop)) } else { None };
                IfStatement::new(branches, else_block).into()
            }
            10 => {
                let (parameters, is_variadic, variadic_type, return_type, generics, block) = self.fn_parts(d);
                let mut function = FunctionAssignment::new(self.ident(), block, parameters, is_variadic);
                function.set_assignment_kind(self.kind());
                if let Some(ty) = variadic_type {
                    function.set_variadic_type(ty);
                }
                if let Some(ty) = return_type {
                    function.set_return_type(ty);
                }
                if let Some(generics) = generics {
                    function.set_generic_parameters(generics);
                }
                function.with_attributes(self.attributes()).into()
            }
            11 => RepeatStatement::new(self.block(d, true), self.expr(e)).into(),
            12 => WhileStatement::new(self.block(d, true), self.expr(e)).into(),
            13 | 14 => {
                let mut decl = TypeDeclarationStatement::new(*self.rng.pick(&["Foo", "Bar", "Result"]), self.ty(e));
                if self.rng.chance(1, 3) {
                    let mut generics = match self.rng.below(4) {
                        0 => GenericParametersWithDefaults::from_type_variable_with_default(TypeVariableWithDefault::new("T", self.ty(1))),
                        1 => GenericParametersWithDefaults::from_generic_type_pack(GenericTypePack::new("R")),
                        _ => GenericParametersWithDefaults::from_type_variable("T"),
                    };
                    if self.rng.chance(1, 2) {
                        generics.push_type_variable_with_default(TypeVariableWithDefault::new("V", self.ty(1)));
                    }
                    if self.rng.chance(1, 3) {
                        generics.push_generic_type_pack(GenericTypePack::new("S"));
                    }
                    if self.rng.chance(1, 3) {
                        let default = match self.rng.below(3) {
                            0 => GenericTypePackDefault::TypePack(Box::new(self.type_pack(1))),
                            1 => GenericTypePackDefault::VariadicTypePack(VariadicTypePack::new(self.ty(1))),
                            _ => GenericTypePackDefault::GenericTypePack(GenericTypePack::new("R")),
                        };
                        generics.push_generic_type_pack_with_default(GenericTypePackWithDefault::new(GenericTypePack::new("D"), default));
                    }
                    decl.set_generic_parameters(generics);
                }
                if self.rng.chance(1, 3) {
                    decl.set_exported();
                }
                decl.into()
            }
            _ => {
                let (parameters, is_variadic, variadic_type, return_type, generics, block) = self.fn_parts(d);
                let mut function = TypeFunctionStatement::new(self.ident(), block, parameters, is_variadic);
                if let Some(ty) = variadic_type {
                    function.set_variadic_type(ty);
                }
                if let Some(ty) = return_type {
                    function.set_return_type(ty);
                }
                if let Some(generics) = generics {
                    function.set_generic_parameters(generics);
                }
                if self.rng.chance(1, 3) {
                    function.set_exported();
                }
                function.into()
            }
        }
    }
    fn block(&mut self, d: u32, in_loop: bool) -> Block {
        let statements = (0..self.rng.below(if d == 0 { 2 } else { 4 })).map(|_| self.stmt(d, in_loop)).collect();
        let last = match self.rng.below(6) {
            0 | 1 => Some(LastStatement::Return(ReturnStatement::new(self.exprs(d.min(3), 2)))),
            2 if in_loop => Some(LastStatement::new_break()),
            3 if in_loop => Some(LastStatement::new_continue()),
            _ => None,
        };
        Block::new(statements, last)
    }
}

// ---------------------------------------------------------------------------------------------
// checks
// ---------------------------------------------------------------------------------------------

const KNOWN_HEADS: &[&str] = &[
    "num", "str", "var", "paren", "un", "bin", "call", "field", "index", "fn", "table", "pos", "named", "keyed", "ifx",
    "interp", "s", "v", "cast", "inst", "fnbody", "n", "ty", "typeof", "assign", "cassign", "callstmt", "do", "function",
    "gfor", "nfor", "if", "local", "localfn", "repeat", "while", "typedecl", "typefn", "block", "return",
];

fn count_nodes(tree: &Sexp, kinds: &mut BTreeMap<String, u64>) {
    match tree {
        Sexp::Atom(atom) => {
            if matches!(atom.as_str(), "nil" | "vararg" | "break" | "continue") {
                *kinds.entry(atom.clone()).or_default() += 1;
            } else if matches!(atom.as_str(), "true" | "false") {
                *kinds.entry("true/false (incl. flags)".to_owned()).or_default() += 1;
            }
        }
        Sexp::List(items) => {
            if let Some(head) = tree.head().filter(|head| KNOWN_HEADS.contains(head)) {
                let key = if head == "ty" {
                    let tag = items.get(1).and_then(Sexp::atom).and_then(astsexp::unhex_name).unwrap_or_default();
                    format!("ty:{}", tag.split(':').next().unwrap_or(""))
                } else {
                    head.to_owned()
                };
                *kinds.entry(key).or_default() += 1;
            }
            for item in items {
                count_nodes(item, kinds);
            }
        }
    }
}

fn has_type_syntax(sexp: &str) -> bool {
    sexp.contains("(ty ") || sexp.contains("(typeof ")
}

/// number literals whose value the generator cannot print as one literal token
fn has_unprintable_number(tree: &Sexp) -> bool {
    match tree {
        Sexp::Atom(_) => false,
        Sexp::List(items) => {
            if tree.head() == Some("num") {
                if let Some(bits) = items.get(1).and_then(Sexp::atom).and_then(|a| u64::from_str_radix(&a[1..], 16).ok()) {
                    let value = f64::from_bits(bits);
                    return !value.is_finite() || value.is_sign_negative();
                }
            }
            items.iter().any(has_unprintable_number)
        }
    }
}

fn generate(block: &Block) -> Option<String> {
    catch_unwind(AssertUnwindSafe(|| {
        let mut generator = DenseLuaGenerator::default();
        generator.write_block(block);
        generator.into_string()
    }))
    .ok()
}

fn first_difference(a: &str, b: &str) -> String {
    let at = a.bytes().zip(b.bytes()).position(|(x, y)| x != y).unwrap_or_else(|| a.len().min(b.len()));
    let from = at.saturating_sub(60);
    let show = |s: &str| String::from_utf8_lossy(&s.as_bytes()[from.min(s.len())..(at + 60).min(s.len())]).into_owned();
    format!("at byte {}: `{}` vs `{}`", at, show(a), show(b))
}

fn reason_of(error: &str) -> String {
    error.split(':').next().unwrap_or("?").to_owned()
}

const STRUCTURAL_REASONS: &[&str] = &["prefix", "variable", "callstmt", "call", "cassign", "fnbody", "generics", "type", "syntax"];

fn check_cases(cases: &[Case], model: &mut Model, stats: &mut Stats, verbose: bool) {
    let sexps: Vec<String> = cases.iter().map(|case| astsexp::block_to_sexp(&case.block)).collect();
    let requests: Vec<String> = sexps.iter().map(|s| format!("ast.echo {}", s)).collect();
    let answers = model.ask_batch(&requests);
    for ((case, sexp), answer) in cases.iter().zip(&sexps).zip(&answers) {
        stats.bump(if case.parsed { "trees.parsed" } else { "trees.raw" });
        if verbose {
            eprintln!("{} ({} bytes of sexp)", case.label, sexp.len());
        }
        let tree = match Sexp::parse(sexp) {
            Ok(tree) => tree,
            Err(error) => {
                stats.mismatch(format!("{}: own output does not parse: {}", case.label, error));
                continue;
            }
        };
        if tree.to_string() != *sexp {
            stats.mismatch(format!("{}: Sexp parse/print is not the identity", case.label));
        }
        count_nodes(&tree, &mut stats.node_kinds);
        if answer != sexp {
            stats.mismatch(format!("{}: Lean echo differs {}", case.label, first_difference(sexp, answer)));
        } else {
            stats.bump("echo.identical");
        }
        match catch_unwind(AssertUnwindSafe(|| astsexp::tree_to_block(&tree))) {
            Err(_) => stats.mismatch(format!("{}: reverse direction panicked", case.label)),
            Ok(Err(error)) => {
                let reason = reason_of(&error);
                *stats.reverse_failures.entry(format!("{} ({})", reason, error.chars().take(70).collect::<String>())).or_default() += 1;
                let documented = matches!(reason.as_str(), "type" | "generics") && has_type_syntax(sexp);
                if !documented {
                    stats.mismatch(format!("{}: reverse failed on a tree it must accept: {}", case.label, error));
                }
            }
            Ok(Ok(rebuilt)) => {
                stats.bump("reverse.ok");
                let again = astsexp::block_to_sexp(&rebuilt);
                if again != *sexp {
                    stats.mismatch(format!("{}: sexp→block→sexp differs {}", case.label, first_difference(sexp, &again)));
                    continue;
                }
                // independent of the codec's own forward direction: darklua's derived PartialEq
                // between the original tree (normalised for what the wire drops) and the rebuilt one
                let mut normalised = case.block.clone();
                let mut normaliser = Normalise::default();
                DefaultVisitor::visit_block(&mut normalised, &mut normaliser);
                if normalised == rebuilt {
                    stats.bump("rebuilt == original (darklua PartialEq, after normalising dropped details)");
                } else if format!("{:?}", normalised) == format!("{:?}", rebuilt) {
                    // f64 NaN literals (constructor-built trees only) are never == themselves
                    stats.bump("rebuilt == original by Debug text only (NaN literal inside)");
                } else {
                    let (left, right) = (format!("{:?}", normalised), format!("{:?}", rebuilt));
                    stats.mismatch(format!("{}: rebuilt block != original block: {}", case.label, first_difference(&left, &right)));
                }
                for (what, count) in [("dropped.method-type-instantiation", normaliser.method_types), ("dropped.attribute-group", normaliser.attribute_groups)] {
                    if count > 0 {
                        *stats.counts.entry(what.to_owned()).or_default() += count;
                    }
                }
                if !case.parsed {
                    continue;
                }
                if has_unprintable_number(&tree) {
                    stats.bump("regen.skipped (non-finite number literal)");
                    continue;
                }
                let Some(code) = generate(&rebuilt) else {
                    stats.mismatch(format!("{}: DenseLuaGenerator panicked on the rebuilt block", case.label));
                    continue;
                };
                match parse_quiet(&code) {
                    None => stats.mismatch(format!("{}: generated code of the rebuilt block does not parse: {}", case.label, code.chars().take(200).collect::<String>())),
                    Some(reparsed) => {
                        let final_sexp = astsexp::block_to_sexp(&reparsed);
                        let baseline = generate(&case.block).and_then(|code| parse_quiet(&code)).map(|b| astsexp::block_to_sexp(&b));
                        if final_sexp != *sexp && baseline.as_deref() != Some(sexp.as_str()) {
                            // darklua's own parse→generate→parse changes this tree (e.g. the generator
                            // parenthesises a function type inside `?`/`&`/`|`): not the codec's doing
                            stats.bump("regen.skipped (darklua generate→parse already changes the original tree)");
                            eprintln!("note: darklua's own generate→parse changes {}", case.label.chars().take(160).collect::<String>());
                            if baseline.as_deref() != Some(final_sexp.as_str()) {
                                stats.mismatch(format!("{}: rebuilt and original regenerate to different trees", case.label));
                            }
                        } else if final_sexp != *sexp {
                            stats.mismatch(format!("{}: rebuilt→generate→parse differs {}", case.label, first_difference(sexp, &final_sexp)));
                        } else {
                            stats.bump("regen.identical");
                        }
                    }
                }
            }
        }
    }
}

/// What the wire format drops, applied to a darklua tree: number spelling (base, exponent),
/// method type instantiation, attribute grouping / arguments, leading `|` / `&`.
#[derive(Default)]
struct Normalise {
    method_types: u64,
    attribute_groups: u64,
}

impl NodeProcessor for Normalise {
    fn process_number_expression(&mut self, number: &mut NumberExpression) {
        *number = DecimalNumber::new(astsexp::number_value(number)).into();
    }
    fn process_function_call(&mut self, call: &mut FunctionCall) {
        if call.remove_type_instantiation_from_method() {
            self.method_types += 1;
        }
    }
    fn process_attributes(&mut self, attributes: &mut Attributes) {
        let mut flat = Attributes::new();
        for attribute in attributes.iter_attributes() {
            match attribute {
                Attribute::Name(named) => flat.append_attribute(NamedAttribute::new(named.get_identifier().get_name().as_str())),
                Attribute::Group(group) => {
                    self.attribute_groups += 1;
                    for element in group.iter_attributes() {
                        flat.append_attribute(NamedAttribute::new(element.name().get_name().as_str()));
                    }
                }
            }
        }
        *attributes = flat;
    }
    fn process_union_type(&mut self, union: &mut UnionType) {
        *union = UnionType::from(union.iter_types().cloned().collect::<Vec<_>>());
    }
    fn process_intersection_type(&mut self, intersection: &mut IntersectionType) {
        *intersection = IntersectionType::from(intersection.iter_types().cloned().collect::<Vec<_>>());
    }
}

/// (Lua source, expected wire text) written by hand from BUILDING-AST.md: pins the meaning of
/// the atoms (a forward and a reverse direction that agree on a wrong name would otherwise pass).
/// Names: a=x61 b=x62 c=x63 f=x66 m=x6d t=x74 x=x78 T=x54; 1 = f3ff0000000000000, 2 = f4000000000000000
const GOLDEN: &[(&str, &str)] = &[
    ("return nil, true, false, ...", "(block () (return nil true false vararg))"),
    ("return 1, 2, 0.5, 0x10", "(block () (return (num f3ff0000000000000) (num f4000000000000000) (num f3fe0000000000000) (num f4030000000000000)))"),
    ("return 'ab', \"\\65\"", "(block () (return (str x6162) (str x41)))"),
    ("return a and b, a or b", "(block () (return (bin and (var x61) (var x62)) (bin or (var x61) (var x62))))"),
    ("return a == b, a ~= b", "(block () (return (bin eq (var x61) (var x62)) (bin ne (var x61) (var x62))))"),
    ("return a < b, a <= b", "(block () (return (bin lt (var x61) (var x62)) (bin le (var x61) (var x62))))"),
    ("return a > b, a >= b", "(block () (return (bin gt (var x61) (var x62)) (bin ge (var x61) (var x62))))"),
    ("return a + b, a - b", "(block () (return (bin add (var x61) (var x62)) (bin sub (var x61) (var x62))))"),
    ("return a * b, a / b", "(block () (return (bin mul (var x61) (var x62)) (bin div (var x61) (var x62))))"),
    ("return a // b, a % b", "(block () (return (bin idiv (var x61) (var x62)) (bin mod (var x61) (var x62))))"),
    ("return a ^ b, a .. b", "(block () (return (bin pow (var x61) (var x62)) (bin concat (var x61) (var x62))))"),
    ("return a - b - c, a ^ b ^ c", "(block () (return (bin sub (bin sub (var x61) (var x62)) (var x63)) (bin pow (var x61) (bin pow (var x62) (var x63)))))"),
    ("return -a, not a, #a, (a)", "(block () (return (un neg (var x61)) (un not (var x61)) (un len (var x61)) (paren (var x61))))"),
    ("f(a, b) a:m() f'ab' f{a}", "(block ((callstmt (call (var x66) - t (var x61) (var x62))) (callstmt (call (var x61) x6d t)) (callstmt (call (var x66) - s (str x6162))) (callstmt (call (var x66) - b (table (pos (var x61)))))))"),
    ("return a.b, a[b], a.b.c", "(block () (return (field (var x61) x62) (index (var x61) (var x62)) (field (field (var x61) x62) x63)))"),
    ("return {a, b = c, [a] = b}", "(block () (return (table (pos (var x61)) (named x62 (var x63)) (keyed (var x61) (var x62)))))"),
    ("return if a then b elseif c then a else x", "(block () (return (ifx (var x61) (var x62) (((var x63) (var x61))) (var x78))))"),
    ("return `ab{a}c`", "(block () (return (interp (s x6162) (v (var x61)) (s x63))))"),
    ("return a :: T, f<<T>>", "(block () (return (cast (var x61) (ty x6e616d653a54)) (inst (var x66) (ty x6e616d653a54))))"),
    ("return function(a, ...) end", "(block () (return (fn (fnbody ((n x61 -)) true - - () () (block ())))))"),
    ("return function<T>(a: T): T end", "(block () (return (fn (fnbody ((n x61 (ty x6e616d653a54))) false - (ty x6e616d653a54) (x54) () (block ())))))"),
    ("a, b.c = 1, 2", "(block ((assign ((var x61) (field (var x62) x63)) ((num f3ff0000000000000) (num f4000000000000000)))))"),
    ("a += 1 a -= 1 a *= 1 a /= 1", "(block ((cassign add (var x61) (num f3ff0000000000000)) (cassign sub (var x61) (num f3ff0000000000000)) (cassign mul (var x61) (num f3ff0000000000000)) (cassign div (var x61) (num f3ff0000000000000))))"),
    ("a //= 1 a %= 1 a ^= 1 a ..= 1", "(block ((cassign idiv (var x61) (num f3ff0000000000000)) (cassign mod (var x61) (num f3ff0000000000000)) (cassign pow (var x61) (num f3ff0000000000000)) (cassign concat (var x61) (num f3ff0000000000000))))"),
    ("do break end", "(block ((do (block () break))))"),
    ("function a.b:m() continue end", "(block ((function (x61 x62) x6d (fnbody () false - - () () (block () continue)))))"),
    ("function f() end", "(block ((function (x66) - (fnbody () false - - () () (block ())))))"),
    ("@native function f() end", "(block ((function (x66) - (fnbody () false - - () (x6e6174697665) (block ())))))"),
    ("for a, b in x do end", "(block ((gfor ((n x61 -) (n x62 -)) ((var x78)) (block ()))))"),
    ("for a = 1, 2 do end for a = 1, 2, 1 do end", "(block ((nfor (n x61 -) (num f3ff0000000000000) (num f4000000000000000) - (block ())) (nfor (n x61 -) (num f3ff0000000000000) (num f4000000000000000) (num f3ff0000000000000) (block ()))))"),
    ("if a then elseif b then end if a then else end", "(block ((if (((var x61) (block ())) ((var x62) (block ()))) -) (if (((var x61) (block ()))) (block ()))))"),
    ("local a, b = 1 local c", "(block ((local local ((n x61 -) (n x62 -)) ((num f3ff0000000000000))) (local local ((n x63 -)) ())))"),
    ("const a = 1", "(block ((local const ((n x61 -)) ((num f3ff0000000000000)))))"),
    ("local function f() end", "(block ((localfn local x66 (fnbody () false - - () () (block ())))))"),
    ("repeat until a while a do end", "(block ((repeat (block ()) (var x61)) (while (var x61) (block ()))))"),
    ("type T = a export type T = typeof(a)", "(block ((typedecl false x54 (ty x6e616d653a61)) (typedecl true x54 (typeof (var x61)))))"),
    ("type function f() end", "(block ((typefn false x66 (fnbody () false - - () () (block ())))))"),
    ("return", "(block () (return))"),
    ("", "(block ())"),
];

fn check_golden(model: &mut Model, stats: &mut Stats) {
    for (code, expected) in GOLDEN {
        stats.bump("golden");
        match parse_quiet(code) {
            None => stats.mismatch(format!("golden: darklua's parser rejects `{}`", code)),
            Some(block) => {
                let sexp = astsexp::block_to_sexp(&block);
                if sexp != *expected {
                    stats.mismatch(format!("golden `{}`: {}", code, first_difference(expected, &sexp)));
                }
            }
        }
        if model.ask(&format!("ast.echo {}", expected)) != *expected {
            stats.mismatch(format!("golden `{}`: the Lean reader does not echo the expected text", code));
        }
    }
}

fn check_expressions(gen: &mut Gen, count: usize, model: &mut Model, stats: &mut Stats) {
    let exprs: Vec<Expression> = (0..count).map(|_| gen.expr(4)).collect();
    let sexps: Vec<String> = exprs.iter().map(astsexp::expr_to_sexp).collect();
    let answers = model.ask_batch(&sexps.iter().map(|s| format!("ast.echoexpr {}", s)).collect::<Vec<_>>());
    for (sexp, answer) in sexps.iter().zip(&answers) {
        stats.bump("expressions");
        if answer != sexp {
            stats.mismatch(format!("expr: Lean echoexpr differs {}", first_difference(sexp, answer)));
        }
        match astsexp::sexp_to_expr(sexp) {
            Ok(rebuilt) => {
                let again = astsexp::expr_to_sexp(&rebuilt);
                if again != *sexp {
                    stats.mismatch(format!("expr: sexp→expr→sexp differs {}", first_difference(sexp, &again)));
                }
            }
            Err(error) => stats.mismatch(format!("expr: reverse failed: {} on {}", error, sexp)),
        }
    }
}

fn mutate(tree: &Sexp, rng: &mut Rng) -> Sexp {
    // pick a random node (by walking down) and damage it
    match tree {
        Sexp::Atom(atom) => match rng.below(4) {
            0 => Sexp::Atom("-".to_owned()),
            1 => Sexp::Atom(format!("{}0", atom)),
            2 => Sexp::List(vec![]),
            _ => Sexp::Atom("nil".to_owned()),
        },
        Sexp::List(items) => {
            if items.is_empty() || rng.chance(1, 5) {
                let mut items = items.clone();
                match rng.below(5) {
                    0 if !items.is_empty() => {
                        items.remove(rng.below(items.len()));
                    }
                    1 => items.insert(rng.below(items.len() + 1), Sexp::Atom("nil".to_owned())),
                    2 if items.len() > 1 => {
                        let i = rng.below(items.len() - 1);
                        items.swap(i, i + 1);
                    }
                    3 if !items.is_empty() => {
                        let replacement = ["var", "call", "field", "index", "paren", "str", "table", "fn", "ty", "typeof", "return", "callstmt", "assign"];
                        items[0] = Sexp::Atom((*rng.pick(&replacement)).to_owned());
                    }
                    _ => items.push(Sexp::List(vec![Sexp::Atom("num".to_owned()), Sexp::Atom("f+00000000000000f".to_owned())])),
                }
                Sexp::List(items)
            } else {
                let mut items = items.clone();
                let i = rng.below(items.len());
                items[i] = mutate(&items[i], rng);
                Sexp::List(items)
            }
        }
    }
}

fn check_mutations(cases: &[Case], rng: &mut Rng, count: usize, model: &mut Model, stats: &mut Stats) {
    let small: Vec<&Case> = cases.iter().filter(|case| astsexp::block_to_sexp(&case.block).len() < 4000).collect();
    if small.is_empty() {
        return;
    }
    let mut texts: Vec<String> = vec![
        "".to_owned(),
        "(".to_owned(),
        ")".to_owned(),
        "(block)".to_owned(),
        "(block ()) (block ())".to_owned(),
        "(block () break)".to_owned(),
        "(block () (return))".to_owned(),
        "(block ((if () -)))".to_owned(),
        "(block ((function () - (fnbody () false - - () () (block ())))))".to_owned(),
        "(block () (return (num f+00000000000000f)))".to_owned(),
        "(block () (return (num f3FF0000000000000)))".to_owned(),
        "(block () (return (str X41)))".to_owned(),
        "(block () (return (str x4)))".to_owned(),
        "(block () (return (var xff)))".to_owned(),
        "(block () (return (call (num f3ff0000000000000) - t)))".to_owned(),
        "(block () (return (call (var x66) - s (str x41) (str x41))))".to_owned(),
        "(block () (return (call (var x66) - b nil)))".to_owned(),
        "(block ((callstmt (var x66))))".to_owned(),
        "(block ((assign ((paren (var x66))) (nil))))".to_owned(),
        "(block ((assign ((call (var x66) - t)) (nil))))".to_owned(),
        "(block ((cassign and (var x66) nil)))".to_owned(),
        "(block ((local local ((n x61 (ty x6e6f2d737563682d746167))) ())))".to_owned(),
    ];
    for _ in 0..count {
        let case = small[rng.below(small.len())];
        let mut tree = astsexp::block_to_tree(&case.block);
        for _ in 0..1 + rng.below(2) {
            tree = mutate(&tree, rng);
        }
        texts.push(tree.to_string());
    }
    let answers = model.ask_batch(&texts.iter().map(|s| format!("ast.echo {}", s)).collect::<Vec<_>>());
    for (text, answer) in texts.iter().zip(&answers) {
        stats.bump("mutations");
        let rust = catch_unwind(AssertUnwindSafe(|| astsexp::sexp_to_block(text)));
        let Ok(rust) = rust else {
            stats.mismatch(format!("mutation: reverse direction panicked on {}", text));
            continue;
        };
        match (answer == "error" || answer == "bad-request", rust) {
            (true, Ok(_)) => stats.mismatch(format!("mutation: Lean rejects but Rust accepts: {}", text)),
            (true, Err(_)) => stats.bump("mutations.both-reject"),
            (false, Ok(block)) => {
                let again = astsexp::block_to_sexp(&block);
                if again != *answer {
                    stats.mismatch(format!("mutation: both accept, encodings differ {} on {}", first_difference(answer, &again), text));
                } else {
                    stats.bump("mutations.both-accept");
                }
            }
            (false, Err(error)) => {
                let reason = reason_of(&error);
                if STRUCTURAL_REASONS.contains(&reason.as_str()) && reason != "syntax" {
                    stats.bump(&format!("mutations.lean-accepts-rust-refuses.{}", reason));
                } else if error.starts_with("syntax: if statement without branches")
                    || error.starts_with("syntax: function statement without a name")
                {
                    // the grammar demands `+`; the Lean reader is laxer there
                    stats.bump("mutations.lean-accepts-rust-refuses.grammar-plus");
                } else {
                    stats.mismatch(format!("mutation: Lean accepts but Rust refuses ({}): {}", error, text));
                }
            }
        }
    }
}

pub fn run(args: &[String]) -> i32 {
    let mut seed = std::env::var("VERIF_SEED").ok().and_then(|s| s.parse().ok()).unwrap_or(0u64);
    let mut random = 400usize;
    let mut verbose = false;
    let mut i = 0;
    while i < args.len() {
        match args[i].as_str() {
            "--seed" => {
                seed = args.get(i + 1).and_then(|s| s.parse().ok()).unwrap_or(0);
                i += 1;
            }
            "--random" => {
                random = args.get(i + 1).and_then(|s| s.parse().ok()).unwrap_or(400);
                i += 1;
            }
            "--verbose" => verbose = true,
            other => {
                eprintln!("astcheck: unknown argument {}", other);
                return 2;
            }
        }
        i += 1;
    }
    // deep trees: run on a big stack
    let worker = std::thread::Builder::new().stack_size(512 << 20).spawn(move || run_checks(seed, random, verbose)).unwrap();
    worker.join().unwrap_or(1)
}

fn run_checks(seed: u64, random: usize, verbose: bool) -> i32 {
    let mut stats = Stats::default();
    let mut model = Model::spawn();
    let mut cases = collect_corpus(&mut stats);

    // Rng::new maps consecutive seeds to the same SplitMix64 sequence shifted by one draw:
    // scramble once so that different seeds give unrelated streams
    let mut gen = Gen { rng: Rng(Rng::new(seed).next_u64()), weird: false };
    let mut unparsable_samples = Vec::new();
    for index in 0..random {
        gen.weird = index % 5 == 4;
        let depth = 2 + (index % 4) as u32;
        let block = gen.block(depth, false);
        if !gen.weird {
            stats.bump("random.generated");
            match generate(&block).and_then(|code| parse_quiet(&code).map(|parsed| (code, parsed))) {
                Some((_, parsed)) => {
                    stats.bump("random.generated.parsed");
                    cases.push(Case { label: format!("random-parsed#{}", index), block: parsed, parsed: true });
                }
                None => {
                    stats.bump("random.generated.rejected-by-parser");
                    let code = generate(&block).unwrap_or_default();
                    if verbose {
                        let error = Parser::default().parse(&code).err().map(|e| e.to_string()).unwrap_or_default();
                        eprintln!("REJECTED {}\n  code: {}", error.chars().take(300).collect::<String>(), code.replace('\n', " "));
                    }
                    if unparsable_samples.len() < 3 {
                        unparsable_samples.push(code);
                    }
                }
            }
        }
        cases.push(Case { label: format!("random-raw#{}{}", index, if gen.weird { "(weird)" } else { "" }), block, parsed: false });
    }

    for chunk in cases.chunks(200) {
        check_cases(chunk, &mut model, &mut stats, verbose);
    }
    check_golden(&mut model, &mut stats);
    gen.weird = false;
    check_expressions(&mut gen, random, &mut model, &mut stats);
    let mut rng = gen.rng.fork();
    check_mutations(&cases, &mut rng, random * 3, &mut model, &mut stats);

    println!("astcheck seed={} random={}", seed, random);
    for (key, value) in &stats.counts {
        println!("  {:<60} {}", key, value);
    }
    println!("nodes by kind:");
    for (key, value) in &stats.node_kinds {
        println!("  {:<60} {}", key, value);
    }
    println!("reverse failures by reason:");
    if stats.reverse_failures.is_empty() {
        println!("  (none)");
    }
    for (key, value) in &stats.reverse_failures {
        println!("  {:<60} {}", key, value);
    }
    for sample in &unparsable_samples {
        println!("sample of generated code the parser rejected: {}", sample.chars().take(300).collect::<String>());
    }
    println!("lean requests: {}", model.requests);
    if stats.mismatches.is_empty() {
        println!("astcheck: OK");
        0
    } else {
        println!("astcheck: {} MISMATCHES", stats.mismatches.len());
        1
    }
}
