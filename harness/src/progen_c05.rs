//! C05: generator of module graphs (files on memory resources) + the harness's own resolver,
//! exclude matcher, data writers and the REFERENCE program (textbook `require` with a
//! `package.loaded`-style cache). Nothing here uses darklua.
use crate::rng::Rng;
use std::collections::{BTreeMap, BTreeSet};

#[derive(Clone, Copy, Debug, PartialEq, Eq)]
pub enum Mode {
    Path,
    Luau,
}
impl Mode {
    pub fn name(self) -> &'static str {
        match self {
            Mode::Path => "path",
            Mode::Luau => "luau",
        }
    }
}

/// what a Lua module returns (the requirer knows how to observe it)
#[derive(Clone, Copy, Debug, PartialEq, Eq)]
pub enum Kind {
    Nil,
    False,
    Num,
    Str,
    Tbl,
    Fun,
    /// data file or unknown: observed with `emitv` only
    Any,
}

#[derive(Clone, Copy, Debug, PartialEq, Eq)]
pub enum Ret {
    One,
    /// no return statement at all
    None,
    /// a return statement with this many values, never exactly one: `return` (0), `return 1, 2` (2), …
    Many(u8),
}

#[derive(Clone, Copy, Debug, PartialEq, Eq)]
pub enum Form {
    LocalParen,
    LocalString,
    Stmt,
    Lazy(u8),
    TableCtor,
    Paren,
    Cond,
    Arg,
    LoopTwice,
    IfBlock,
    FieldPrefix,
    CallPrefix,
    Method,
    ClosureInTable,
    WhileCond,
    Repeat,
}

/// a call that looks like a require but must NOT be touched by the bundler
#[derive(Clone, Copy, Debug, PartialEq, Eq)]
pub enum Decoy {
    TwoArgs,
    NonLiteral,
    MethodRequire,
    TableArg,
    FieldRequire,
}

#[derive(Clone, Debug)]
pub enum Item {
    Site { literal: String, form: Form, shadow_block: bool },
    Decoy { literal: String, decoy: Decoy },
    /// `local require = function …` at file level: every later site of the file is shadowed
    ShadowHere,
}

#[derive(Clone, Debug)]
pub enum DataValue {
    Null,
    Bool(bool),
    Int(i64),
    /// an integer above i64::MAX (JSON / YAML only)
    UInt(u64),
    Float(f64),
    Str(String),
    Arr(Vec<DataValue>),
    Map(Vec<(String, DataValue)>),
}

#[derive(Clone, Debug)]
pub enum FileKind {
    Lua { prefix: String, items: Vec<Item>, ret: Ret, kind: Kind, syntax_error: bool },
    Data { value: DataValue, malformed: bool },
    /// unknown extension
    Other,
}

#[derive(Clone, Debug)]
pub struct FileSpec {
    pub path: String,
    pub kind: FileKind,
}

#[derive(Clone, Debug)]
pub struct Case {
    pub mode: Mode,
    /// files[0] is the entry
    pub files: Vec<FileSpec>,
    pub excludes: Vec<String>,
    pub modules_identifier: Option<String>,
    /// luau mode: alias name (as written in requires, e.g. `@pkg`) -> location relative to the
    /// project location (= the directory of the entry file when the configuration is given in memory)
    pub aliases: Vec<(String, String)>,
}

// ------------------------------------------------------------------ paths (own resolver)

pub fn normalize(path: &str) -> String {
    let mut out: Vec<&str> = Vec::new();
    for part in path.split('/') {
        match part {
            "" | "." => {}
            ".." => {
                if matches!(out.last(), Some(&last) if last != "..") {
                    out.pop();
                } else {
                    out.push("..");
                }
            }
            p => out.push(p),
        }
    }
    out.join("/")
}

pub fn dirname(path: &str) -> &str {
    match path.rfind('/') {
        Some(i) => &path[..i],
        None => "",
    }
}
pub fn filename(path: &str) -> &str {
    match path.rfind('/') {
        Some(i) => &path[i + 1..],
        None => path,
    }
}
pub fn extension(path: &str) -> Option<&str> {
    let name = filename(path);
    match name.rfind('.') {
        Some(0) | None => None,
        Some(i) => Some(&name[i + 1..]),
    }
}

/// Everything resolution depends on besides the requiring file and the literal.
#[derive(Clone, Debug)]
pub struct Resolver {
    pub mode: Mode,
    pub files: BTreeSet<String>,
    pub aliases: Vec<(String, String)>,
    /// project location: directory of the entry file
    pub project: String,
}

fn is_init(source: &str) -> bool {
    let name = filename(source);
    name == "init.lua" || name == "init.luau"
}

impl Resolver {
    /// directory a literal is joined to, and the part of the literal that is joined
    /// (docs: path-require-mode / luau-require-mode, Luau RFCs):
    ///  * `./x`, `../x`: the requiring file's directory (Luau: a file named `init` stands for its
    ///    directory, so relative to the directory's parent);
    ///  * Luau `@self/x`: inside the requiring file's own directory (never the parent);
    ///  * Luau `<alias>/x`: the alias location, relative to the project location — the same file
    ///    whoever requires it.
    fn base_of(&self, source: &str, literal: &str) -> Option<(String, String)> {
        if literal.starts_with("./") || literal.starts_with("../") || literal == "." || literal == ".." {
            let mut base = dirname(source).to_owned();
            if self.mode == Mode::Luau && is_init(source) {
                base = dirname(&base).to_owned();
            }
            return Some((base, literal.to_owned()));
        }
        if self.mode != Mode::Luau {
            return None;
        }
        let (head, rest) = match literal.find('/') {
            Some(i) => (&literal[..i], &literal[i + 1..]),
            None => (literal, ""),
        };
        if head == "@self" {
            return Some((dirname(source).to_owned(), rest.to_owned()));
        }
        self.aliases.iter().find(|(name, _)| name == head).map(|(_, location)| (normalize(&format!("{}/{}", self.project, location)), rest.to_owned()))
    }

    /// the exact path, then `.luau`, `.lua`, then `init` inside the directory (`init`,
    /// `init.luau`, `init.lua`); a `.lua`/`.luau` path is taken as is.
    pub fn resolve(&self, source: &str, literal: &str) -> Result<String, String> {
        let (base, rest) = match self.base_of(source, literal) {
            Some(x) => x,
            None => return Err(literal.to_owned()),
        };
        let joined = normalize(&format!("{}/{}", base, rest));
        let candidates: Vec<String> = match extension(&joined) {
            Some("lua") | Some("luau") => vec![joined.clone()],
            _ => vec![
                joined.clone(),
                format!("{}.luau", joined),
                format!("{}.lua", joined),
                format!("{}/init", joined),
                format!("{}/init.luau", joined),
                format!("{}/init.lua", joined),
            ],
        };
        for c in candidates {
            if self.files.contains(&c) {
                return Ok(c);
            }
        }
        Err(joined)
    }

    /// a spelling of `target` as seen from `source`, checked with `resolve`
    pub fn spell(&self, rng: &mut Rng, source: &str, target: &str) -> String {
        let mut base = dirname(source).to_owned();
        if self.mode == Mode::Luau && is_init(source) {
            base = dirname(&base).to_owned();
        }
        let plain = relative(&base, target);
        let strip = |plain: &str| -> Vec<String> {
            let mut options = vec![plain.to_owned()];
            if let Some(stripped) = plain.strip_suffix(".lua").or_else(|| plain.strip_suffix(".luau")) {
                options.push(stripped.to_owned());
                options.push(stripped.to_owned());
                if let Some(dir) = stripped.strip_suffix("/init") {
                    if dir != "." && dir != ".." && !dir.ends_with("/..") && !dir.starts_with('@') || dir.contains('/') {
                        options.push(dir.to_owned());
                        options.push(dir.to_owned());
                    }
                }
            }
            options
        };
        let mut options = strip(&plain);
        if self.mode == Mode::Luau {
            // `@self/…` when the target lives below the requiring file's directory
            let own = format!("{}/", dirname(source));
            if let Some(rest) = target.strip_prefix(&own) {
                for o in strip(&format!("@self/{}", rest)) {
                    options.push(o.clone());
                    options.push(o);
                }
            }
            for (name, location) in &self.aliases {
                let dir = format!("{}/", normalize(&format!("{}/{}", self.project, location)));
                if let Some(rest) = target.strip_prefix(&dir) {
                    for o in strip(&format!("{}/{}", name, rest)) {
                        options.push(o.clone());
                        options.push(o);
                    }
                }
            }
        }
        let mut choice = rng.pick(&options).clone();
        // noise: `x/../`, `./`
        if rng.chance(1, 3) {
            let (head, tail) = match choice.find('/') {
                Some(i) => (choice[..i].to_owned(), choice[i + 1..].to_owned()),
                None => (choice.clone(), String::new()),
            };
            if !tail.is_empty() {
                let noise = *rng.pick(&["sub/..", ".", "zz/..", "./.", "sub/deep/../.."]);
                choice = format!("{}/{}/{}", head, noise, tail);
            }
        }
        for candidate in [choice, plain.clone()] {
            if self.resolve(source, &candidate).as_deref() == Ok(target) {
                return candidate;
            }
        }
        plain
    }
}

/// relative spelling of `target` from directory `base` (both normalised)
fn relative(base: &str, target: &str) -> String {
    let b: Vec<&str> = base.split('/').filter(|s| !s.is_empty()).collect();
    let t: Vec<&str> = target.split('/').filter(|s| !s.is_empty()).collect();
    let mut i = 0;
    while i < b.len() && i + 1 < t.len() && b[i] == t[i] {
        i += 1;
    }
    let ups = b.len() - i;
    let mut parts: Vec<String> = Vec::new();
    if ups == 0 {
        parts.push(".".to_owned());
    }
    for _ in 0..ups {
        parts.push("..".to_owned());
    }
    for p in &t[i..] {
        parts.push((*p).to_owned());
    }
    parts.join("/")
}

// ------------------------------------------------------------------ excludes (own matcher)

/// glob subset: `**` (any number of components), `*` (within a component), literals
pub fn glob_match(pattern: &str, path: &str) -> bool {
    fn comp(p: &[u8], s: &[u8]) -> bool {
        if p.is_empty() {
            return s.is_empty();
        }
        if p[0] == b'*' {
            (0..=s.len()).any(|i| comp(&p[1..], &s[i..]))
        } else {
            !s.is_empty() && p[0] == s[0] && comp(&p[1..], &s[1..])
        }
    }
    fn go(p: &[&str], s: &[&str]) -> bool {
        match p.first() {
            None => s.is_empty(),
            Some(&"**") => (0..=s.len()).any(|i| go(&p[1..], &s[i..])),
            Some(first) => !s.is_empty() && comp(first.as_bytes(), s[0].as_bytes()) && go(&p[1..], &s[1..]),
        }
    }
    let p: Vec<&str> = pattern.split('/').collect();
    let s: Vec<&str> = path.split('/').collect();
    go(&p, &s)
}

/// what the bundler's `match_path_require_call` hands to the exclude matcher: the literal with
/// `.`/`..` folded but a leading `./` kept
pub fn literal_for_exclude(literal: &str) -> String {
    let n = normalize(literal);
    if literal.starts_with("./") && !n.starts_with("..") {
        if n.is_empty() { ".".to_owned() } else { format!("./{}", n) }
    } else {
        n
    }
}

// ------------------------------------------------------------------ data writers

fn lua_string(s: &str) -> String {
    let mut out = String::from("\"");
    for b in s.bytes() {
        match b {
            b'"' => out.push_str("\\\""),
            b'\\' => out.push_str("\\\\"),
            b'\n' => out.push_str("\\n"),
            b'\t' => out.push_str("\\t"),
            b'\r' => out.push_str("\\r"),
            32..=126 => out.push(b as char),
            _ => out.push_str(&format!("\\{:03}", b)),
        }
    }
    out.push('"');
    out
}

fn json_string(s: &str) -> String {
    let mut out = String::from("\"");
    for c in s.chars() {
        match c {
            '"' => out.push_str("\\\""),
            '\\' => out.push_str("\\\\"),
            '\n' => out.push_str("\\n"),
            '\t' => out.push_str("\\t"),
            '\r' => out.push_str("\\r"),
            c if (c as u32) < 32 => out.push_str(&format!("\\u{:04x}", c as u32)),
            c => out.push(c),
        }
    }
    out.push('"');
    out
}

const KEYWORDS: [&str; 21] = [
    "and", "break", "do", "else", "elseif", "end", "false", "for", "function", "if", "in", "local", "nil", "not", "or",
    "repeat", "return", "then", "true", "until", "while",
];

fn is_lua_identifier(s: &str) -> bool {
    let mut chars = s.chars();
    match chars.next() {
        Some(c) if c.is_ascii_alphabetic() || c == '_' => {}
        _ => return false,
    }
    chars.all(|c| c.is_ascii_alphanumeric() || c == '_') && !KEYWORDS.contains(&s)
}

fn float_text(f: f64) -> String {
    let t = format!("{:?}", f);
    t
}

impl DataValue {
    pub fn to_lua(&self) -> String {
        match self {
            DataValue::Null => "nil".to_owned(),
            DataValue::Bool(b) => b.to_string(),
            DataValue::Int(i) => i.to_string(),
            DataValue::UInt(u) => u.to_string(),
            DataValue::Float(f) => float_text(*f),
            DataValue::Str(s) => lua_string(s),
            DataValue::Arr(items) => format!("{{{}}}", items.iter().map(|v| v.to_lua()).collect::<Vec<_>>().join(", ")),
            DataValue::Map(entries) => format!(
                "{{{}}}",
                entries
                    .iter()
                    .map(|(k, v)| if is_lua_identifier(k) {
                        format!("{} = {}", k, v.to_lua())
                    } else {
                        format!("[{}] = {}", lua_string(k), v.to_lua())
                    })
                    .collect::<Vec<_>>()
                    .join(", ")
            ),
        }
    }
    pub fn to_json(&self) -> String {
        match self {
            DataValue::Null => "null".to_owned(),
            DataValue::Bool(b) => b.to_string(),
            DataValue::Int(i) => i.to_string(),
            DataValue::UInt(u) => u.to_string(),
            DataValue::Float(f) => float_text(*f),
            DataValue::Str(s) => json_string(s),
            DataValue::Arr(items) => format!("[{}]", items.iter().map(|v| v.to_json()).collect::<Vec<_>>().join(", ")),
            DataValue::Map(entries) => format!(
                "{{{}}}",
                entries.iter().map(|(k, v)| format!("{}: {}", json_string(k), v.to_json())).collect::<Vec<_>>().join(", ")
            ),
        }
    }
    /// JSON5 flavour: unquoted identifier keys, single-quoted strings where possible, trailing commas
    pub fn to_json5(&self) -> String {
        match self {
            DataValue::Str(s) if !s.contains('\'') && !s.contains('\\') && s.chars().all(|c| (c as u32) >= 32) => format!("'{}'", s),
            DataValue::Arr(items) => format!("[{}]", items.iter().map(|v| format!("{},", v.to_json5())).collect::<Vec<_>>().join(" ")),
            DataValue::Map(entries) => format!(
                "{{{}}}",
                entries
                    .iter()
                    .map(|(k, v)| if is_lua_identifier(k) { format!("{}: {},", k, v.to_json5()) } else { format!("{}: {},", json_string(k), v.to_json5()) })
                    .collect::<Vec<_>>()
                    .join(" ")
            ),
            other => other.to_json(),
        }
    }
    fn to_toml_inline(&self) -> String {
        match self {
            DataValue::Null => "\"null\"".to_owned(),
            DataValue::Arr(items) => format!("[{}]", items.iter().map(|v| v.to_toml_inline()).collect::<Vec<_>>().join(", ")),
            DataValue::Map(entries) => format!(
                "{{ {} }}",
                entries.iter().map(|(k, v)| format!("{} = {}", json_string(k), v.to_toml_inline())).collect::<Vec<_>>().join(", ")
            ),
            other => other.to_json(),
        }
    }
    pub fn to_toml(&self) -> String {
        match self {
            DataValue::Map(entries) => entries.iter().map(|(k, v)| format!("{} = {}\n", json_string(k), v.to_toml_inline())).collect(),
            _ => String::new(),
        }
    }
    pub fn has_null(&self) -> bool {
        match self {
            DataValue::Null => true,
            DataValue::Arr(items) => items.iter().any(|v| v.has_null()),
            DataValue::Map(entries) => entries.iter().any(|(_, v)| v.has_null()),
            _ => false,
        }
    }
}

/// strings long enough for the generators' long-bracket form (>= 60 bytes, or >= 20 bytes with >= 6 line
/// feeds), with the bytes that form must not contain or must treat specially: carriage returns (CRLF and lone),
/// a leading line feed, closing brackets of several levels, tabs
pub const LONG_STRINGS: [&str; 10] = [
    "first line\r\nsecond line\r\nthird line of the note\r\nfourth and last line of it\r\n",
    "a lone carriage return\rin the middle of a value that is long enough for the long form\rend",
    "a\r\nb\r\nc\r\nd\r\ne\r\nf\r\ngg\r\n",
    "l1\nl2\nl3\nl4\nl5\nl6\rl7 and a lone CR",
    "only line feeds\nin a value that is long enough\nfor the long bracket form\nof the generators\n",
    "\nstarts with a line feed and goes on for more than sixty bytes so that the long form is chosen",
    "contains ]] a closing long bracket and is longer than sixty bytes, then ]=] another one ]==] and more",
    "ends with a bracket and is longer than sixty bytes so that the long form may be chosen ]",
    "tabs\tare\twhitespace\ttoo and this value is longer than sixty bytes\twith\nline feeds\n\n\n\n\n",
    "\r\nstarts with CRLF and is long enough for the long form of the string writers, more than sixty",
];

/// Enumerated: the long strings above as the content of a txt file and as a leaf of every data format
pub fn long_strings() -> Vec<Case> {
    let mut cases = Vec::new();
    for (k, text) in LONG_STRINGS.iter().enumerate() {
        for path in ["src/data/s.txt", "src/data/s.json", "src/data/s.json5", "src/data/s.yaml", "src/data/s.yml", "src/data/s.toml"] {
            let value = if path.ends_with(".txt") {
                DataValue::Str((*text).to_owned())
            } else {
                DataValue::Map(vec![("list".to_owned(), DataValue::Arr(vec![DataValue::Str((*text).to_owned()), DataValue::Int(k as i64)])), ("text".to_owned(), DataValue::Str((*text).to_owned()))])
            };
            let value = if path.ends_with(".toml") { match value { DataValue::Map(mut e) => { e.remove(0); DataValue::Map(e) } v => v } } else { value };
            let mode = if k % 2 == 0 { Mode::Path } else { Mode::Luau };
            let literal = format!("./data/{}", filename(path));
            let entry = FileSpec {
                path: "src/main.lua".to_owned(),
                kind: FileKind::Lua {
                    prefix: String::new(),
                    items: vec![Item::Site { literal, form: Form::LocalParen, shadow_block: false }],
                    ret: Ret::One,
                    kind: Kind::Num,
                    syntax_error: false,
                },
            };
            let data = FileSpec { path: path.to_owned(), kind: FileKind::Data { value, malformed: false } };
            cases.push(Case { mode, files: vec![entry, data], excludes: Vec::new(), modules_identifier: None, aliases: Vec::new() });
        }
    }
    cases
}

/// boundary values of the numeric conversions (`rich`: also what only JSON / JSON5 / YAML can spell)
fn gen_boundary(rng: &mut Rng, rich: bool) -> DataValue {
    let ints: [i64; 8] = [i64::MAX, i64::MIN, i64::MAX - 1, 1 << 53, (1 << 53) + 1, -(1 << 53) - 1, u32::MAX as i64 + 1, i32::MIN as i64];
    let uints: [u64; 4] = [1 << 63, (1 << 63) + 1025, u64::MAX, u64::MAX - 2047];
    let floats: [f64; 7] = [9007199254740992.0, 1.7976931348623157e308, 5e-324, 2.2250738585072014e-308, 4294967296.5, -9.223372036854775808e18, 1.8446744073709552e19];
    match rng.below(if rich { 3 } else { 2 }) {
        0 => DataValue::Int(*rng.pick(&ints)),
        1 => DataValue::Float(*rng.pick(&floats)),
        _ => DataValue::UInt(*rng.pick(&uints)),
    }
}

fn gen_scalar(rng: &mut Rng, allow_null: bool, rich: bool) -> DataValue {
    if rng.chance(1, 6) {
        return gen_boundary(rng, rich);
    }
    match rng.below(if allow_null { 7 } else { 6 }) {
        0 => DataValue::Bool(rng.chance(1, 2)),
        1 => DataValue::Int(rng.range(-1000, 100000)),
        2 => DataValue::Float(*rng.pick(&[0.5, -2.25, 1000.0, 123456789.125, 1e21, 0.1])),
        3 => DataValue::Str((*rng.pick(&["", "plain", "two words", "quote\"d", "back\\slash", "line\nbreak", "tab\there", "end", "h\u{e9}llo \u{4e16}"])).to_owned()),
        4 => DataValue::Int(rng.range(0, 9)),
        5 => if rng.chance(1, 4) { DataValue::Str((*rng.pick(&LONG_STRINGS)).to_owned()) } else { DataValue::Str(format!("s{}", rng.below(100))) },
        _ => DataValue::Null,
    }
}

pub fn gen_data(rng: &mut Rng, depth: usize, allow_null: bool, rich: bool) -> DataValue {
    if depth == 0 {
        return gen_scalar(rng, allow_null, rich);
    }
    match rng.below(3) {
        0 => gen_scalar(rng, allow_null, rich),
        1 => DataValue::Arr((0..rng.below(4)).map(|_| gen_data(rng, depth - 1, false, rich)).collect()),
        _ => gen_map(rng, depth, allow_null, rich),
    }
}

pub fn gen_map(rng: &mut Rng, depth: usize, allow_null: bool, rich: bool) -> DataValue {
    let pool = ["name", "value", "list", "nested", "end", "two words", "1x", "_ok", "x-y", "Z9", "while", "caf\u{e9}"];
    let mut keys: BTreeSet<String> = BTreeSet::new();
    for _ in 0..rng.below(5) {
        keys.insert((*rng.pick(&pool)).to_owned());
    }
    DataValue::Map(keys.into_iter().map(|k| { let v = gen_data(rng, depth.saturating_sub(1), allow_null, rich); (k, v) }).collect())
}

impl Case {
    pub fn resolver(&self) -> Resolver {
        Resolver {
            mode: self.mode,
            files: self.files.iter().map(|f| f.path.clone()).collect(),
            aliases: self.aliases.clone(),
            project: dirname(&self.files[0].path).to_owned(),
        }
    }
}

// ------------------------------------------------------------------ rendering

/// one require call site as the bundler should see it (in source order)
#[derive(Clone, Debug)]
pub struct SiteInfo {
    pub literal: String,
    pub string_form: bool,
    pub shadowed: bool,
    /// "excluded" | "notfound:<q>" | "file:<p>"
    pub target: String,
}

#[derive(Clone, Debug, Default)]
pub struct Rendered {
    pub mode: String,
    pub entry: String,
    pub files: Vec<(String, String)>,
    pub excludes: Vec<String>,
    pub modules_identifier: Option<String>,
    pub aliases: Vec<(String, String)>,
    /// per file (same order as `files`): its call sites; `None` for non-Lua or unparseable files
    pub sites: Vec<Vec<SiteInfo>>,
    /// per file: "lua:one" "lua:none" "lua:many" "data" "parse-error" "bad-ext"
    pub shapes: Vec<String>,
    /// the textbook-require reference program (None when the graph is expected to fail)
    pub reference: Option<String>,
    /// per data file: `return <lua constructor>` as the harness's own writer renders the value
    pub data_lua: BTreeMap<String, String>,
    /// set when this graph is bundled together with other entries in ONE darklua run over a tree with
    /// `.luaurc` files (`aliases` is then what the closest `.luaurc` above the entry defines)
    pub batch: Option<Batch>,
}

/// several entries bundled in one darklua run
#[derive(Clone, Debug, Default)]
pub struct Batch {
    /// every entry of the run, in processing order (the entry of the graph is one of them)
    pub entries: Vec<String>,
    /// the other files of the tree: `.luaurc` files and the graphs of the other entries
    pub extra_files: Vec<(String, String)>,
}

fn kind_of(case: &Case, path: &str) -> Kind {
    for f in &case.files {
        if f.path == path {
            return match &f.kind {
                FileKind::Lua { kind, .. } => *kind,
                _ => Kind::Any,
            };
        }
    }
    Kind::Any
}

fn observe(var: &str, kind: Kind) -> String {
    match kind {
        Kind::Tbl => format!("{v}.hits = {v}.hits + 1 emit(\"hits\", {v}.name, {v}.hits)", v = var),
        Kind::Fun => format!("emit(\"ret\", {}(1))", var),
        _ => format!("emitv({})", var),
    }
}

const REF_REQUIRE: &str = "__ref_require";

/// renders one Lua file twice: the real source and the reference body
fn render_lua(case: &Case, file_index: usize, resolver: &Resolver) -> (String, String, Vec<SiteInfo>) {
    let spec = &case.files[file_index];
    let (prefix, items, ret, kind, syntax_error) = match &spec.kind {
        FileKind::Lua { prefix, items, ret, kind, syntax_error } => (prefix, items, *ret, *kind, *syntax_error),
        _ => unreachable!(),
    };
    let is_entry = file_index == 0;
    let mut real = String::new();
    let mut refr = String::new();
    let mut sites = Vec::new();
    let both = |real: &mut String, refr: &mut String, line: &str| {
        real.push_str(line);
        real.push('\n');
        refr.push_str(line);
        refr.push('\n');
    };
    both(&mut real, &mut refr, &format!("local _MOD = {}", lua_string(&spec.path)));
    both(&mut real, &mut refr, &format!("emit(\"load\", {})", lua_string(&spec.path)));
    both(&mut real, &mut refr, "local counter = 0");
    both(&mut real, &mut refr, &format!("local state = {{ name = {}, hits = 0 }}", lua_string(&spec.path)));
    both(&mut real, &mut refr, "shared_count = (shared_count or 0) + 1");
    if !prefix.is_empty() {
        both(&mut real, &mut refr, "do");
        both(&mut real, &mut refr, prefix);
        both(&mut real, &mut refr, "end");
    }
    let fake = "function(p) emit(\"fake\", p) return 7 end";
    let mut file_shadow = false;
    for (k, item) in items.iter().enumerate() {
        match item {
            Item::ShadowHere => {
                both(&mut real, &mut refr, &format!("local require = {}", fake));
                file_shadow = true;
            }
            Item::Decoy { literal, decoy } => {
                let lit = lua_string(literal);
                let line = match decoy {
                    Decoy::TwoArgs => format!("emitv(require({}, 1))", lit),
                    Decoy::NonLiteral => format!("local nm{k} = {} emitv(require(nm{k}))", lit, k = k),
                    Decoy::MethodRequire => format!("local rq{k} = {{ m = function(self, p) emit(\"m\", p) return 3 end }} emitv(rq{k}:m({}))", lit, k = k),
                    Decoy::TableArg => "emitv(require({}))".to_owned(),
                    Decoy::FieldRequire => format!("state.require = function(p) emit(\"field\", p) return 4 end emitv(state.require({}))", lit),
                };
                both(&mut real, &mut refr, &line);
            }
            Item::Site { literal, form, shadow_block } => {
                let shadowed = file_shadow || *shadow_block;
                let target = if case.excludes.iter().any(|e| glob_match(e, &literal_for_exclude(literal))) {
                    "excluded".to_owned()
                } else {
                    match resolver.resolve(&spec.path, literal) {
                        Ok(p) => format!("file:{}", p),
                        Err(q) => format!("notfound:{}", q),
                    }
                };
                // textbook: a call of the GLOBAL require with a resolvable, non-excluded name loads the module
                let inlinable = !shadowed && target.starts_with("file:");
                let target_kind = if inlinable { kind_of(case, &target[5..]) } else { Kind::Any };
                let mut form = *form;
                if shadowed || !inlinable {
                    if !matches!(form, Form::LocalString | Form::Stmt | Form::Arg) {
                        form = Form::LocalParen;
                    }
                }
                match form {
                    Form::FieldPrefix | Form::Method if target_kind != Kind::Tbl => form = Form::Arg,
                    Form::CallPrefix if target_kind != Kind::Fun => form = Form::Arg,
                    _ => {}
                }
                let string_form = form == Form::LocalString;
                let lit = lua_string(literal);
                let (call_real, call_ref) = if string_form {
                    (
                        format!("require {}", lit),
                        if inlinable { format!("{} {}", REF_REQUIRE, lua_string(&target[5..])) } else { format!("require {}", lit) },
                    )
                } else {
                    (
                        format!("require({})", lit),
                        if inlinable { format!("{}({})", REF_REQUIRE, lua_string(&target[5..])) } else { format!("require({})", lit) },
                    )
                };
                let var = format!("dep{}", k);
                let obs = observe(&var, target_kind);
                let template = match form {
                    Form::LocalParen | Form::LocalString => format!("local {v} = CALL {o}", v = var, o = obs),
                    Form::Stmt => "CALL".to_owned(),
                    Form::Lazy(n) => {
                        let mut s = format!("local function lazy{k}() return CALL end", k = k);
                        for _ in 0..n {
                            s.push_str(&format!(" do local {v} = lazy{k}() {o} end", v = var, k = k, o = obs));
                        }
                        s
                    }
                    Form::TableCtor => format!("local tab{k} = {{ CALL, n = 1 }} local {v} = tab{k}[1] {o}", k = k, v = var, o = obs),
                    Form::Paren => format!("local {v} = (CALL) {o}", v = var, o = obs),
                    Form::Cond => format!("local {v} = flag1() and CALL or nil emitv(type({v}))", v = var),
                    Form::Arg => "emitv(CALL)".to_owned(),
                    Form::LoopTwice => format!("for i = 1, 2 do local {v} = CALL {o} end", v = var, o = obs),
                    Form::IfBlock => format!("if flag2() then local {v} = CALL {o} end", v = var, o = obs),
                    Form::FieldPrefix => "emit(\"name\", CALL.name)".to_owned(),
                    Form::CallPrefix => "emit(\"ret\", CALL(2))".to_owned(),
                    Form::Method => "emit(\"m\", CALL:describe())".to_owned(),
                    Form::ClosureInTable => format!("local box{k} = {{ get = function() return CALL end }} local {v} = box{k}.get() {o}", k = k, v = var, o = obs),
                    Form::WhileCond => format!("local n{k} = 0 while n{k} < 2 and CALL ~= 12345 do n{k} = n{k} + 1 end", k = k),
                    Form::Repeat => format!("repeat local {v} = CALL {o} until true", v = var, o = obs),
                };
                let (open, close) = if *shadow_block { (format!("do local require = {} ", fake), " end") } else { (String::new(), "") };
                real.push_str(&format!("{}{}{}\n", open, template.replace("CALL", &call_real), close));
                refr.push_str(&format!("{}{}{}\n", open, template.replace("CALL", &call_ref), close));
                sites.push(SiteInfo { literal: literal.clone(), string_form, shadowed, target });
            }
        }
    }
    let tail = match ret {
        Ret::None => "emit(\"end\", _MOD)".to_owned(),
        Ret::Many(n) => {
            let values: Vec<String> = (1..=n).map(|v| v.to_string()).collect();
            format!("return {}", values.join(", ")).trim_end().to_owned()
        }
        Ret::One => match kind {
            Kind::Nil => "return nil".to_owned(),
            Kind::False => "return false".to_owned(),
            Kind::Num => format!("return {}.5", file_index),
            Kind::Str | Kind::Any => "return _MOD .. \"!\"".to_owned(),
            Kind::Tbl => "state.describe = function(self) counter = counter + 1 return self.name .. counter end return state".to_owned(),
            Kind::Fun => "return function(x) counter = counter + 1 emit(\"call\", _MOD, counter) return counter + x end".to_owned(),
        },
    };
    let tail = if is_entry && ret == Ret::One { "return { counter, state.name, shared_count }".to_owned() } else { tail };
    both(&mut real, &mut refr, &tail);
    if syntax_error {
        real.push_str("local = (\n");
    }
    (real, refr, sites)
}

pub fn data_text(path: &str, value: &DataValue, malformed: bool) -> String {
    let text = match extension(path) {
        Some("json") | Some("yaml") | Some("yml") => value.to_json(),
        Some("json5") => value.to_json5(),
        Some("toml") => value.to_toml(),
        _ => match value {
            DataValue::Str(s) => s.clone(),
            other => other.to_json(),
        },
    };
    if malformed && extension(path) != Some("txt") {
        // certainly not JSON / JSON5 / YAML / TOML, whatever the value was
        let _ = text;
        match extension(path) {
            Some("toml") => "a = = 1\n[[\n".to_owned(),
            _ => "{ \"a\": [1, 2, }".to_owned(),
        }
    } else {
        text
    }
}

pub fn render(case: &Case) -> Rendered {
    let resolver = case.resolver();
    let mut out = Rendered {
        mode: case.mode.name().to_owned(),
        entry: case.files[0].path.clone(),
        excludes: case.excludes.clone(),
        modules_identifier: case.modules_identifier.clone(),
        aliases: case.aliases.clone(),
        ..Default::default()
    };
    let mut reference_bodies: BTreeMap<String, String> = BTreeMap::new();
    let mut entry_ref = String::new();
    for (i, spec) in case.files.iter().enumerate() {
        match &spec.kind {
            FileKind::Lua { ret, syntax_error, .. } => {
                let (real, refr, sites) = render_lua(case, i, &resolver);
                out.files.push((spec.path.clone(), real));
                if *syntax_error {
                    out.sites.push(Vec::new());
                    out.shapes.push("parse-error".to_owned());
                } else {
                    out.sites.push(sites);
                    out.shapes.push(match ret { Ret::One => "lua:one", Ret::None => "lua:none", Ret::Many(_) => "lua:many" }.to_owned());
                }
                if i == 0 {
                    entry_ref = refr.clone();
                }
                reference_bodies.insert(spec.path.clone(), refr);
            }
            FileKind::Data { value, malformed } => {
                out.files.push((spec.path.clone(), data_text(&spec.path, value, *malformed)));
                out.sites.push(Vec::new());
                out.shapes.push(if *malformed && extension(&spec.path) != Some("txt") { "parse-error" } else { "data" }.to_owned());
                let lua = if extension(&spec.path) == Some("txt") {
                    lua_string(&data_text(&spec.path, value, false))
                } else {
                    value.to_lua()
                };
                out.data_lua.insert(spec.path.clone(), format!("return {}\n", lua));
                reference_bodies.insert(spec.path.clone(), format!("return {}\n", lua));
            }
            FileKind::Other => {
                out.files.push((spec.path.clone(), "return 1\n".to_owned()));
                out.sites.push(Vec::new());
                out.shapes.push("bad-ext".to_owned());
            }
        }
    }
    // the reference program: textbook require
    let mut reference = String::new();
    reference.push_str("local __ref_loaded, __ref_modules = {}, {}\n");
    reference.push_str("local function __ref_require(name)\n  local box = __ref_loaded[name]\n  if box == nil then\n    box = { value = (__ref_modules[name]()) }\n    __ref_loaded[name] = box\n  end\n  return box.value\nend\n");
    for (path, body) in &reference_bodies {
        reference.push_str(&format!("__ref_modules[{}] = function()\n{}end\n", lua_string(path), body));
    }
    reference.push_str(&entry_ref);
    out.reference = Some(reference);
    out
}

// ------------------------------------------------------------------ case generation

pub const LUA_POOL: [&str; 22] = [
    "src/a.lua", "src/b.luau", "src/c.lua", "src/sub/d.lua", "src/sub/init.lua", "src/sub/deep/e.luau", "src/util/init.luau",
    "lib/f.lua", "src/g.lua", "src/sub/deep/init.lua", "lib/h/i.lua", "src/a/init.lua",
    // the same tail in several directories: `@self/util`, `./util` mean different files there
    "src/util.lua", "src/sub/util.lua", "src/sub/deep/util.lua", "lib/util.lua", "lib/h/util.lua", "lib/h/init.lua",
    // a root directory name nested again: each of these ENDS WITH (component-wise) another file of the pool
    "src/vendor/src/util.lua", "lib/h/lib/util.lua", "src/vendor/src/a.lua", "src/sub/src/sub/d.lua",
];
pub const DATA_POOL: [&str; 9] = [
    "src/data/cfg.json", "src/data/cfg.json5", "src/data/info.yaml", "src/data/info.yml", "src/data/conf.toml", "src/data/note.txt", "lib/k.json",
    "src/pkg/src/data/cfg.json", "lib/h/lib/k.json",
];

pub struct GenOptions {
    pub defects: bool,
    pub cycles: bool,
    pub module_shadow: bool,
}

fn pick_form(rng: &mut Rng) -> Form {
    match rng.below(18) {
        0 | 1 => Form::LocalParen,
        2 => Form::LocalString,
        3 => Form::Stmt,
        4 => Form::Lazy(rng.below(3) as u8),
        5 => Form::TableCtor,
        6 => Form::Paren,
        7 => Form::Cond,
        8 => Form::Arg,
        9 => Form::LoopTwice,
        10 => Form::IfBlock,
        11 => Form::FieldPrefix,
        12 => Form::CallPrefix,
        13 => Form::Method,
        14 => Form::ClosureInTable,
        15 => Form::WhileCond,
        16 => Form::Repeat,
        _ => Form::Lazy(2),
    }
}

pub fn gen_case(rng: &mut Rng, opts: &GenOptions, prefix_gen: &mut dyn FnMut(&mut Rng) -> String) -> Case {
    let mode = if rng.chance(1, 2) { Mode::Path } else { Mode::Luau };
    let n_lua = 1 + rng.below(7);
    let n_data = rng.below(3);
    let mut lua_paths: Vec<&str> = LUA_POOL.to_vec();
    rng.shuffle(&mut lua_paths);
    lua_paths.truncate(n_lua);
    let mut data_paths: Vec<&str> = DATA_POOL.to_vec();
    rng.shuffle(&mut data_paths);
    data_paths.truncate(n_data);
    let mut paths: Vec<String> = vec!["src/main.lua".to_owned()];
    paths.extend(lua_paths.iter().map(|s| (*s).to_owned()));
    paths.extend(data_paths.iter().map(|s| (*s).to_owned()));
    let mut extra_files: Vec<FileSpec> = Vec::new();
    let aliases: Vec<(String, String)> = if mode == Mode::Luau && rng.chance(1, 2) {
        let mut a = vec![("@pkg".to_owned(), "../lib".to_owned())];
        if rng.chance(1, 2) {
            a.push(("@sub".to_owned(), "./sub".to_owned()));
        }
        // aliases without a leading `@` are a listed C15 finding (never consulted in luau mode): not generated
        if rng.chance(1, 3) {
            a.push(("@data".to_owned(), "data".to_owned()));
        }
        a
    } else {
        Vec::new()
    };
    let resolver = Resolver { mode, files: paths.iter().cloned().collect(), aliases: aliases.clone(), project: "src".to_owned() };
    let excludes: Vec<String> = if rng.chance(1, 3) {
        let mut e = vec![(*rng.pick(&["@ext/**", "./vendor/**", "**/*.skip", "./ext/thing"])).to_owned()];
        if rng.chance(1, 3) {
            e.push("**/skipped".to_owned());
        }
        e
    } else {
        Vec::new()
    };
    let n_total = paths.len();
    let n_code = 1 + n_lua;
    let mut files: Vec<FileSpec> = Vec::new();
    for i in 0..n_total {
        let path = paths[i].clone();
        if i >= n_code {
            let allow_null = extension(&path) != Some("toml");
            let value = match extension(&path) {
                Some("txt") => DataValue::Str((*rng.pick(&["hello\nworld\n", "", "one line", "quote \" and \\ backslash", LONG_STRINGS[0], LONG_STRINGS[1], LONG_STRINGS[2], LONG_STRINGS[3]])).to_owned()),
                Some("toml") => gen_map(rng, 2, false, false),
                _ => if rng.chance(3, 4) { gen_map(rng, 2, allow_null, true) } else { gen_data(rng, 2, allow_null, true) },
            };
            let malformed = opts.defects && rng.chance(1, 10);
            files.push(FileSpec { path, kind: FileKind::Data { value, malformed } });
            continue;
        }
        let mut items: Vec<Item> = Vec::new();
        // dependencies: later files only (DAG), entry may take any
        let later: Vec<usize> = ((i + 1)..n_total).collect();
        let n_deps = if later.is_empty() { 0 } else { rng.below(4).min(later.len() + 1) };
        for _ in 0..n_deps {
            let j = *rng.pick(&later);
            let literal = resolver.spell(rng, &path, &paths[j]);
            let shadow_block = (i == 0 || opts.module_shadow) && rng.chance(1, 12);
            items.push(Item::Site { literal: literal.clone(), form: pick_form(rng), shadow_block });
            if rng.chance(1, 4) {
                // the same file again, spelled differently
                let literal = resolver.spell(rng, &path, &paths[j]);
                items.push(Item::Site { literal, form: pick_form(rng), shadow_block: false });
            }
        }
        if opts.cycles && i > 0 && rng.chance(1, 3) {
            let j = rng.below(i + 1);
            let literal = resolver.spell(rng, &path, &paths[j]);
            items.push(Item::Site { literal, form: Form::LocalParen, shadow_block: false });
        }
        if rng.chance(1, 5) {
            let decoy = *rng.pick(&[Decoy::TwoArgs, Decoy::NonLiteral, Decoy::MethodRequire, Decoy::TableArg, Decoy::FieldRequire]);
            items.push(Item::Decoy { literal: "./a".to_owned(), decoy });
        }
        if !excludes.is_empty() && rng.chance(1, 2) {
            let literal = match excludes[0].as_str() {
                "@ext/**" => "@ext/lib/thing",
                "./vendor/**" => "./vendor/pkg",
                "**/*.skip" => "./some/file.skip",
                _ => "./ext/thing",
            };
            items.push(Item::Site { literal: literal.to_owned(), form: *rng.pick(&[Form::LocalParen, Form::Arg, Form::Stmt, Form::LocalString]), shadow_block: false });
        }
        if opts.defects && rng.chance(1, 8) {
            items.push(Item::Site { literal: (*rng.pick(&["./missing", "../nowhere/x.lua", "./sub/absent"])).to_owned(), form: Form::LocalParen, shadow_block: false });
        }
        if opts.defects && rng.chance(1, 12) {
            // unknown extension, or (since the fix of C05.F2) no extension at all
            let ext = if rng.chance(1, 2) { ".bin" } else { "" };
            let p = format!("{}/blob{}{}", dirname(&path), i, ext);
            if !extra_files.iter().any(|f| f.path == p) {
                extra_files.push(FileSpec { path: p.clone(), kind: FileKind::Other });
            }
            items.push(Item::Site { literal: format!("./blob{}{}", i, ext), form: Form::LocalParen, shadow_block: false });
        }
        rng.shuffle(&mut items);
        if i == 0 && rng.chance(1, 10) {
            let at = rng.below(items.len() + 1);
            items.insert(at, Item::ShadowHere);
        }
        if i > 0 && opts.module_shadow && rng.chance(1, 3) {
            let at = rng.below(items.len() + 1);
            items.insert(at, Item::ShadowHere);
        }
        let kind = *rng.pick(&[Kind::Nil, Kind::False, Kind::Num, Kind::Str, Kind::Tbl, Kind::Tbl, Kind::Fun, Kind::Fun]);
        let ret = if i > 0 && opts.defects && rng.chance(1, 10) { if rng.chance(1, 3) { Ret::None } else { Ret::Many(*rng.pick(&[0u8, 0, 2, 3])) } } else { Ret::One };
        let syntax_error = i > 0 && opts.defects && rng.chance(1, 12);
        let prefix = if rng.chance(1, 3) { prefix_gen(rng) } else { String::new() };
        files.push(FileSpec { path, kind: FileKind::Lua { prefix, items, ret, kind, syntax_error } });
    }
    // the blob files need Luau-mode-agnostic literals: fix them up for init sources in luau mode
    files.extend(extra_files);
    let modules_identifier = if rng.chance(1, 6) { Some("__M".to_owned()) } else { None };
    Case { mode, files, excludes, modules_identifier, aliases }
}

/// Luau mode: `k` directories, each with a module and its own `util`; every module obtains its
/// sibling through the SAME literal (`@self/util` or `./util`), the entry requires them all, and an
/// alias literal reaches one shared file from everywhere. A resolver that remembers the answer per
/// literal gives every module the first directory's `util`.
pub fn self_twins(rng: &mut Rng) -> Case {
    let dirs_pool = ["src/one", "src/two", "src/one/inner", "lib/three", "src/four"];
    let k = 2 + rng.below(3);
    let mut dirs: Vec<&str> = dirs_pool.to_vec();
    rng.shuffle(&mut dirs);
    dirs.truncate(k);
    let literal = if rng.chance(3, 4) { "@self/util" } else { "./util" };
    let with_alias = rng.chance(1, 2);
    let mut files: Vec<FileSpec> = Vec::new();
    let mut entry_items = Vec::new();
    let mut paths: Vec<String> = vec!["src/main.lua".to_owned()];
    let mut modules: Vec<(String, String)> = Vec::new();
    for d in &dirs {
        // `./util` from an init file means the parent's util in Luau mode: use plain files there
        let module = if literal == "@self/util" && rng.chance(1, 2) { format!("{}/init.lua", d) } else { format!("{}/mod.lua", d) };
        paths.push(module.clone());
        paths.push(format!("{}/util.lua", d));
        modules.push((module, format!("{}/util.lua", d)));
    }
    if with_alias {
        paths.push("lib/shared.lua".to_owned());
    }
    let aliases = if with_alias { vec![("@pkg".to_owned(), "../lib".to_owned())] } else { Vec::new() };
    let resolver = Resolver { mode: Mode::Luau, files: paths.iter().cloned().collect(), aliases: aliases.clone(), project: "src".to_owned() };
    for (module, _) in &modules {
        entry_items.push(Item::Site { literal: resolver.spell(rng, "src/main.lua", module), form: pick_form(rng), shadow_block: false });
    }
    if with_alias {
        entry_items.push(Item::Site { literal: "@pkg/shared".to_owned(), form: Form::LocalParen, shadow_block: false });
    }
    rng.shuffle(&mut entry_items);
    files.push(FileSpec { path: "src/main.lua".to_owned(), kind: FileKind::Lua { prefix: String::new(), items: entry_items, ret: Ret::One, kind: Kind::Num, syntax_error: false } });
    for (module, util) in &modules {
        let mut items = vec![Item::Site { literal: literal.to_owned(), form: pick_form(rng), shadow_block: false }];
        if rng.chance(1, 3) {
            items.push(Item::Site { literal: literal.to_owned(), form: pick_form(rng), shadow_block: false });
        }
        if with_alias {
            items.push(Item::Site { literal: "@pkg/shared".to_owned(), form: pick_form(rng), shadow_block: false });
        }
        rng.shuffle(&mut items);
        let kind = *rng.pick(&[Kind::Tbl, Kind::Fun, Kind::Str]);
        files.push(FileSpec { path: module.clone(), kind: FileKind::Lua { prefix: String::new(), items, ret: Ret::One, kind, syntax_error: false } });
        let kind = *rng.pick(&[Kind::Tbl, Kind::Fun, Kind::Str, Kind::Num, Kind::False]);
        files.push(FileSpec { path: util.clone(), kind: FileKind::Lua { prefix: String::new(), items: Vec::new(), ret: Ret::One, kind, syntax_error: false } });
    }
    if with_alias {
        files.push(FileSpec { path: "lib/shared.lua".to_owned(), kind: FileKind::Lua { prefix: String::new(), items: Vec::new(), ret: Ret::One, kind: Kind::Tbl, syntax_error: false } });
    }
    Case { mode: Mode::Luau, files, excludes: Vec::new(), modules_identifier: None, aliases }
}

/// Luau mode: ONE directory holding `init` and sibling modules that all write the SAME relative
/// literal (`./util`, `../util`, `./lib/util` …). For the `init` file the literal is relative to
/// the directory's parent, for its siblings to the directory itself, so the same (directory,
/// literal) pair designates two different files — both exist and return different values. The
/// order in which the entry reaches the requirers is random, and a second directory repeats the
/// pattern so that (directory, literal) and (literal) alone are both wrong keys.
pub fn init_siblings(rng: &mut Rng) -> Case {
    let dirs_pool = ["src/p/x", "src/p/y", "lib/q/z", "src/w"];
    let n_dirs = 1 + rng.below(2);
    let mut dirs: Vec<&str> = dirs_pool.to_vec();
    rng.shuffle(&mut dirs);
    dirs.truncate(n_dirs);
    let literal = *rng.pick(&["./util", "./util", "../util", "./lib/util", "./util.lua"]);
    let init_name = if rng.chance(1, 2) { "init.lua" } else { "init.luau" };
    let mut requirers: Vec<String> = Vec::new();
    for d in &dirs {
        requirers.push(format!("{}/{}", d, init_name));
        requirers.push(format!("{}/mod.lua", d));
        if rng.chance(1, 3) {
            requirers.push(format!("{}/other.luau", d));
        }
    }
    // every file the literal designates from some requirer must exist
    let mut paths: Vec<String> = vec!["src/main.lua".to_owned()];
    paths.extend(requirers.iter().cloned());
    let probe = Resolver { mode: Mode::Luau, files: BTreeSet::new(), aliases: Vec::new(), project: "src".to_owned() };
    let mut targets: Vec<String> = Vec::new();
    for r in &requirers {
        if let Err(wanted) = probe.resolve(r, literal) {
            let file = if wanted.ends_with(".lua") { wanted } else { format!("{}.{}", wanted, if rng.chance(1, 2) { "lua" } else { "luau" }) };
            if !targets.contains(&file) && !paths.contains(&file) {
                targets.push(file);
            }
        }
    }
    // a `.lua` and a `.luau` spelling of one target would shadow each other: keep the first per stem
    let mut seen_stems: BTreeSet<String> = BTreeSet::new();
    targets.retain(|t| seen_stems.insert(t.rsplit_once('.').map(|x| x.0.to_owned()).unwrap_or_else(|| t.clone())));
    paths.extend(targets.iter().cloned());
    let resolver = Resolver { mode: Mode::Luau, files: paths.iter().cloned().collect(), aliases: Vec::new(), project: "src".to_owned() };
    let mut entry_items: Vec<Item> = requirers
        .iter()
        .map(|r| Item::Site { literal: resolver.spell(rng, "src/main.lua", r), form: pick_form(rng), shadow_block: false })
        .collect();
    rng.shuffle(&mut entry_items);
    let mut files = vec![FileSpec { path: "src/main.lua".to_owned(), kind: FileKind::Lua { prefix: String::new(), items: entry_items, ret: Ret::One, kind: Kind::Num, syntax_error: false } }];
    for r in &requirers {
        let mut items = vec![Item::Site { literal: literal.to_owned(), form: pick_form(rng), shadow_block: false }];
        if rng.chance(1, 4) {
            items.push(Item::Site { literal: literal.to_owned(), form: pick_form(rng), shadow_block: false });
        }
        let kind = *rng.pick(&[Kind::Tbl, Kind::Fun, Kind::Str, Kind::Num]);
        files.push(FileSpec { path: r.clone(), kind: FileKind::Lua { prefix: String::new(), items, ret: Ret::One, kind, syntax_error: false } });
    }
    for t in &targets {
        let kind = *rng.pick(&[Kind::Tbl, Kind::Fun, Kind::Str, Kind::Num, Kind::False, Kind::Nil]);
        files.push(FileSpec { path: t.clone(), kind: FileKind::Lua { prefix: String::new(), items: Vec::new(), ret: Ret::One, kind, syntax_error: false } });
    }
    Case { mode: Mode::Luau, files, excludes: Vec::new(), modules_identifier: None, aliases: Vec::new() }
}

/// Enumerated: every shape of a module's final statement around the "exactly one value" rule —
/// no return, `return` with 0, 2, 3 values — required directly or through a well-formed module,
/// once or twice, in both modes; plus entries with those shapes (legal: the entry is not a module).
pub fn return_shapes() -> Vec<Case> {
    let mut cases = Vec::new();
    let lua = |path: &str, items: Vec<Item>, ret: Ret, kind: Kind| FileSpec {
        path: path.to_owned(),
        kind: FileKind::Lua { prefix: String::new(), items, ret, kind, syntax_error: false },
    };
    let site = |literal: &str, form: Form| Item::Site { literal: literal.to_owned(), form, shadow_block: false };
    for mode in [Mode::Path, Mode::Luau] {
        for ret in [Ret::None, Ret::Many(0), Ret::Many(2), Ret::Many(3)] {
            for via in [false, true] {
                for twice in [false, true] {
                    let mut entry_items = vec![site(if via { "./mid" } else { "./bad" }, Form::LocalParen)];
                    if twice {
                        entry_items.push(site("./bad.lua", Form::Arg));
                    }
                    let mut files = vec![lua("src/main.lua", entry_items, Ret::One, Kind::Num)];
                    if via {
                        files.push(lua("src/mid.lua", vec![site("./bad", Form::LocalString)], Ret::One, Kind::Tbl));
                    }
                    files.push(lua("src/bad.lua", Vec::new(), ret, Kind::Num));
                    cases.push(Case { mode, files, excludes: Vec::new(), modules_identifier: None, aliases: Vec::new() });
                }
            }
            // the same shape on the ENTRY is fine
            let files = vec![lua("src/main.lua", vec![site("./ok", Form::LocalParen)], ret, Kind::Num), lua("src/ok.lua", Vec::new(), Ret::One, Kind::Str)];
            cases.push(Case { mode, files, excludes: Vec::new(), modules_identifier: None, aliases: Vec::new() });
        }
    }
    cases
}

/// Files whose path is a component-wise SUFFIX of another file's path (a root directory name nested
/// again: `src/vendor/src/util.lua` ends with `src/util.lua`), required long→short, short→long, in
/// chains and diamonds. Comparing paths by anything weaker than equality (suffix, file name, …)
/// mistakes such graphs for cycles or merges distinct files.
pub fn nested_roots(rng: &mut Rng) -> Case {
    let families: [&[&str]; 5] = [
        &["src/util.lua", "src/vendor/src/util.lua", "src/vendor/src/vendor/src/util.lua"],
        &["lib/util.lua", "lib/h/lib/util.lua"],
        &["src/data/cfg.json", "src/pkg/src/data/cfg.json"],
        &["src/sub/init.lua", "src/x/src/sub/init.lua"],
        &["src/a.luau", "lib/src/a.luau", "lib/lib/src/a.luau"],
    ];
    let mode = if rng.chance(1, 2) { Mode::Path } else { Mode::Luau };
    let family = *rng.pick(&families);
    let mut chain: Vec<&str> = family.to_vec();
    // long → short, short → long, or shuffled
    match rng.below(3) {
        0 => chain.reverse(),
        1 => {}
        _ => rng.shuffle(&mut chain),
    }
    let mut paths: Vec<String> = vec!["src/main.lua".to_owned()];
    paths.extend(chain.iter().map(|s| (*s).to_owned()));
    let resolver = Resolver { mode, files: paths.iter().cloned().collect(), aliases: Vec::new(), project: "src".to_owned() };
    let n = paths.len();
    let mut files = Vec::new();
    for i in 0..n {
        let path = paths[i].clone();
        if extension(&path) == Some("json") {
            files.push(FileSpec { path, kind: FileKind::Data { value: gen_map(rng, 1, true, true), malformed: false } });
            continue;
        }
        let mut items = Vec::new();
        // the chain edge, plus (sometimes) every later file: diamonds
        for j in (i + 1)..n {
            if j == i + 1 || rng.chance(1, 3) {
                items.push(Item::Site { literal: resolver.spell(rng, &path, &paths[j]), form: pick_form(rng), shadow_block: false });
            }
        }
        // the entry also reaches a random later file directly (so that it may be cached before it is
        // required from the file it is a suffix of)
        if i == 0 && n > 2 && rng.chance(1, 2) {
            let j = 2 + rng.below(n - 2);
            let at = rng.below(items.len() + 1);
            items.insert(at, Item::Site { literal: resolver.spell(rng, &path, &paths[j]), form: pick_form(rng), shadow_block: false });
        }
        let kind = *rng.pick(&[Kind::Tbl, Kind::Fun, Kind::Str, Kind::Num]);
        files.push(FileSpec { path, kind: FileKind::Lua { prefix: String::new(), items, ret: Ret::One, kind, syntax_error: false } });
    }
    Case { mode, files, excludes: Vec::new(), modules_identifier: None, aliases: Vec::new() }
}

/// `small_graph` on files whose paths are nested suffixes of one another:
/// node i lives at `src/` + `v/src/` × i + `m.lua` (node 0, the entry, at `src/m.lua`)
pub fn small_graph_nested(n: usize, mask: u32, mode: Mode) -> Case {
    let path = |i: usize| format!("src/{}m.lua", "v/src/".repeat(i));
    let paths: Vec<String> = (0..n).map(path).collect();
    let resolver = Resolver { mode, files: paths.iter().cloned().collect(), aliases: Vec::new(), project: "src".to_owned() };
    let mut files = Vec::new();
    for i in 0..n {
        let mut items = Vec::new();
        for j in 0..n {
            if mask >> (i * n + j) & 1 == 1 {
                let base = dirname(&paths[i]).to_owned();
                let literal = relative(&base, &paths[j]);
                debug_assert_eq!(resolver.resolve(&paths[i], &literal).as_deref(), Ok(paths[j].as_str()));
                items.push(Item::Site { literal, form: Form::LocalParen, shadow_block: false });
            }
        }
        files.push(FileSpec {
            path: paths[i].clone(),
            kind: FileKind::Lua { prefix: String::new(), items, ret: Ret::One, kind: Kind::Num, syntax_error: false },
        });
    }
    Case { mode, files, excludes: Vec::new(), modules_identifier: None, aliases: Vec::new() }
}

/// Enumerated: boundary values of the number conversions in bundled data files of every format
pub fn data_boundaries() -> Vec<Case> {
    let mut cases = Vec::new();
    let ints: Vec<DataValue> = [i64::MAX, i64::MIN, (1 << 53) + 1, -(1 << 53) - 1].iter().map(|v| DataValue::Int(*v)).collect();
    let uints: Vec<DataValue> = [1u64 << 63, (1 << 63) + 1025, u64::MAX, u64::MAX - 2047].iter().map(|v| DataValue::UInt(*v)).collect();
    let floats: Vec<DataValue> =
        [9007199254740992.0, 1.7976931348623157e308, 5e-324, 2.2250738585072014e-308, -9.223372036854775808e18, 1.8446744073709552e19].iter().map(|v| DataValue::Float(*v)).collect();
    for (path, rich) in [("src/data/n.json", true), ("src/data/n.json5", true), ("src/data/n.yaml", true), ("src/data/n.yml", true), ("src/data/n.toml", false)] {
        let mut entries = vec![("floats".to_owned(), DataValue::Arr(floats.clone())), ("ints".to_owned(), DataValue::Arr(ints.clone()))];
        if rich {
            entries.push(("uints".to_owned(), DataValue::Arr(uints.clone())));
            entries.push(("zmax".to_owned(), DataValue::UInt(u64::MAX)));
        }
        for mode in [Mode::Path, Mode::Luau] {
            let literal = format!("./data/{}", filename(path));
            let entry = FileSpec {
                path: "src/main.lua".to_owned(),
                kind: FileKind::Lua {
                    prefix: String::new(),
                    items: vec![Item::Site { literal, form: Form::LocalParen, shadow_block: false }],
                    ret: Ret::One,
                    kind: Kind::Num,
                    syntax_error: false,
                },
            };
            let data = FileSpec { path: path.to_owned(), kind: FileKind::Data { value: DataValue::Map(entries.clone()), malformed: false } };
            cases.push(Case { mode, files: vec![entry, data], excludes: Vec::new(), modules_identifier: None, aliases: Vec::new() });
        }
    }
    cases
}

/// structure-only graph on `n` nodes (node 0 = entry), edge i→j iff bit (i*n+j) of `mask`
pub fn small_graph(n: usize, mask: u32, mode: Mode) -> Case {
    let name = |i: usize| if i == 0 { "main".to_owned() } else { format!("m{}", i) };
    let mut files = Vec::new();
    for i in 0..n {
        let mut items = Vec::new();
        for j in 0..n {
            if mask >> (i * n + j) & 1 == 1 {
                items.push(Item::Site { literal: format!("./{}", name(j)), form: Form::LocalParen, shadow_block: false });
            }
        }
        files.push(FileSpec {
            path: format!("src/{}.lua", name(i)),
            kind: FileKind::Lua { prefix: String::new(), items, ret: Ret::One, kind: Kind::Num, syntax_error: false },
        });
    }
    Case { mode, files, excludes: Vec::new(), modules_identifier: None, aliases: Vec::new() }
}

// ------------------------------------------------------------------ `.luaurc` trees, several entries per run

fn lib_file(path: &str) -> FileSpec {
    FileSpec { path: path.to_owned(), kind: FileKind::Lua { prefix: String::new(), items: Vec::new(), ret: Ret::One, kind: Kind::Tbl, syntax_error: false } }
}

/// A tree with a `.luaurc` under `src/` and a DIFFERENT one in a module folder below it (the same alias defined
/// differently, plus an alias only one of them knows), Lua files in both directories, in a directory between them
/// and below the inner one; every such file is an entry of ONE darklua run (`use_luau_configuration` at its
/// default, no inline alias). The aliases of an entry are those of the closest `.luaurc` above it (a standard Luau
/// require; darklua documents the same). One `Rendered` per entry and per processing order (ancestors first,
/// descendants first, shuffled).
pub fn luaurc_batches(rng: &mut Rng) -> Vec<Rendered> {
    let alias = *rng.pick(&["pkg", "lib", "dep"]);
    let inner_dir = (*rng.pick(&["src/one/inner", "src/one", "src/mods/deep/er"])).to_owned();
    let (outer_loc, inner_loc) = *rng.pick(&[("./libA", "./vendor"), ("../shared", "./libA"), ("./libA", "../sibling")]);
    let outer_target = normalize(&format!("src/{}", outer_loc));
    let inner_target = normalize(&format!("{}/{}", inner_dir, inner_loc));
    let outer_only = normalize("src/outer_only");
    let inner_only = normalize(&format!("{}/inner_only", inner_dir));
    let luaurc = |entries: &[(&str, &str)]| -> String {
        let list: Vec<String> = entries.iter().map(|(k, v)| format!("{}: {}", json_string(k), json_string(v))).collect();
        format!("{{ \"aliases\": {{ {} }} }}", list.join(", "))
    };
    let rc_files = vec![
        ("src/.luaurc".to_owned(), luaurc(&[(alias, outer_loc), ("outeronly", "./outer_only")])),
        (format!("{}/.luaurc", inner_dir), luaurc(&[(alias, inner_loc), ("inneronly", "./inner_only")])),
    ];
    // (entry path, governed by the inner .luaurc?)
    let mut entries: Vec<(String, bool)> = vec![("src/main.lua".to_owned(), false), (format!("{}/main.lua", inner_dir), true)];
    if rng.chance(2, 3) {
        entries.push((format!("{}/sub/below.lua", inner_dir), true));
    }
    let between = dirname(&inner_dir).to_owned();
    if between != "src" && rng.chance(2, 3) {
        entries.push((format!("{}/between.lua", between), false));
    }
    if rng.chance(1, 2) {
        entries.push(("src/side/other.lua".to_owned(), false));
    }
    let forms = [Form::LocalParen, Form::LocalString, Form::Arg, Form::Lazy(2), Form::FieldPrefix, Form::Method];
    let mut cases: Vec<Case> = Vec::new();
    for (path, inner) in &entries {
        let (rc_dir, target, only_name, only_dir) =
            if *inner { (inner_dir.clone(), inner_target.clone(), "@inneronly", inner_only.clone()) } else { ("src".to_owned(), outer_target.clone(), "@outeronly", outer_only.clone()) };
        let from = dirname(path).to_owned();
        let loc = |dir: &str| -> String {
            let r = relative(&from, &format!("{}/x", dir));
            r.strip_suffix("/x").unwrap_or(&r).to_owned()
        };
        let _ = rc_dir;
        let aliases = vec![(format!("@{}", alias), loc(&target)), (only_name.to_owned(), loc(&only_dir))];
        let mut items = vec![Item::Site { literal: format!("@{}/greet", alias), form: *rng.pick(&forms), shadow_block: false }];
        let mut files = vec![lib_file(&format!("{}/greet.lua", target))];
        if rng.chance(1, 2) {
            items.push(Item::Site { literal: format!("{}/thing", only_name), form: *rng.pick(&forms), shadow_block: false });
            files.push(lib_file(&format!("{}/thing.luau", only_dir)));
        }
        if rng.chance(1, 2) {
            items.push(Item::Site { literal: format!("@{}/greet.lua", alias), form: Form::LocalParen, shadow_block: false });
        }
        let entry = FileSpec { path: path.clone(), kind: FileKind::Lua { prefix: String::new(), items, ret: Ret::One, kind: Kind::Num, syntax_error: false } };
        let mut all = vec![entry];
        all.extend(files);
        cases.push(Case { mode: Mode::Luau, files: all, excludes: Vec::new(), modules_identifier: None, aliases });
    }
    let rendered: Vec<Rendered> = cases.iter().map(render).collect();
    // processing orders: ancestors first (shorter directory first), descendants first, shuffled
    let mut by_depth: Vec<String> = entries.iter().map(|(p, _)| p.clone()).collect();
    by_depth.sort_by_key(|p| (p.matches('/').count(), p.clone()));
    let mut reversed = by_depth.clone();
    reversed.reverse();
    let mut shuffled = by_depth.clone();
    for i in (1..shuffled.len()).rev() {
        let j = rng.below(i + 1);
        shuffled.swap(i, j);
    }
    let mut out = Vec::new();
    for order in [by_depth, reversed, shuffled] {
        for (i, r) in rendered.iter().enumerate() {
            let mut extra: BTreeMap<String, String> = BTreeMap::new();
            for (p, c) in &rc_files {
                extra.insert(p.clone(), c.clone());
            }
            for (j, other) in rendered.iter().enumerate() {
                if j == i { continue; }
                for (p, c) in &other.files {
                    if r.files.iter().any(|(q, _)| q == p) { continue; }
                    extra.insert(p.clone(), c.clone());
                }
            }
            let mut r = r.clone();
            r.batch = Some(Batch { entries: order.clone(), extra_files: extra.into_iter().collect() });
            out.push(r);
        }
    }
    out
}
