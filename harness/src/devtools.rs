//! Development / self-check subcommands (not part of any registered check).
use crate::exec;
use crate::model::Model;
use crate::progen::{self, Features};
use crate::rng::Rng;

/// `dlv progtest <n> [luau] [show]`: generate programs, run them on the reference semantics,
/// print the share that ran error-free and which constructs were exercised.
pub fn progtest(args: &[String]) -> i32 {
    let n: usize = args.first().and_then(|s| s.parse().ok()).unwrap_or(200);
    let luau = args.iter().any(|a| a == "luau");
    let show = args.iter().any(|a| a == "show");
    let mut model = Model::spawn();
    let mut rng = Rng::new(1);
    let (mut ok, mut err, mut timeout, mut parse_fail, mut proto) = (0, 0, 0, 0, 0);
    let mut used_total: std::collections::BTreeMap<&'static str, usize> = Default::default();
    for i in 0..n {
        let feat = if luau { Features::luau() } else { Features::lua51() };
        let (code, used) = progen::generate(&mut rng.fork(), feat, 60);
        let block = match exec::parse(&code) {
            Ok(b) => b,
            Err(e) => {
                parse_fail += 1;
                if parse_fail <= 3 {
                    println!("--- PARSE FAILURE {}\n{}\n{}", i, code, e);
                }
                continue;
            }
        };
        let outcome = exec::run_block(&mut model, 200, &block);
        if outcome.starts_with("(ok ") {
            ok += 1;
            for u in used {
                *used_total.entry(u).or_default() += 1;
            }
            if show && i < 3 {
                println!("--- program {}\n{}\n=> {}", i, code, outcome);
            }
        } else if outcome.starts_with("(err ") {
            err += 1;
            if err <= 5 {
                println!("--- RUNTIME ERROR {}\n{}\n=> {}", i, code, outcome);
            }
        } else if outcome == "timeout" {
            timeout += 1;
            if timeout <= 2 {
                println!("--- TIMEOUT {}\n{}", i, code);
            }
        } else {
            proto += 1;
            if proto <= 3 {
                println!("--- PROTOCOL {}\n{}\n=> {}", i, code, outcome);
            }
        }
    }
    println!("programs={} ok={} err={} timeout={} parse_fail={} protocol={}", n, ok, err, timeout, parse_fail, proto);
    println!("constructs: {:?}", used_total);
    0
}

/// `dlv progtest06 <n> [show] [defects]`: the targeted C06/C07 generator: share of error-free programs, tags.
pub fn progtest06(args: &[String]) -> i32 {
    let n: usize = args.first().and_then(|s| s.parse().ok()).unwrap_or(200);
    let show = args.iter().any(|a| a == "show");
    let defects = args.iter().any(|a| a == "defects");
    let mut model = Model::spawn();
    let mut rng = Rng::new(1);
    let (mut ok, mut bad) = (0, 0);
    let mut tags_total: std::collections::BTreeMap<&'static str, usize> = Default::default();
    for i in 0..n {
        let opts = crate::progen_c06::Opts { f9: defects, many_elifs: defects, idiv_meta: defects };
        let (code, tags) = crate::progen_c06::generate(&mut rng.fork(), opts, 8);
        let block = match exec::parse(&code) {
            Ok(b) => b,
            Err(e) => {
                bad += 1;
                if bad <= 5 {
                    println!("--- PARSE FAILURE {}\n{}\n{}", i, code, e);
                }
                continue;
            }
        };
        let outcome = exec::run_block(&mut model, 200, &block);
        if outcome.starts_with("(ok ") {
            ok += 1;
            for t in tags {
                *tags_total.entry(t).or_default() += 1;
            }
            if show && i < 2 {
                println!("--- program {}\n{}\n=> {}", i, code, outcome);
            }
        } else {
            bad += 1;
            if bad <= 5 {
                println!("--- NOT OK {}\n{}\n=> {}", i, code, &outcome[..outcome.len().min(300)]);
            }
        }
    }
    println!("programs={} ok={} bad={}", n, ok, bad);
    println!("tags: {:?}", tags_total);
    0
}
