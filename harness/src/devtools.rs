//! Development / self-check subcommands (not part of any registered check).
use crate::exec;
use crate::model::Model;
use crate::progen::{self, Features};
use crate::rng::Rng;

/// `dlv progtest <n> [luau] [show]`: generate programs, run them on the reference semantics,
/// print the share that ran error-free and which constructs were exercised.
pub fn progtest(args: &[String]) -> i32 {
    let n: usize = args.first().and_then(|s| s.parse().ok()).unwrap_or(200);
    let luau = args.iter().any(|a| a == "luau");
    let show = args.iter().any(|a| a == "show");
    let mut model = Model::spawn();
    let mut rng = Rng::new(1);
    let (mut ok, mut err, mut timeout, mut parse_fail, mut proto) = (0, 0, 0, 0, 0);
    let mut used_total: std::collections::BTreeMap<&'static str, usize> = Default::default();
    for i in 0..n {
        let feat = if luau { Features::luau() } else { Features::lua51() };
        let (code, used) = progen::generate(&mut rng.fork(), feat, 60);
        let block = match exec::parse(&code) {
            Ok(b) => b,
            Err(e) => {
                parse_fail += 1;
                if parse_fail <= 3 {
                    println!("--- PARSE FAILURE {}\n{}\n{}", i, code, e);
                }
                continue;
            }
        };
        let outcome = exec::run_block(&mut model, 200, &block);
        if outcome.starts_with("(ok ") {
            ok += 1;
            for u in used {
                *used_total.entry(u).or_default() += 1;
            }
            if show && i < 3 {
                println!("--- program {}\n{}\n=> {}", i, code, outcome);
            }
        } else if outcome.starts_with("(err ") {
            err += 1;
            if err <= 5 {
                println!("--- RUNTIME ERROR {}\n{}\n=> {}", i, code, outcome);
            }
        } else if outcome == "timeout" {
            timeout += 1;
            if timeout <= 2 {
                println!("--- TIMEOUT {}\n{}", i, code);
            }
        } else {
            proto += 1;
            if proto <= 3 {
                println!("--- PROTOCOL {}\n{}\n=> {}", i, code, outcome);
            }
        }
    }
    println!("programs={} ok={} err={} timeout={} parse_fail={} protocol={}", n, ok, err, timeout, parse_fail, proto);
    println!("constructs: {:?}", used_total);
    0
}

/// human-readable rendering of an outcome S-expression (for tests and replay files)
pub fn pretty_outcome(outcome: &str) -> String {
    use crate::astsexp::Sexp;
    fn val(s: &Sexp) -> String {
        match s {
            Sexp::Atom(a) => {
                if let Some(f) = crate::model::wire_f64(a) {
                    if a.len() == 17 { return format!("{}", f); }
                }
                if a.starts_with('x') {
                    if let Some(b) = crate::model::unhex(a) {
                        return format!("{:?}", String::from_utf8_lossy(&b));
                    }
                }
                a.clone()
            }
            Sexp::List(items) => {
                if let Some(Sexp::Atom(h)) = items.first() {
                    if h == "tbl" {
                        let parts: Vec<String> = items[1..].iter().map(|kv| match kv {
                            Sexp::List(p) if p.len() == 2 => format!("[{}]={}", val(&p[0]), val(&p[1])),
                            other => val(other),
                        }).collect();
                        return format!("{{{}}}", parts.join(","));
                    }
                    if h == "builtin" && items.len() == 2 {
                        return format!("<builtin {}>", val(&items[1]));
                    }
                }
                format!("({})", items.iter().map(val).collect::<Vec<_>>().join(" "))
            }
        }
    }
    fn events(s: &Sexp) -> String {
        match s {
            Sexp::List(evs) => evs.iter().map(|e| match e {
                Sexp::List(parts) if !parts.is_empty() => {
                    let name = match &parts[0] { Sexp::Atom(a) => crate::model::unhex(a).map(|b| String::from_utf8_lossy(&b).to_string()).unwrap_or(a.clone()), o => val(o) };
                    format!("{}({})", name, parts[1..].iter().map(val).collect::<Vec<_>>().join(","))
                }
                other => val(other),
            }).collect::<Vec<_>>().join(" "),
            other => val(other),
        }
    }
    match Sexp::parse(outcome) {
        Ok(Sexp::List(items)) if items.len() == 3 => {
            let head = val(&items[0]);
            let values = match &items[1] {
                Sexp::List(vs) if head == "ok" => vs.iter().map(val).collect::<Vec<_>>().join(", "),
                other => val(other),
            };
            format!("{} {} | {}", head, values, events(&items[2]))
        }
        _ => outcome.to_owned(),
    }
}

/// `dlv semtest`: hand-written programs with the outcome real Lua 5.1 / Luau gives
pub fn semtest(_args: &[String]) -> i32 {
    let cases: &[(&str, &str)] = &[
        ("return 1 + 2, 'a' .. 'b', 2 ^ 10, 7 % 3, -7 % 3, 7 / 2", "ok 3, \"ab\", 1024, 1, 2, 3.5 | "),
        ("return 10 .. 20, 1 .. '', 0.5 .. 'x', -0.0 .. ''", "ok \"1020\", \"1\", \"0.5x\", \"-0\" | "),
        ("return '10' + 5, '0x10' + 0, ' 3 ' * 2, 10 == '10', 'a' < 'b', 'Z' < 'a'", "ok 15, 16, 6, false, true, true | "),
        ("return nil == false, not nil, not 0, 0 and 1, nil or 2, false and emit(1), 1 or emit(2)", "ok false, true, false, 1, 2, false, 1 | "),
        ("local function f() return 1, 2, 3 end return f(), f()", "ok 1, 1, 2, 3 | "),
        ("local function f() return 1, 2, 3 end return (f()), #{f()}, #{f(), f()}, {f(), nil}", "ok 1, 3, 4, {[1]=1} | "),
        ("local function f(...) return select('#', ...), ... end return f(nil, nil)", "ok 2, nil, nil | "),
        ("local function f(...) local a, b = ... return b, a end return f(1)", "ok nil, 1 | "),
        ("local t = {10, 20, 30, x = 1} return #t, t[2], t.x, t['x'], t.y", "ok 3, 20, 1, 1, nil | "),
        ("local t = {} t[1.0] = 'a' t[2] = 'b' return t[1], #t, t[2.0]", "ok \"a\", 2, \"b\" | "),
        ("local a = 1 do local a = 2 emit(a) end emit(a) local a = a + 10 return a", "ok 11 | emit(2) emit(1)"),
        ("local x = 0 local function inc() x = x + 1 return x end inc() inc() return x, inc()", "ok 2, 3 | "),
        ("local fs = {} for i = 1, 3 do fs[i] = function() return i end end return fs[1](), fs[2](), fs[3]()", "ok 1, 2, 3 | "),
        ("local s = 0 for i = 10, 1, -3 do s = s + i end return s", "ok 22 | "),
        ("local s = 0 for i = 1, 0 do s = s + 1 end for i = 1, 3 do if i == 2 then break end s = s + i end return s", "ok 1 | "),
        ("local i = 0 repeat local done = i >= 2 i = i + 1 until done return i", "ok 3 | "),
        ("local i = 0 while true do i = i + 1 if i > 3 then break end end return i", "ok 4 | "),
        ("local r = {} for k, v in ipairs({5, 6, nil, 8}) do r[#r + 1] = k * v end return r", "ok {[1]=5,[2]=12} | "),
        ("local n = 0 for k, v in pairs({a = 1, b = 2}) do n = n + v end return n", "ok 3 | "),
        ("local function fact(n) if n <= 1 then return 1 end return n * fact(n - 1) end return fact(5)", "ok 120 | "),
        ("local t = {v = 1} function t:get(d) return self.v + d end function t.static(a) return a * 2 end return t:get(2), t.static(4), t.get(t, 5)", "ok 3, 8, 6 | "),
        ("local a = {} function a.b() end a.c = {} function a.c.d(x) return x end function a.c:e() return self == a.c end return a.c.d(7), a.c:e()", "ok 7, true | "),
        ("local mt = {__index = function(t, k) emit('idx', k) return 42 end} local o = setmetatable({}, mt) return o.foo, rawget(o, 'foo')", "ok 42, nil | emit(\"idx\",\"foo\")"),
        ("local base = {hello = 'hi'} local o = setmetatable({}, {__index = base}) return o.hello, o.nope", "ok \"hi\", nil | "),
        ("local log = {} local o = setmetatable({}, {__newindex = function(t, k, v) rawset(t, k, v * 2) end}) o.x = 5 o.x = 7 return o.x", "ok 7 | "),
        ("local mt = {} mt.__add = function(a, b) return 'added' end mt.__concat = function(a, b) return 'cat' end mt.__call = function(self, x) return x + 1 end mt.__unm = function() return 'neg' end mt.__len = function() return 99 end local o = setmetatable({}, mt) return o + 1, 1 + o, o .. 'x', 'x' .. o, o(1), -o, #o", "ok \"added\", \"added\", \"cat\", \"cat\", 2, \"neg\", 99 | "),
        ("local mt = {__eq = function() emit('eq') return true end, __lt = function() emit('lt') return false end, __le = function() emit('le') return true end} local a, b = setmetatable({}, mt), setmetatable({}, mt) return a == b, a ~= b, a < b, a <= b, a > b, a >= b, a == a", "ok true, false, false, true, false, true, true | emit(\"eq\") emit(\"eq\") emit(\"lt\") emit(\"le\") emit(\"lt\") emit(\"le\")"),
        ("local o = setmetatable({}, {__tostring = function() return 'OBJ' end}) return tostring(o), tostring(nil), tostring(1.5), tostring(true)", "ok \"OBJ\", \"nil\", \"1.5\", \"true\" | "),
        ("return pcall(function() error('boom') end)", "ok false, \"boom\" | "),
        ("return pcall(function() local x = nil return x.y end)", "ok false, \"attempt to index a nil value\" | "),
        ("return pcall(error, {code = 1})", "ok false, {[\"code\"]=1} | "),
        ("return select(2, 'a', 'b', 'c'), select('#'), type(nil), type({}), type(print)", "ok \"b\", 0, \"nil\", \"table\", \"nil\" | "),
        ("return string.format('%d-%s-%%', 3, 'x'), ('ab'):rep(3), ('hello'):sub(2, 3), #'abc', ('x'):upper()", "ok \"3-x-%\", \"ababab\", \"el\", 3, \"X\" | "),
        ("return math.floor(3.7), math.floor(-3.2), math.huge > 1e308, -math.huge < 0, math.max(1, 5), math.sqrt(16)", "ok 3, -4, true, true, 5, 4 | "),
        ("return 1/0 == math.huge, 0/0 == 0/0, 0/0 ~= 0/0, 3 % math.huge, 2^53 == 2^53 + 1", "ok true, false, true, NaN, true | "),
        ("local a, b, c = (function() return 1, 2 end)() return a, b, c", "ok 1, 2, nil | "),
        ("local a, b = 1 local c = 2, 3 return a, b, c", "ok 1, nil, 2 | "),
        ("local t = {} local i = 1 i, t[i] = i + 1, 20 return i, t[1], t[2]", "ok 2, 20, nil | "),
        ("local a, b = 1, 2 a, b = b, a return a, b", "ok 2, 1 | "),
        ("emit(1, 'two', nil, true, {3}) emit() return", "ok  | emit(1,\"two\",nil,true,{[1]=3}) emit()"),
        ("local t = setmetatable({}, {__index = function(t, k) return k .. '!' end}) return t.a, t[1]", "ok \"a!\", \"1!\" | "),
        ("return #'', #{}, #{nil}, #{1, nil}, #{n = 1}", "ok 0, 0, 0, 1, 0 | "),
        ("return tostring(1e15), tostring(1e14), tostring(123456789012), tostring(0.1), tostring(-0.0), tostring(1e100), tostring(2^63)", "ok \"1e+15\", \"1e+14\", \"123456789012\", \"0.1\", \"-0\", \"1e+100\", \"9.2233720368548e+18\" | "),
        ("return tonumber('0x1p4'), tonumber('1e2'), tonumber('  12  '), tonumber('12a'), tonumber(''), tonumber('.5'), tonumber('5.')", "ok nil, 100, 12, nil, nil, 0.5, 5 | "),
        ("local function v(...) return ... end return (v(1, 2)), {v(1, 2), v(3, 4)}", "ok 1, {[1]=1,[2]=3,[3]=4} | "),
        ("local t = {f = function(self, x) return x end} return t:f(1), t.f(t, 2), ('x'):len()", "ok 1, 2, 1 | "),
        ("goto_ = 1 return goto_", "ok 1 | "),
        ("local x <const> = 1 return x", "PARSE-ERROR"),
    ];
    let luau_cases: &[(&str, &str)] = &[
        ("local a = 1 a += 2 a *= 3 local s = 'x' s ..= 'y' return a, s", "ok 9, \"xy\" | "),
        ("local t = {n = 1} local function g() emit('g') return t end g().n += 5 return t.n", "ok 6 | emit(\"g\")"),
        ("local s = 0 for i = 1, 5 do if i % 2 == 0 then continue end s += i end return s", "ok 9 | "),
        ("local i = 0 local n = 0 while i < 5 do i += 1 if i == 2 then continue end n += 1 end return n", "ok 4 | "),
        ("local i = 0 repeat i += 1 local stop = i >= 3 if i == 1 then continue end until stop return i", "ok 3 | "),
        ("return if true then 1 else 2, if false then 1 elseif nil then 3 else 4", "ok 1, 4 | "),
        ("local function f() return 1, 2 end return (if true then f() else 0)", "ok 1 | "),
        ("local n = 3 return `n={n} s={'x'} b={true} nil={nil} \\{}`", "ok \"n=3 s=x b=true nil=nil {}\" | "),
        ("return 7 // 2, -7 // 2, 7.5 // 2, 1 // 0", "ok 3, -4, 3, inf | "),
        ("local x: number = 1 type T = number local function f(a: string, ...: number): boolean return true end return (x :: any), f('a')", "ok 1, true | "),
        ("return 0b101, 0xFF, 1_000, 0x_ff", "ok 5, 255, 1000, 255 | "),
        ("local o = setmetatable({}, {__idiv = function() return 'idiv' end}) return o // 1", "ok \"idiv\" | "),
    ];
    let mut model = Model::spawn();
    let mut failures = 0;
    for (code, expected) in cases.iter().chain(luau_cases.iter()) {
        let got = match exec::parse(code) {
            Ok(block) => pretty_outcome(&exec::run_block(&mut model, 100, &block)),
            Err(_) => "PARSE-ERROR".to_owned(),
        };
        if &got != expected {
            failures += 1;
            println!("MISMATCH\n  code:     {}\n  expected: {}\n  got:      {}", code, expected, got);
        }
    }
    println!("semtest: {} cases, {} mismatches", cases.len() + luau_cases.len(), failures);
    if failures == 0 { 0 } else { 1 }
}
