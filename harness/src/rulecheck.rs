//! Shared checks for rule properties (C01, C06, C16, C17):
//!  * correspondence: real `Rule::process` on the parsed block vs the Lean rule model on the same
//!    S-expression — output trees must be identical;
//!  * oracle: original and REAL output both run on the Lean reference semantics — same outcome
//!    (returned values and external-call trace) whenever the original runs error-free.
use crate::exec;
use crate::model::{hex, Model};
use crate::report::{Report, Violation};
use darklua_core::rules::Rule;
use serde_json::json;

pub struct RuleCase<'a> {
    /// protocol namespace of the Lean handler, e.g. "c01"
    pub prop: &'a str,
    /// darklua rule name (also the model's name)
    pub rule_name: &'a str,
    /// JSON5 text of the rule configuration, e.g. "'remove_empty_do'"
    pub rule_json: &'a str,
    /// whether a Lean model of this rule exists (otherwise only the oracle runs)
    pub modelled: bool,
}

#[derive(Debug, Clone, PartialEq, Eq)]
pub enum CaseResult {
    /// the input could not be used (does not parse / original does not run error-free)
    Skipped(&'static str),
    /// rule left the tree unchanged
    Trivial,
    /// rule changed the tree
    Fired,
}

pub const LEVEL: u32 = 200;

/// original vs transformed outcome; `None` when the original is not error-free
pub fn oracle_compare(model: &mut Model, original: &darklua_core::nodes::Block, transformed: &darklua_core::nodes::Block) -> Option<(String, String)> {
    let o0 = exec::run_block(model, LEVEL, original);
    if !exec::outcome_ok(&o0) {
        return None;
    }
    let o1 = exec::run_block(model, LEVEL, transformed);
    Some((o0, o1))
}

/// Does the REAL rule break behaviour on this program? (the property's own oracle)
pub fn oracle_fails(model: &mut Model, rules: &[Box<dyn Rule>], code: &str) -> Option<(String, String, String)> {
    let block0 = exec::parse(code).ok()?;
    let mut block1 = block0.clone();
    let applied = std::panic::catch_unwind(std::panic::AssertUnwindSafe(|| exec::apply_rules(&mut block1, rules, code)));
    match applied {
        Ok(Ok(())) => {}
        _ => return None,
    }
    let (o0, o1) = oracle_compare(model, &block0, &block1)?;
    if o0 != o1 {
        Some((o0, o1, crate::astsexp::block_to_sexp(&block1)))
    } else {
        None
    }
}

/// Line-based delta debugging: smallest set of lines on which `fails` still holds.
pub fn shrink_lines(code: &str, fails: &mut dyn FnMut(&str) -> bool) -> String {
    let mut lines: Vec<String> = code.lines().map(|l| l.to_owned()).collect();
    let mut chunk = (lines.len() / 2).max(1);
    let mut budget = 400;
    while chunk >= 1 && budget > 0 {
        let mut i = 0;
        let mut progressed = false;
        while i < lines.len() && budget > 0 {
            let end = (i + chunk).min(lines.len());
            let candidate: Vec<String> = lines[..i].iter().chain(lines[end..].iter()).cloned().collect();
            let text = candidate.join("\n");
            budget -= 1;
            if !candidate.is_empty() && fails(&text) {
                lines = candidate;
                progressed = true;
            } else {
                i += chunk;
            }
        }
        if !progressed {
            if chunk == 1 {
                break;
            }
            chunk /= 2;
        }
    }
    lines.join("\n")
}

/// One program through one rule: correspondence + oracle. Reports violations into `report`.
pub fn check_program(model: &mut Model, report: &mut Report, case: &RuleCase, code: &str) -> CaseResult {
    let block0 = match exec::parse(code) {
        Ok(b) => b,
        Err(_) => return CaseResult::Skipped("parse"),
    };
    let rule = match exec::rule_from_json(case.rule_json) {
        Ok(r) => r,
        Err(e) => panic!("bad rule configuration {}: {}", case.rule_json, e),
    };
    let rules = vec![rule];
    let sexp0 = crate::astsexp::block_to_sexp(&block0);
    let mut block1 = block0.clone();
    let applied = std::panic::catch_unwind(std::panic::AssertUnwindSafe(|| exec::apply_rules(&mut block1, &rules, code)));
    match applied {
        Ok(Ok(())) => {}
        Ok(Err(_)) => return CaseResult::Skipped("rule-error"),
        Err(_) => {
            report.violation(Violation {
                kind: "oracle".into(),
                check: format!("{}:panic", case.rule_name),
                what: format!("rule {} panicked", case.rule_name),
                input: json!({"rule": case.rule_json, "code": code}),
                failing_input_found: true,
            });
            return CaseResult::Skipped("panic");
        }
    }
    let sexp1 = crate::astsexp::block_to_sexp(&block1);
    let fired = sexp0 != sexp1;

    // ---- oracle on the real output
    let mut oracle_failed = false;
    if let Some((o0, o1)) = oracle_compare(model, &block0, &block1) {
        if o0 != o1 {
            oracle_failed = true;
            let check_name = format!("{}:behaviour", case.rule_name);
            let small = if report.violations_for(&check_name) < 2 {
                let mut fails = |text: &str| oracle_fails(model, &rules, text).is_some();
                shrink_lines(code, &mut fails)
            } else {
                code.to_owned()
            };
            let detail = oracle_fails(model, &rules, &small);
            report.violation(Violation {
                kind: "oracle".into(),
                check: format!("{}:behaviour", case.rule_name),
                what: format!("rule {} changes the behaviour of a program whose original run is error-free", case.rule_name),
                input: json!({"rule": case.rule_json, "code": small, "original_outcome": detail.as_ref().map(|d| d.0.clone()), "transformed_outcome": detail.as_ref().map(|d| d.1.clone()), "transformed_tree": detail.as_ref().map(|d| d.2.clone())}),
                failing_input_found: true,
            });
        }
        report.count("oracle_compared", 1);
    } else {
        report.count("oracle_skipped_original_not_error_free", 1);
    }

    // ---- correspondence with the Lean rule model
    if case.modelled {
        let answer = model.ask(&format!("{}.rule {} {}", case.prop, hex(case.rule_name.as_bytes()), sexp0));
        if answer != sexp1 {
            // shrink the disagreement
            let prop = case.prop.to_owned();
            let rule_name = case.rule_name.to_owned();
            let mut differs = |text: &str| -> bool {
                let b0 = match exec::parse(text) { Ok(b) => b, Err(_) => return false };
                let mut b1 = b0.clone();
                if exec::apply_rules(&mut b1, &rules, text).is_err() { return false; }
                let s0 = crate::astsexp::block_to_sexp(&b0);
                let a = model.ask(&format!("{}.rule {} {}", prop, hex(rule_name.as_bytes()), s0));
                a != crate::astsexp::block_to_sexp(&b1)
            };
            let small = if report.violations_for(&format!("{}:model", case.rule_name)) < 2 {
                shrink_lines(code, &mut differs)
            } else {
                code.to_owned()
            };
            report.violation(Violation {
                kind: "correspondence".into(),
                check: format!("{}:model", case.rule_name),
                what: format!("Lean model of rule {} and the real rule produce different trees; the theorem about the model no longer speaks about this code", case.rule_name),
                input: json!({"rule": case.rule_json, "code": small, "model_answer_prefix": answer.chars().take(200).collect::<String>()}),
                // if the oracle also failed on this input the behavioural violation is reported separately
                failing_input_found: oracle_failed,
            });
        }
        report.count("correspondence_compared", 1);
    }
    if fired { CaseResult::Fired } else { CaseResult::Trivial }
}
