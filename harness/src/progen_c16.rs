//! Targeted program generator for property C16: the shapes the property lists, as error-free,
//! self-contained snippets with fresh names (`#` is replaced by a unique number), composed in
//! random order and nested in `do` blocks, functions and loops. All effects go through the
//! externs `emit` / `get1` / `get2` (see progen.rs).
//!
//! Shapes outside the decidable hypotheses of the `_partial` theorems are generated on purpose
//! with low probability (tags `f17-shape`, `receiver-reassigned`); the harness classifies every
//! program with `c16.h` before judging it.
use crate::rng::Rng;

pub struct Snippet {
    pub tag: &'static str,
    pub luau: bool,
    pub text: &'static str,
}

const fn s(tag: &'static str, text: &'static str) -> Snippet {
    Snippet { tag, luau: false, text }
}
const fn l(tag: &'static str, text: &'static str) -> Snippet {
    Snippet { tag, luau: true, text }
}

/// `@A`, `@B`, `@C` are replaced by small random integers, `@S` by a perfect square.
pub const SNIPPETS: &[Snippet] = &[
    // ---------------- group_local_assignment
    s("gl:reads", "local a# = @A\nlocal b# = a# + @B\nlocal c# = @C\nlocal d# = get1()\nemit(a#, b#, c#, d#)"),
    s("gl:reads-second-of-pair", "local a#, b# = @A, @B\nlocal c# = b# + 1\nlocal d#, e# = @C, get1()\nlocal f# = function() return e# end\nemit(a#, b#, c#, d#, e#, f#())"),
    s("gl:independent", "local a# = get1()\nlocal b# = get2()\nlocal c# = @A\nemit(a#, b#, c#)"),
    s("gl:captures", "local a# = get1()\nlocal f# = function() return a# end\nlocal g# = get2()\nlocal h# = function() return g# + 1 end\nemit(f#(), g#, h#())"),
    s("gl:shadows", "local a# = @A\nlocal a# = @B\nlocal b# = @C\nemit(a#, b#)"),
    s("gl:shadow-reads", "local a# = @A\nlocal a# = a# + 1\nlocal a# = a# * 2\nemit(a#)"),
    s("gl:shadow-capture", "local a# = @A\nlocal f# = function() return a# end\nlocal a# = @B\nlocal g# = function() return a# end\nemit(f#(), g#())"),
    s("gl:multi-call", "local function two#() emit('two') return @A, @B end\nlocal p#, q# = two#()\nlocal r# = get1()\nlocal s#, t# = get2(), two#()\nlocal u# = two#()\nlocal v# = @C\nemit(p#, q#, r#, s#, t#, u#, v#)"),
    s("gl:multi-call-last", "local function three#() return 1, 2, 3 end\nlocal a# = @A\nlocal b#, c#, d# = three#()\nlocal e#, f# = (three#())\nemit(a#, b#, c#, d#, e#, f#)"),
    s("gl:varargs", "local function va#(...)\n  local x# = ...\n  local y#, z# = ...\n  local w# = select('#', ...)\n  local u#\n  local v# = @A\n  emit(x#, y#, z#, w#, u#, v#)\nend\nva#(1, 2, 3)\nva#()\nva#(nil, @B)"),
    s("gl:varargs-first", "local function vb#(...)\n  local n# = @A\n  local x#, y# = ...\n  local z# = ...\n  emit(n#, x#, y#, z#)\nend\nvb#(7, 8, 9)\nvb#(7)"),
    s("gl:no-values", "local a#\nlocal b# = get1()\nlocal c#, d#\nlocal e# = @A\nemit(a#, b#, c#, d#, e#)"),
    s("gl:no-values-first", "local a#, b#\nlocal c#, d# = get1(), get2()\nlocal e#\nemit(a#, b#, c#, d#, e#)"),
    s("gl:no-values-unequal-counts", "local a#, b#\nlocal c# = get1()\nemit(a#, b#, c#)\ndo\n  local p#\n  local q#, r# = @A, @B\n  emit(p#, q#, r#)\nend\ndo\n  local x#\n  local y#\n  local z# = @C\n  emit(x#, y#, z#)\nend\ndo\n  local u#, v#, w#\n  local s#, t# = get2(), @A\n  emit(u#, v#, w#, s#, t#)\nend"),
    s("gl:fewer-values", "local a# = @A\nlocal b#, c# = @B\nlocal d# = @C\nemit(a#, b#, c#, d#)"),
    s("gl:more-values-second", "local a# = @A\nlocal b# = get1(), get2()\nemit(a#, b#)"),
    s("gl:order", "local a# = get1()\nlocal b# = get2()\nlocal c# = get1()\nlocal d# = get2() + get1()\nemit(a#, b#, c#, d#)"),
    s("gl:localfn-between", "local a# = @A\nlocal function h#() return a# end\nlocal b# = h#()\nlocal c# = @B\nemit(a#, b#, c#)"),
    s("gl:loop-capture", "for k# = 1, 2 do\n  local a# = k#\n  local b# = function() return a# + k# end\n  local c# = b#()\n  local d# = @A\n  emit(c#, d#)\nend"),
    s("gl:param-shadow", "local a# = @A\nlocal b# = function(a#) return a# end\nlocal c# = @B\nemit(a#, b#(5), c#)"),
    s("gl:param-shadow-then-read", "local a# = @A\nlocal f#, i# = function(a#) return a# end, a#\nemit(f#(5), i#)\nlocal b# = get1()\nlocal t# = {function(b#, c) return b# end, b#}\nemit(t#[1](6), t#[2])\nlocal c# = @B\nlocal function pick#(g, v) return g(v) + v end\nlocal d# = pick#(function(c#) return c# + 1 end, c#)\nemit(d#)"),
    s("gl:param-shadow-nested-read", "local a# = @A\nlocal g# = function() local h = function(a#) return a# end return h(1) + a# end\nemit(g#())\nlocal x#, y# = @B, @C\nlocal k#, r# = function(y#) return y# end, x# + y#\nemit(k#(1), r#)"),
    s("gl:valueless-then-capture", "local a#\nlocal f# = function() return a# end\na# = @A\nemit(f#())\nlocal b#, c#\nlocal g#, h# = function() return b# end, function(v) c# = v end\nb# = @B\nh#(@C)\nemit(g#(), c#)"),
    s("gl:valueless-then-read", "local a#\nlocal s# = a#\nlocal t#, u# = a#, @A\nemit(a#, s#, t#, u#)\nlocal p#, q#\nlocal r# = {p#, q#, @B}\nemit(#r#, r#[3])"),
    s("gl:valueless-shadow-read", "local v# = @A\ndo\n  local v#\n  local s# = v#\n  emit(s#)\nend\nlocal w# = @B\nlocal function sh#()\n  local w#\n  local k# = function() return w# end\n  w# = @C\n  return k#()\nend\nemit(sh#(), v#, w#)"),
    s("gl:field-name", "local a# = @A\nlocal b# = {a# = @B}\nlocal c# = b#.a#\nlocal d# = @C\nemit(a#, c#, d#)"),
    s("gl:table-values", "local t# = {x = @A}\nlocal u# = {y = @B, z = get1()}\nlocal v# = u#.y + t#.x\nemit(t#.x, u#.y, u#.z, v#)"),
    s("gl:nested-blocks", "local a# = @A\nlocal b# = @B\nif flag1() then\n  local c# = get1()\n  local d# = get2()\n  emit(c#, d#)\nelse\n  local e# = @C\n  local f# = e#\n  emit(e#, f#)\nend\nemit(a#, b#)"),
    s("gl:string-and-nil", "local a# = 'x'\nlocal b# = nil\nlocal c# = a# .. 'y'\nlocal d# = false\nemit(a#, b#, c#, d#)"),
    s("gl:global-same-name", "G# = @A\nlocal x# = G#\nlocal G# = @B\nlocal y# = G#\nemit(x#, y#, G#)"),
    s("f17-shape", "local a# = @A, get1()\nlocal b# = @B\nemit(a#, b#)"),
    s("f17-shape", "local a#\nlocal b# = @A, @B\nlocal c# = @C\nemit(a#, b#, c#)"),
    s("f17-shape", "local a# = 1, 2\nlocal b#\nemit(a#, b#)"),
    l("gl:typed", "local a#: number = @A\nlocal b#: string = 'x'\nlocal c#: number = a# + 1\nlocal d#: typeof(a#) = @B\nemit(a#, b#, c#, d#)"),
    // ---------------- convert_local_function_to_assign
    s("lf:recursive", "local function fact#(n) if n <= 1 then return 1 end return n * fact#(n - 1) end\nemit(fact#(4))"),
    s("lf:mutual", "local odd#\nlocal function even#(n) if n == 0 then return true end return odd#(n - 1) end\nfunction odd#(n) if n == 0 then return false end return even#(n - 1) end\nemit(even#(4), odd#(3), even#(3))"),
    s("lf:mutual-table", "local m# = {}\nlocal function ping#(n) emit('ping', n) if n > 0 then return m#.pong(n - 1) end return n end\nfunction m#.pong(n) emit('pong', n) if n > 0 then return ping#(n - 1) end return n end\nemit(ping#(3))"),
    s("lf:plain", "local base# = @A\nlocal function add#(x) return x + base# end\nlocal function twice#(f, x) return f(f(x)) end\nemit(twice#(add#, @B))"),
    s("lf:own-param", "local function p#(p#) return p# end\nlocal function q#(x, q#) return q#, x end\nemit(p#(@A), q#(1, 2))"),
    s("lf:shadow-inside", "local function q#() local q# = @A return q# end\nemit(q#())"),
    s("lf:variadic", "local function v#(...) return select('#', ...), ... end\nemit(v#(), v#(1, nil), v#(@A, @B, @C))"),
    s("lf:recursive-nested", "local function r#(n)\n  local function inner() if n > 0 then return r#(n - 1) end return 'done' end\n  return inner()\nend\nemit(r#(2))"),
    s("lf:recursive-after-shadowing-closure", "local function r#(n)\n  local k = function(r#) return r# end\n  if n > 0 then return r#(n - 1) end\n  return k(n)\nend\nemit(r#(2))\nlocal function w#(n)\n  emit((function(w#, z) return w# end)(n, 1))\n  if n > 0 then return w#(n - 1) + 1 end\n  return 0\nend\nemit(w#(2))"),
    s("lf:recursive-after-shadowing-local", "local function q#(n)\n  local function inner(q#) return q# end\n  for q# = 1, 1 do emit(q#) end\n  do local q# = inner(n) emit(q#) end\n  if n > 0 then return q#(n - 1) end\n  return inner(n)\nend\nemit(q#(1))"),
    s("lf:field-not-var", "local function f#(t) return t.f# end\nemit(f#({f# = @A}))"),
    s("lf:redeclared", "local function f#() return 1 end\nlocal g# = f#\nlocal function f#() return g#() + 1 end\nemit(f#())"),
    s("lf:upvalue-counter", "local n# = 0\nlocal function inc#() n# = n# + 1 return n# end\ninc#() inc#()\nemit(inc#(), n#)"),
    s("lf:recursive-via-assign", "local function loop#(n) if n == 0 then return 0 end local k = loop# return k(n - 1) + 1 end\nemit(loop#(3))"),
    l("lf:typed", "local function id#<T>(x: T, ...: number): T return x end\nlocal function cnt#(n: number): number if n <= 0 then return 0 end return 1 + cnt#(n - 1) end\nemit(id#(@A), cnt#(3))"),
    // ---------------- convert_function_to_assignment
    s("fa:fields", "local t# = {a = {b = {}}}\nfunction t#.f(x) return x + 1 end\nfunction t#.a.g(x, y) return y, x end\nfunction t#.a.b.h(...) return select('#', ...) end\nemit(t#.f(@A), t#.a.g(1, 2), t#.a.b.h(1, 2, 3))"),
    s("fa:methods", "local t# = {a = {b = {v = @A}}}\nfunction t#:m(x) emit(self == t#) return x end\nfunction t#.a:m(x) emit(self == t#.a) return x + 1 end\nfunction t#.a.b:get(d) return self.v + d end\nemit(t#:m(1), t#.a:m(2), t#.a.b:get(3), t#.a.b.get({v = 1}, 1))"),
    s("fa:global", "function gf#(x, ...) return x, select('#', ...) end\nemit(gf#(1, 2, 3))\nfunction gf#() return 'again' end\nemit(gf#())"),
    s("fa:local-target", "local lf#\nfunction lf#(x) return x * 2 end\nemit(lf#(@A))"),
    s("fa:newindex", "local log# = setmetatable({}, {__newindex = function(t, k, v) emit('newindex', k) rawset(t, k, v) end})\nfunction log#.h() return 1 end\nfunction log#:m() return self == log# end\nemit(log#.h(), log#:m())"),
    s("fa:index-path", "local inner# = {}\nlocal outer# = setmetatable({}, {__index = function(t, k) emit('idx', k) return inner# end})\nfunction outer#.x.y(a) return a end\nfunction outer#.z:w(a) return self == inner#, a end\nemit(inner#.y(2), inner#:w(3))"),
    s("fa:recursive", "local t# = {}\nfunction t#.fact(n) if n <= 1 then return 1 end return n * t#.fact(n - 1) end\nfunction t#:count(n) if n == 0 then return 0 end return 1 + self:count(n - 1) end\nemit(t#.fact(4), t#:count(3))"),
    s("fa:variadic-method", "local t# = {}\nfunction t#:v(...) return self == t#, ... end\nemit(t#:v(), t#:v(1, 2))"),
    s("fa:self-param", "local t# = {}\nfunction t#.plain(self, x) return self, x end\nfunction t#:shadow(self) return self end\nemit(t#.plain(1, 2), t#:shadow(5))"),
    l("fa:typed", "local t# = {}\nfunction t#.f<T>(x: T, ...: number): T return x end\nfunction t#:g(x: number): (number, number) return x, x end\nemit(t#.f(@A), t#:g(@B))"),
    // ---------------- remove_method_call
    s("mc:basic", "local o# = {v = @A}\nfunction o#:get(d) return self.v + d end\nfunction o#.stat(a, b) emit(a == o#, b) return b end\nemit(o#:get(1), (o#):get(2), o#:stat(3))\no#:get(4)\nemit(o#:get(o#:get(1)))"),
    s("mc:strings", "local s# = 'abc'\nemit(('abc'):upper(), ('x'):rep(3), ('hello'):sub(2, 3), s#:upper(), s#:len(), (s#):byte())"),
    s("mc:shadowed", "local o# = {name = 'outer'}\nfunction o#:who() return self.name end\ndo\n  local o# = {name = 'inner', who = o#.who}\n  emit(o#:who())\nend\nlocal function f#(o#) return o#:who() end\nemit(o#:who(), f#({name = 'param', who = o#.who}))"),
    s("mc:effects", "local o# = {v = @A}\nfunction o#:get(d) return self.v + d end\nlocal function mk#() emit('mk') return o# end\nlocal box# = {o = o#}\nemit(mk#():get(1), box#.o:get(2), box#['o']:get(3), (mk#()):get(4), ((o#)):get(5))"),
    s("mc:double-paren", "local o# = {v = @A}\nfunction o#:get(d) return self.v + d end\nlocal function mk#() emit('mk') return o# end\nlocal box# = {o#}\nlocal function key#() emit('key') return 1 end\nemit(((mk#())):get(1), ((box#[key#()])):get(2), (((o#))):get(3), ((mk#())):get(get1()))\ndo ((mk#())):get(4) end"),
    s("mc:receiver-effects", "local o# = {v = @A}\nfunction o#:get(d) return self.v + (d or 0) end\nlocal function mk#() emit('mk') return o# end\nlocal function key#() emit('key') return 'o' end\nlocal function sfx#() emit('sfx') return 'x' end\nlocal box# = setmetatable({}, {__index = function(t, k) emit('index', k) return o# end})\nlocal neg# = setmetatable({}, {__unm = function(a) emit('unm') return o# end, __concat = function(a, b) emit('concat') return 'cc' end})\nemit((box#[key#()]):get(1), (box#.o):get(2), (mk#() or o#):get(3), (flag1() and o# or mk#()):get(4), ('a' .. sfx#()):upper(), ({get = o#.get, v = get1()}):get(5), (-neg#):get(6), (neg# .. 'y'):upper())\ndo (box#[key#()]):get(7) end\nlocal function va#(...) return (...):get(8), (mk#()):get(9) end\nemit(va#(o#, 1))"),
    s("mc:args", "local o# = {}\nfunction o#.s(self, str) return #str end\nfunction o#.t(self, tb) return #tb end\nfunction o#.va(self, ...) return select('#', ...) end\nlocal function w#(...) return o#:va(...) end\nemit(o#:s'abc', o#:t{1, 2, 3}, o#:va(get1(), get2()), w#(1, 2, 3), o#:va((w#())))"),
    s("mc:index-handler", "local proto# = {hello = function(self, x) emit(self ~= nil, x) return x end}\nlocal p# = setmetatable({}, {__index = function(t, k) emit('index', k) return proto#[k] end})\nemit(p#:hello(1))\np#:hello(2)"),
    s("mc:global", "G# = {v = @A}\nfunction G#:m(x) return self.v + x end\nemit(G#:m(1), (G#):m(2))"),
    s("mc:upvalue", "local o# = {v = @A}\nfunction o#:get() return self.v end\nlocal function use#() return o#:get() end\nemit(use#())"),
    s("mc:loop-var", "local list# = {{v = 1}, {v = 2}}\nfor _, it# in ipairs(list#) do\n  it#.get = function(self) return self.v end\n  emit(it#:get())\nend"),
    s("receiver-reassigned", "local other# = {tag = 'other'}\nlocal recv#\nrecv# = setmetatable({tag = 'recv'}, {__index = function(t, k) recv# = other# return function(self) return self.tag end end})\nemit(recv#:probe())"),
    s("mc:assigned-harmless", "local o# = {v = 1}\nfunction o#:get() return self.v end\no# = {v = 2, get = o#.get}\nemit(o#:get())"),
    l("mc:receiver-effects-luau", "local o# = {v = @A}\nfunction o#:get(d) return self.v + (d or 0) end\nlocal function mk#() emit('mk') return 1 end\nlocal ts# = setmetatable({}, {__tostring = function(a) emit('tostring') return 'obj' end})\nemit((`a{mk#()}`):upper(), (`{get1()}`):rep(2), (`<{ts#}>`):upper(), (`{ts#}{mk#()}`):len())\ndo (`b{mk#()}`):upper() end\nlocal function mo#() emit('mo') return o# end\nemit((if flag1() then mo#() else o#):get(1), (mo#() :: any):get(2), ((`{mk#()}`)):rep(1))"),
    l("mc:luau", "local o# = {v = @A}\nfunction o#:get(d: number): number return self.v + d end\nlocal r# = if flag1() then o#:get(1) else (o#):get(2)\nemit(r#, `{o#:get(3)}`)"),
    // ---------------- convert_square_root_call
    s("sq:basic", "emit(math.sqrt(@S), math.sqrt(2.25), math.sqrt(0), math.floor(math.sqrt(@S)))"),
    s("sq:statement", "math.sqrt(get1())\nmath.sqrt(4)\nmath.sqrt((get2()))\nmath.sqrt(@S, get1())\nlocal t# = {x = 9}\nmath.sqrt(t#.x)\nmath.sqrt'16'\nmath.sqrt(get1() + 1)\nmath.sqrt(2 * 8)"),
    s("sq:statement-discard", "local _ = {y = @A, f = function(v) emit('f', v) return v end}\nlocal t# = {x = 4}\npcall(function() math.sqrt{t#.x, _.y} end)\npcall(function() math.sqrt{get1(), t#.x, t#.x, _.f(1), t#.x, _[get2()]} end)\npcall(function() math.sqrt{[t#.x] = _.y, t#.x} end)\npcall(function() math.sqrt{t#.x, (t#.x), get1(), t#.x} end)\npcall(function() math.sqrt{a = t#.x, b = (_.y)} end)\nemit(_.y)"),
    s("sq:shadow-local", "do\n  local math = {sqrt = function(x) emit('fake', x) return -1 end}\n  emit(math.sqrt(4))\n  math.sqrt(9)\nend\nemit(math.sqrt(4))"),
    s("sq:shadow-param", "local function usem#(math) return math.sqrt(9) end\nemit(usem#({sqrt = function(x) return x * 2 end}), math.sqrt(9))"),
    s("sq:shadow-for", "for _, math in ipairs({{sqrt = function(x) return x + 100 end}}) do\n  emit(math.sqrt(1))\nend\nemit(math.sqrt(1))"),
    s("sq:shadow-later", "do\n  local function before#() return math.sqrt(@S) end\n  emit(math.sqrt(4))\n  local math = math\n  emit(math.sqrt(4), before#())\nend"),
    s("sq:shadow-localfn", "do\n  local function math() return 1 end\n  emit(math())\nend\nemit(math.sqrt(@S))"),
    s("sq:precedence", "local a# = -4\nlocal b# = 12\nlocal u# = 2\nemit(math.sqrt(-a#), math.sqrt(2 ^ 4), math.sqrt(b# + 4), math.sqrt(b# - 3), math.sqrt(u# * 8), math.sqrt('1' .. '6'), math.sqrt(false or 9), math.sqrt(a# and 25), math.sqrt(#'abcd'))"),
    s("sq:nested", "emit(math.sqrt(math.sqrt(16)), math.sqrt((math.sqrt(81))) + math.sqrt(1))"),
    s("sq:multi", "local function two#() return 16, 25 end\nlocal function va#(...) return math.sqrt(...) end\nemit(math.sqrt(two#()), math.sqrt((two#())), va#(4, 9), math.sqrt(4, 9))"),
    s("sq:string-arg", "emit(math.sqrt'16', math.sqrt('25'))"),
    s("sq:other-lib", "local m# = {sqrt = function(x) return 'mine' end}\nemit(m#.sqrt(4), math['sqrt'](4), (math).sqrt(9))"),
    s("sq:upvalue", "local function hyp#(x, y) return math.sqrt(x * x + y * y) end\nemit(hyp#(3, 4), hyp#(0, 0))"),
    l("sq:luau", "local x#: number = @S\nemit(math.sqrt(x# :: number), math.sqrt(if flag1() then 4 else 9), `{math.sqrt(16)}`)"),
];

const SQUARES: [&str; 8] = ["0", "1", "4", "9", "16", "25", "6.25", "1e4"];

fn instantiate(rng: &mut Rng, text: &str, id: usize) -> String {
    let mut out = String::new();
    let bytes: Vec<char> = text.chars().collect();
    let mut i = 0;
    while i < bytes.len() {
        let c = bytes[i];
        if c == '#' {
            // `'#'` (select('#', …)) and `#'abc'` / `#str` (length) stay
            let prev = if i > 0 { bytes[i - 1] } else { ' ' };
            if prev.is_ascii_alphanumeric() {
                out.push_str(&id.to_string());
            } else {
                out.push('#');
            }
        } else if c == '@' && i + 1 < bytes.len() {
            match bytes[i + 1] {
                'A' | 'B' | 'C' => out.push_str(&rng.range(0, 9).to_string()),
                'S' => out.push_str(*rng.pick(&SQUARES[..])),
                other => {
                    out.push('@');
                    out.push(other);
                }
            }
            i += 1;
        } else {
            out.push(c);
        }
        i += 1;
    }
    out
}

fn indent(text: &str) -> String {
    text.lines().map(|l| format!("  {}", l)).collect::<Vec<_>>().join("\n")
}

/// Two consecutive `local` declarations, every combination of
/// * value counts of each (none, fewer than names, equal, more, a multi-value call last) and
/// * how the second initialiser relates to the names of the first (independent, reads, reads the second
///   name, captures in a closure, writes through a closure, re-declares the same name, reads inside a table),
/// followed by an assignment to the first name (closures observe it) and `emit` of everything.
pub fn gl_matrix(rng: &mut Rng, id: usize) -> String {
    let n1 = 1 + rng.below(2);
    let n2 = 1 + rng.below(2);
    let a = format!("a{}", id);
    let b = format!("b{}", id);
    let first_names: Vec<String> = if n1 == 1 { vec![a.clone()] } else { vec![a.clone(), b.clone()] };
    let mut out = String::new();
    out.push_str(&format!("local function two{}() emit('two') return 7, 8 end\n", id));
    // values of a declaration with `n` names: (text after the names, "" for none)
    let values = |rng: &mut Rng, n: usize, lead: Option<String>, id: usize| -> String {
        let atom = |rng: &mut Rng| -> String {
            match rng.below(3) {
                0 => rng.range(0, 9).to_string(),
                1 => "get1()".to_owned(),
                _ => "get2()".to_owned(),
            }
        };
        let kind = rng.below(5);
        let mut vals: Vec<String> = Vec::new();
        let count = match kind {
            0 => 0,
            1 => n.saturating_sub(1),
            2 => n,
            3 => n + 1,
            _ => n, // multi-value call last
        };
        for _ in 0..count {
            vals.push(atom(rng));
        }
        if kind == 4 {
            let last = vals.len() - 1;
            vals[last] = format!("two{}()", id);
        }
        if let Some(l) = lead {
            if vals.is_empty() {
                vals.push(l);
            } else {
                vals[0] = l;
            }
        }
        if vals.is_empty() { String::new() } else { format!(" = {}", vals.join(", ")) }
    };
    out.push_str(&format!("local {}{}\n", first_names.join(", "), values(rng, n1, None, id)));
    // the second declaration
    let c = format!("c{}", id);
    let d = format!("d{}", id);
    let relation = rng.below(8);
    let mut closure_getters: Vec<String> = Vec::new();
    let mut second_names: Vec<String> = if n2 == 1 { vec![c.clone()] } else { vec![c.clone(), d.clone()] };
    let lead: Option<String> = match relation {
        0 => None,
        1 => Some(a.clone()),
        2 => Some(if n1 == 2 { b.clone() } else { a.clone() }),
        3 => {
            closure_getters.push(c.clone());
            Some(format!("function() return {} end", a))
        }
        4 => {
            closure_getters.push(c.clone());
            Some(format!("function(v) if v then {} = v end return {} end", a, a))
        }
        5 => {
            // re-declare the first name, reading the old one
            second_names[0] = a.clone();
            Some(format!("{}", a))
        }
        6 => Some(format!("{{{}, 1}}", a)),
        _ => {
            // re-declare without reading
            second_names[0] = a.clone();
            None
        }
    };
    let second_values = values(rng, n2, lead, id);
    out.push_str(&format!("local {}{}\n", second_names.join(", "), second_values));
    // a third one now and then (chains of merges)
    if rng.chance(1, 3) {
        let lead3 = if rng.chance(1, 2) { Some(a.clone()) } else { None };
        let third_values = values(rng, 1, lead3, id);
        out.push_str(&format!("local e{}{}\n", id, third_values));
        out.push_str(&format!("emit(e{})\n", id));
    }
    // observe
    if closure_getters.is_empty() || relation != 4 {
        out.push_str(&format!("{} = {}\n", a, 10 + rng.below(10)));
    }
    let mut shown: Vec<String> = Vec::new();
    for n in first_names.iter().chain(second_names.iter()) {
        if closure_getters.contains(n) {
            shown.push(format!("type({n}) == 'function' and {n}()", n = n));
            if relation == 4 {
                shown.push(format!("type({n}) == 'function' and {n}(5)", n = n));
            }
        } else if relation == 6 && *n == second_names[0] {
            shown.push(format!("type({n}) == 'table' and {n}[1]", n = n));
        } else {
            shown.push(n.clone());
        }
    }
    out.push_str(&format!("emit({})", shown.join(", ")));
    out
}

/// `focus`: restrict to snippets whose tag starts with one of these prefixes (empty = all)
pub fn generate(rng: &mut Rng, luau: bool, focus: &[&str]) -> (String, Vec<&'static str>) {
    let pool: Vec<&Snippet> = SNIPPETS
        .iter()
        .filter(|sn| luau || !sn.luau)
        .filter(|sn| focus.is_empty() || focus.iter().any(|f| sn.tag.starts_with(f)))
        .collect();
    let count = 2 + rng.below(6);
    let mut parts = Vec::new();
    let mut tags = Vec::new();
    let mut next_id = 1 + rng.below(3);
    let mut k = 0;
    let matrix_allowed = focus.is_empty() || focus.iter().any(|f| f.starts_with("gl"));
    while k < count {
        if matrix_allowed && rng.chance(1, if focus.is_empty() { 5 } else { 2 }) {
            k += 1;
            let body = gl_matrix(rng, next_id);
            next_id += 1;
            tags.push("gl:matrix");
            parts.push(if rng.chance(1, 3) { format!("do\n{}\nend", indent(&body)) } else { body });
            continue;
        }
        let sn = *rng.pick(&pool);
        // shapes outside the hypotheses: rare
        if (sn.tag == "f17-shape" || sn.tag == "receiver-reassigned") && !rng.chance(1, 6) {
            continue;
        }
        k += 1;
        let body = instantiate(rng, sn.text, next_id);
        next_id += 1;
        tags.push(sn.tag);
        let wrapped = match rng.below(8) {
            0 => format!("do\n{}\nend", indent(&body)),
            1 => format!("local function wrap{}(...)\n{}\nend\nwrap{}(1, 2)", next_id, indent(&body), next_id),
            2 => format!("for i{} = 1, 2 do\n{}\nend", next_id, indent(&body)),
            3 => format!("if flag2() then\n{}\nend", indent(&body)),
            4 => format!("local i{} = 0\nrepeat\n{}\n  i{} = i{} + 1\nuntil i{} >= 1", next_id, indent(&body), next_id, next_id, next_id),
            _ => body,
        };
        next_id += 1;
        parts.push(wrapped);
    }
    if rng.chance(1, 3) {
        parts.push("return get1(), 'end'".to_owned());
    }
    (parts.join("\n"), tags)
}
