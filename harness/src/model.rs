//! The Lean model driver (`dlv-model`) as a child process speaking the line protocol.
use std::io::{BufRead, BufReader, Write};
use std::process::{Child, ChildStdin, ChildStdout, Command, Stdio};

pub struct Model {
    child: Child,
    stdin: Option<ChildStdin>,
    stdout: BufReader<ChildStdout>,
    pub requests: u64,
}

pub fn driver_path() -> String {
    std::env::var("DLV_MODEL").unwrap_or_else(|_| {
        concat!(env!("CARGO_MANIFEST_DIR"), "/../lean/.lake/build/bin/dlv-model").to_owned()
    })
}

impl Model {
    pub fn spawn() -> Model {
        let mut child = Command::new(driver_path())
            .stdin(Stdio::piped())
            .stdout(Stdio::piped())
            .spawn()
            .expect("cannot start the Lean model driver (run setup: lake build dlv-model)");
        let stdin = child.stdin.take();
        let stdout = BufReader::new(child.stdout.take().unwrap());
        Model { child, stdin, stdout, requests: 0 }
    }

    /// one request, one answer (lock-step)
    pub fn ask(&mut self, line: &str) -> String {
        debug_assert!(!line.contains('\n'));
        let stdin = self.stdin.as_mut().unwrap();
        stdin.write_all(line.as_bytes()).unwrap();
        stdin.write_all(b"\n").unwrap();
        stdin.flush().unwrap();
        self.requests += 1;
        let mut answer = String::new();
        let n = self.stdout.read_line(&mut answer).expect("model driver died");
        if n == 0 {
            panic!("model driver closed its output on request: {}", line);
        }
        while answer.ends_with('\n') || answer.ends_with('\r') {
            answer.pop();
        }
        answer
    }

    /// many requests: written from a helper thread so neither pipe can fill up
    pub fn ask_batch(&mut self, lines: &[String]) -> Vec<String> {
        if lines.is_empty() {
            return Vec::new();
        }
        let mut stdin = self.stdin.take().unwrap();
        let payload: String = lines.iter().map(|l| format!("{}\n", l)).collect();
        let writer = std::thread::spawn(move || {
            stdin.write_all(payload.as_bytes()).unwrap();
            stdin.flush().unwrap();
            stdin
        });
        let mut answers = Vec::with_capacity(lines.len());
        for line in lines {
            let mut answer = String::new();
            let n = self.stdout.read_line(&mut answer).expect("model driver died");
            if n == 0 {
                panic!("model driver closed its output on request: {}", line);
            }
            while answer.ends_with('\n') || answer.ends_with('\r') {
                answer.pop();
            }
            answers.push(answer);
        }
        self.stdin = Some(writer.join().unwrap());
        self.requests += lines.len() as u64;
        answers
    }
}

impl Drop for Model {
    fn drop(&mut self) {
        drop(self.stdin.take());
        let _ = self.child.wait();
    }
}

pub fn hex(bytes: &[u8]) -> String {
    let mut s = String::with_capacity(bytes.len() * 2 + 1);
    s.push('x');
    for b in bytes {
        s.push_str(&format!("{:02x}", b));
    }
    s
}

pub fn unhex(s: &str) -> Option<Vec<u8>> {
    let s = s.strip_prefix('x')?;
    if s.len() % 2 != 0 {
        return None;
    }
    (0..s.len() / 2)
        .map(|i| u8::from_str_radix(&s[2 * i..2 * i + 2], 16).ok())
        .collect()
}

pub fn f64_wire(v: f64) -> String {
    format!("f{:016x}", v.to_bits())
}

pub fn wire_f64(s: &str) -> Option<f64> {
    let s = s.strip_prefix('f')?;
    u64::from_str_radix(s, 16).ok().map(f64::from_bits)
}
