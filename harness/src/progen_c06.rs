//! Targeted generator for C06 / C07: executable Luau programs that place every construct the nine
//! Luau-lowering rules target in every syntactic position (statements at top level, in function
//! bodies / closures / methods, loop bodies; expressions as call arguments and callees, table
//! constructor entries of the three kinds, conditions of if/while/repeat, numeric-for bounds,
//! generic-for headers, return lists, operands nested inside another instance of the same
//! construct, inside `typeof(…)` in annotations / casts / type instantiations).
//!
//! Programs are error-free by construction on the reference semantics: typed expression
//! generators (number / string / boolean), table keys from a fixed set, loops with literal
//! bounds, all effects through the externs `emit emit2 get1 flag1 …`.
//! `Opts` switches on the shapes that fall into the known-defect regions (F9, F25, F26).
use crate::rng::Rng;
use std::collections::BTreeSet;

#[derive(Clone, Copy, Debug, Default)]
pub struct Opts {
    /// `repeat … continue … until <reads a body local>` (finding F9)
    pub f9: bool,
    /// (finding F25 is fixed: if-expressions with several `elseif` branches are always generated)
    pub many_elifs: bool,
    /// `//` on an object with `__idiv` (finding F26)
    pub idiv_meta: bool,
}

pub struct G<'a> {
    rng: &'a mut Rng,
    lines: Vec<String>,
    pub tags: BTreeSet<&'static str>,
    uid: usize,
    opts: Opts,
    /// inside a region where `math` / `string` / `tostring` are shadowed: avoid CALLING the real ones
    shadowed: bool,
}

const PRELUDE: &str = r#"local T = {x = 1, y = 2, s = "a", 10, 20, n = {v = 3}}
G = 5
local function getT() emit("getT") return T end
local function key() emit("key") return "x" end
local function idx() emit("idx") return 1 end
local function two() emit("two") return 5, 6 end
local function id(...) return ... end
local mt = {}
mt.__index = function(t, k) emit2("index", k) return 7 end
mt.__newindex = function(t, k, v) emit2("newindex", k, v) end
mt.__add = function(a, b) emit("add") return 1 end
mt.__div = function(a, b) emit("div") return 8 end
mt.__concat = function(a, b) emit("concat") return "c" end
mt.__tostring = function(o) emit("tostring") return "<obj>" end
local O = setmetatable({}, mt)
local H = {t = T, T}
local KS = {k = "x", "x"}
local function getH() emit("getH") return H end
local function getKS() emit("getKS") return KS end
local function negone() emit("negone") return -1 end
local function lens() emit("lens") return "a" end
local KV = "x"
local F = {off = false, on = true, n = 5}"#;

impl<'a> G<'a> {
    pub fn new(rng: &'a mut Rng, opts: Opts) -> Self {
        G { rng, lines: Vec::new(), tags: BTreeSet::new(), uid: 0, opts, shadowed: false }
    }

    fn fresh(&mut self, base: &str) -> String {
        self.uid += 1;
        format!("{}{}", base, self.uid)
    }

    fn tag(&mut self, t: &'static str) {
        self.tags.insert(t);
    }

    // ---------------------------------------------------------------- expressions

    pub fn num(&mut self, d: usize) -> String {
        let top = if d == 0 { 4 } else { 22 };
        match self.rng.below(top) {
            0 => format!("{}", self.rng.range(1, 9)),
            1 => "T.x".to_owned(),
            2 => "get1()".to_owned(),
            3 => {
                self.tag("luau-number");
                (*self.rng.pick(&["0b101", "1_000", "0xF_F", "0B11", "1e1_0", "0b1_0", "100_", "2_", "0xF_", "0x_F", "1_000_", "0b1_"])).to_owned()
            }
            4 | 5 => {
                self.tag("floor-division");
                let a = self.num(d - 1);
                let b = *self.rng.pick(&["2", "3", "-2", "0.5", "7", "0", "(-0.75)"]);
                match self.rng.below(4) {
                    0 => format!("(-{} // {})", a, b),
                    1 => format!("(({} + 0.5) // {})", a, b),
                    _ => format!("({} // {})", a, b),
                }
            }
            6 | 7 => {
                self.tag("if-expression");
                let c = self.boolean(d - 1);
                let a = self.num(d - 1);
                let b = self.num(d - 1);
                if self.rng.chance(1, 3) {
                    let c2 = self.boolean(d - 1);
                    let m = self.num(d - 1);
                    if self.rng.chance(1, 2) {
                        self.tag("if-expression-many-elseif");
                        let c3 = self.boolean(d - 1);
                        let m2 = self.num(d - 1);
                        format!("(if {} then {} elseif {} then {} elseif {} then {} else {})", c, a, c2, m, c3, m2, b)
                    } else {
                        self.tag("if-expression-elseif");
                        format!("(if {} then {} elseif {} then {} else {})", c, a, c2, m, b)
                    }
                } else {
                    format!("(if {} then {} else {})", c, a, b)
                }
            }
            8 => {
                self.tag("cast");
                let a = self.num(d - 1);
                format!("({} :: number)", a)
            }
            9 => {
                let s = self.string(d - 1);
                format!("#{}", s)
            }
            10 => {
                let a = self.num(d - 1);
                format!("id({})", a)
            }
            11 => "(two())".to_owned(),
            12 => "select('#', two())".to_owned(),
            13 => {
                let a = self.num(d - 1);
                let b = self.num(d - 1);
                format!("({} {} {})", a, self.rng.pick(&["+", "-", "*"]), b)
            }
            14 => {
                self.tag("type-instantiation");
                let a = self.num(d - 1);
                format!("id<<number>>({})", a)
            }
            15 => {
                self.tag("typeof-hides-construct");
                let a = self.num(d - 1);
                let hidden = self.typeof_operand(d - 1);
                format!("({} :: typeof({}))", a, hidden)
            }
            16 => {
                self.tag("floor-division-string-operand");
                "(\"7\" // 2)".to_owned()
            }
            17 => {
                self.tag("if-expression-multi");
                let c = self.boolean(d - 1);
                format!("(if {} then two() else id(3, 4))", c)
            }
            18 => {
                self.tag("typeof-hides-construct");
                let a = self.num(d - 1);
                let hidden = self.typeof_operand(d - 1);
                format!("id<<typeof({})>>({})", hidden, a)
            }
            19 => {
                self.tag("cast-multi");
                "(two() :: number)".to_owned()
            }
            20 => {
                // table constructor positions
                self.tag("in-table-constructor");
                let a = self.num(d - 1);
                let b = self.num(d - 1);
                let c = self.num(d - 1);
                match self.rng.below(3) {
                    0 => format!("({{{}, {}}})[2]", a, b),
                    1 => format!("({{k = {}}}).k", a),
                    _ => format!("({{[{}] = {}}})[{}]", "\"q\"", c, "\"q\""),
                }
            }
            _ => {
                // function expression called in place: body position
                self.tag("in-function-expression");
                let a = self.num(d - 1);
                format!("(function() return {} end)()", a)
            }
        }
    }

    pub fn string(&mut self, d: usize) -> String {
        let top = if d == 0 { 2 } else { 9 };
        match self.rng.below(top) {
            0 => {
                if self.rng.chance(1, 4) {
                    // Luau / Lua 5.2+ escape spellings in a quoted string TOKEN (C07 finding F31: retain_lines keeps them)
                    self.tag("luau-string-escape");
                    (*self.rng.pick(&["\"\\x41\"", "\"\\u{48}i\"", "\"a\\z   b\"", "'\\x7a\\u{7A}'"])).to_owned()
                } else {
                    (*self.rng.pick(&["\"a\"", "\"b%c\"", "\"\"", "'x y'", "\"100%\""])).to_owned()
                }
            }
            1 => "T.s".to_owned(),
            2 | 3 | 4 => self.interp(d - 1),
            5 => {
                self.tag("if-expression");
                let c = self.boolean(d - 1);
                let a = self.string(d - 1);
                let b = self.string(d - 1);
                format!("(if {} then {} else {})", c, a, b)
            }
            6 => {
                let a = self.string(d - 1);
                let b = self.string(d - 1);
                format!("({} .. {})", a, b)
            }
            7 => {
                self.tag("cast");
                let a = self.string(d - 1);
                format!("({} :: string)", a)
            }
            _ => {
                if self.shadowed {
                    "\"t\"".to_owned()
                } else {
                    let a = self.num(d - 1);
                    format!("tostring({})", a)
                }
            }
        }
    }

    fn interp(&mut self, d: usize) -> String {
        self.tag("interpolated-string");
        let n = self.rng.below(4);
        let mut s = String::from("`");
        let texts = ["a", "b ", "100% ", "%s", "%d%%", "\\{", "\\n", "'q\"", "\\t", "-", "", "\\x41", "\\u{48}", "c\\z  d"];
        if n == 0 {
            // no value segment (possibly empty)
            if self.rng.chance(1, 2) {
                s.push_str(*self.rng.pick(&texts));
                self.tag("interp-text-only");
            } else {
                self.tag("interp-empty");
            }
        }
        for i in 0..n {
            if self.rng.chance(2, 3) || i > 0 {
                s.push_str(*self.rng.pick(&texts));
            }
            let v = match self.rng.below(8) {
                0 => "nil".to_owned(),
                1 => self.boolean(d),
                2 | 3 => self.num(d),
                4 => self.string(d),
                5 => {
                    self.tag("interp-tostring-metamethod");
                    "O".to_owned()
                }
                6 => "two()".to_owned(),
                _ => "T.n".to_owned(),
            };
            s.push_str(&format!("{{{}}}", v));
            if self.rng.chance(1, 2) {
                s.push_str(*self.rng.pick(&texts));
            }
        }
        if n == 1 {
            self.tag("interp-one-value");
        }
        s.push('`');
        s
    }

    pub fn boolean(&mut self, d: usize) -> String {
        let top = if d == 0 { 3 } else { 8 };
        match self.rng.below(top) {
            0 => "flag1()".to_owned(),
            1 => "true".to_owned(),
            2 => "false".to_owned(),
            3 => {
                let a = self.num(d - 1);
                let b = self.num(d - 1);
                format!("({} {} {})", a, self.rng.pick(&["<", "<=", "==", "~="]), b)
            }
            4 => {
                let a = self.boolean(d - 1);
                format!("(not {})", a)
            }
            5 => {
                self.tag("if-expression");
                let c = self.boolean(d - 1);
                let a = self.boolean(d - 1);
                let b = self.boolean(d - 1);
                format!("(if {} then {} else {})", c, a, b)
            }
            6 => {
                let a = self.string(d - 1);
                let b = self.string(d - 1);
                format!("({} == {})", a, b)
            }
            _ => {
                self.tag("cast");
                let a = self.boolean(d - 1);
                format!("({} :: boolean)", a)
            }
        }
    }

    /// what a `typeof(…)` hides: any expression, or (half of the time) a call of a function expression whose BODY has
    /// statements with a compound assignment, a floor division and an interpolated string — the scope visitors
    /// must walk into the operand of `typeof` as well (never evaluated at run time)
    fn typeof_operand(&mut self, d: usize) -> String {
        if self.rng.chance(1, 2) {
            self.tag("typeof-hides-function-body");
            let v = self.fresh("tv");
            match self.rng.below(3) {
                0 => format!("(function() local {v} = 0 {v} += 1 return {v} end)()", v = v),
                1 => format!("(function() local {v} = {{n = 7}} {v}.n //= 2 {v}[`n`] -= 1 return {v}.n // 1 end)()", v = v),
                _ => format!("(function({v}) for i = 1, 2 do if i == 1 then continue end {v} ..= `{{i}}` end return {v} end)(\"\")", v = v),
            }
        } else {
            self.any(d)
        }
    }

    /// a condition of an if-expression whose results matter: truthy at run time more often than not
    fn ifx_condition(&mut self, d: usize) -> String {
        match self.rng.below(7) {
            0 => "true".to_owned(),
            1 => "(not false)".to_owned(),
            2 => "flag1()".to_owned(),
            3 => "F.on".to_owned(),
            4 => "T.x".to_owned(),
            5 => "false".to_owned(),
            _ => self.boolean(d),
        }
    }

    /// then-result; the flag says "may be falsy at run time"
    /// an if-expression whose FIRST condition is statically falsy and one of whose `elseif` conditions is only known at
    /// run time (truthy there), yielding nil / false — while the branch a too-eager static evaluation lands on is
    /// truthy: as a branch RESULT it must not be taken for statically truthy
    fn ifx_nested_falsy(&mut self) -> String {
        self.tag("if-expression-nested-falsy-in-result");
        let c0 = *self.rng.pick(&["false", "nil", "(\"a\" == \"b\")"]);
        let t0 = *self.rng.pick(&["1", "\"s\"", "true"]);
        let c1 = *self.rng.pick(&["flag1()", "F.on", "T.x"]);
        let r1 = *self.rng.pick(&["nil", "false", "F.off"]);
        let t2 = *self.rng.pick(&["2", "\"e\"", "{}"]);
        let body = if self.rng.chance(1, 2) {
            format!("if {} then {} elseif {} then {} elseif true then 9 else {}", c0, t0, c1, r1, t2)
        } else {
            format!("if {} then {} elseif {} then {} else {}", c0, t0, c1, r1, t2)
        };
        if self.rng.chance(1, 2) { format!("({})", body) } else { body }
    }

    fn ifx_then_result(&mut self, d: usize) -> (String, bool) {
        match self.rng.below(12) {
            9 | 10 => (self.ifx_nested_falsy(), true),
            11 => (self.any(d), true),
            0 => ("nil".to_owned(), true),
            1 => ("false".to_owned(), true),
            2 => ("F.off".to_owned(), true),
            3 => ("(not true)".to_owned(), true),
            4 => ("flag1()".to_owned(), true),
            5 => (self.boolean(d), true),
            6 => ((*self.rng.pick(&["1", "\"s\"", "{}", "true", "0"])).to_owned(), false),
            7 => ("F.n".to_owned(), false),
            _ => (self.num(d), false),
        }
    }

    /// else-result; the flag says "statically nil"
    fn ifx_else_result(&mut self, d: usize) -> (String, bool) {
        match self.rng.below(8) {
            0 | 1 => ("nil".to_owned(), true),
            2 => ("(nil)".to_owned(), true),
            3 => ("false".to_owned(), false),
            4 => ("F.zz".to_owned(), false),
            5 => ("F.off".to_owned(), false),
            6 => (self.num(d), false),
            _ => (self.any(d), false),
        }
    }

    /// any value, including falsy if-expression results
    pub fn any(&mut self, d: usize) -> String {
        match self.rng.below(6) {
            0 => self.num(d),
            1 => self.string(d),
            2 => self.boolean(d),
            3 => {
                // then-result and else-result drawn INDEPENDENTLY from
                // {nil, false, falsy at run time but unknown, truthy literal, truthy unknown} x
                // {nil, (nil), false, number, unknown}; conditions that are truthy at run time often;
                // alone or as the LAST elseif of a chain (the rule folds the chain from that end)
                self.tag("if-expression-falsy");
                let c = self.ifx_condition(d.saturating_sub(1));
                let (t, t_falsy) = self.ifx_then_result(d.saturating_sub(1));
                let (e, e_nil) = self.ifx_else_result(d.saturating_sub(1));
                if t_falsy && e_nil {
                    self.tag("if-expression-falsy-result-nil-else");
                }
                if self.rng.chance(1, 3) {
                    self.tag("if-expression-falsy-last-elseif");
                    let c0 = match self.rng.below(3) {
                        0 => "false".to_owned(),
                        1 => "F.off".to_owned(),
                        _ => self.boolean(d.saturating_sub(1)),
                    };
                    let (a, _) = self.ifx_then_result(d.saturating_sub(1));
                    format!("(if {} then {} elseif {} then {} else {})", c0, a, c, t, e)
                } else {
                    format!("(if {} then {} else {})", c, t, e)
                }
            }
            4 => {
                self.tag("if-expression-truthy-literal");
                let c = self.boolean(d.saturating_sub(1));
                let e = self.any(d.saturating_sub(1));
                let r = *self.rng.pick(&["1", "\"s\"", "{1}", "function() end", "true", "(1 + 1)", "0"]);
                format!("(if {} then {} else {})", c, r, e)
            }
            _ => {
                if self.opts.idiv_meta && self.rng.chance(1, 2) {
                    self.tag("idiv-meta-shape");
                    "(OI // 2)".to_owned()
                } else {
                    self.num(d)
                }
            }
        }
    }

    // ---------------------------------------------------------------- statements

    fn push(&mut self, line: String) {
        self.lines.push(line);
    }

    fn emit_any(&mut self, d: usize) {
        let n = 1 + self.rng.below(2);
        let args: Vec<String> = (0..n).map(|_| self.any(d)).collect();
        self.push(format!("emit({})", args.join(", ")));
    }

    /// an index KEY that evaluates to an existing key of `T` ("x" or 1), one shape per `Expression`
    /// variant `replace_with` classifies, written BARE (no parentheses) with an effectful operand
    fn key_variant(&mut self) -> (String, &'static str) {
        match self.rng.below(17) {
            0 => ("key() :: string".to_owned(), "key-typecast"),
            1 => ("getKS().k :: any".to_owned(), "key-typecast"),
            2 => ("key() .. \"\"".to_owned(), "key-binary"),
            3 => ("-negone()".to_owned(), "key-unary"),
            4 => ("#lens()".to_owned(), "key-unary"),
            5 => ("getKS().k".to_owned(), "key-field"),
            6 => ("getKS()[idx()]".to_owned(), "key-index"),
            7 => ("id<<string>>(key())".to_owned(), "key-call-instantiated"),
            8 => ("KV<<string>>".to_owned(), "key-type-instantiation"),
            9 => ("key()".to_owned(), "key-call"),
            10 => ("(key() :: string)".to_owned(), "key-paren-typecast"),
            11 => ("(KV)".to_owned(), "key-paren-identifier"),
            12 => ("if flag1() then key() else key()".to_owned(), "key-if-expression"),
            13 => ("`x`".to_owned(), "key-interpolated"),
            14 => ("KV".to_owned(), "key-identifier"),
            15 => ("`{key()}`".to_owned(), "key-interpolated-effect"),
            _ => ("(function() emit(\"fnkey\") return \"x\" end)()".to_owned(), "key-call-of-function"),
        }
    }

    /// a PREFIX that evaluates to `T`, one shape per `Prefix` variant, with an effectful operand
    fn prefix_variant(&mut self) -> (String, &'static str) {
        match self.rng.below(9) {
            0 => ("getT()".to_owned(), "prefix-call"),
            1 => ("getH().t".to_owned(), "prefix-field"),
            2 => ("getH()[idx()]".to_owned(), "prefix-index"),
            3 => ("(getT())".to_owned(), "prefix-paren-call"),
            4 => ("(T)".to_owned(), "prefix-paren-identifier"),
            5 => ("T".to_owned(), "prefix-identifier"),
            6 => ("(getT() :: any)".to_owned(), "prefix-paren-typecast"),
            7 => ("H.t<<number>>".to_owned(), "prefix-type-instantiation"),
            _ => ("(if flag1() then getT() else T)".to_owned(), "prefix-paren-if-expression"),
        }
    }

    fn compound(&mut self, d: usize) {
        self.tag("compound-assignment");
        let op = *self.rng.pick(&["+=", "-=", "*=", "/=", "//=", "%=", "^="]);
        if op == "//=" {
            self.tag("floor-division-assign");
        }
        let v = self.num(d);
        match self.rng.below(28) {
            20 | 21 | 22 | 23 => {
                // prefix[key] with every classified prefix / key variant
                let (pfx, ptag) = self.prefix_variant();
                let (key, ktag) = self.key_variant();
                self.tag(ptag);
                self.tag(ktag);
                let stmt = format!("{}[{}] {} {}", pfx, key, op, v);
                let stmt = if stmt.starts_with('(') { format!("do {} end", stmt) } else { stmt };
                self.push(format!("{} emit(T.x, T[1])", stmt));
            }
            24 | 25 => {
                let (key, ktag) = self.key_variant();
                self.tag(ktag);
                self.push(format!("T[{}] {} {} emit(T.x, T[1])", key, op, v));
            }
            26 => {
                let (pfx, ptag) = self.prefix_variant();
                self.tag(ptag);
                let stmt = format!("{}.x {} {}", pfx, op, v);
                let stmt = if stmt.starts_with('(') { format!("do {} end", stmt) } else { stmt };
                self.push(format!("{} emit(T.x)", stmt));
            }
            27 => {
                self.tag("key-vararg");
                let f = self.fresh("vk");
                self.push(format!("local function {f}(...) T[...] {} {} return T.x end emit({f}(\"x\"))", op, v, f = f));
            }
            0 => {
                let x = self.fresh("v");
                self.push(format!("local {} = 2 {} {} {} emit({})", x, x, op, v, x));
            }
            1 => self.push(format!("T.x {} {} emit(T.x)", op, v)),
            2 => self.push(format!("T[\"y\"] {} {} emit(T.y)", op, v)),
            3 => {
                self.tag("compound-effectful-key");
                self.push(format!("T[key()] {} {} emit(T.x)", op, v));
            }
            4 => {
                self.tag("compound-effectful-prefix");
                self.push(format!("getT().x {} {} emit(T.x)", op, v));
            }
            5 => {
                self.tag("compound-effectful-prefix");
                self.tag("compound-effectful-key");
                self.push(format!("getT()[key()] {} {} emit(T.x)", op, v));
            }
            6 => self.push(format!("do (T).x {} {} end emit(T.x)", op, v)),
            7 => self.push(format!("do (T)[(\"y\")] {} {} end emit(T.y)", op, v)),
            8 => self.push(format!("T.n.v {} {} emit(T.n.v)", op, v)),
            9 => self.push(format!("T[idx()] {} {} emit(T[1])", op, v)),
            10 => {
                self.tag("compound-metamethods");
                self.push(format!("O.foo += {}", v));
            }
            11 => {
                self.tag("compound-key-if-expression");
                self.push(format!("T[if flag1() then \"x\" else \"y\"] {} {} emit(T.x, T.y)", op, v));
            }
            12 => {
                self.tag("compound-key-interpolated");
                self.push(format!("T[`x`] {} {} emit(T.x)", op, v));
            }
            13 => self.push(format!("G {} {} emit(G)", op, v)),
            14 => {
                self.tag("compound-upvalue");
                let x = self.fresh("u");
                let f = self.fresh("bump");
                self.push(format!("local {} = 1 local function {}() {} {} {} return {} end emit({}(), {}())", x, f, x, op, v, x, f, f));
            }
            15 => {
                self.tag("compound-concat");
                let x = self.fresh("s");
                let s = self.string(d);
                self.push(format!("local {} = \"p\" {} ..= {} emit({})", x, x, s, x));
            }
            16 => {
                self.tag("compound-user-darklua-var");
                let name = *self.rng.pick(&["__DARKLUA_VAR", "__DARKLUA_VAR0"]);
                self.push(format!("do local {} = {{x = 40}} getT()[key()] {} {} + {}.x emit(T.x, {}.x) end", name, op, v, name, name));
            }
            17 => {
                self.tag("compound-nested-in-idiv-assign");
                let x = self.fresh("c");
                self.push(format!("local {} = 0 T[(function() {} += 1 emit({}) return \"x\" end)()] //= 2 emit(T.x, {})", x, x, x, x));
            }
            18 => {
                self.tag("compound-paren-key-call");
                self.push(format!("T[(key())] {} {} emit(T.x)", op, v));
            }
            _ => {
                self.tag("compound-value-multi");
                self.push(format!("T.y {} two() emit(T.y)", if op == "^=" { "+=" } else { op }));
            }
        }
        // keep T.x / T.y tame for later arithmetic
        self.push("T.x = 1 T.y = 2 T[1] = 10 T.n.v = 3 G = 5".to_owned());
    }

    fn loop_with_continue(&mut self, d: usize) {
        self.tag("continue");
        let i = self.fresh("i");
        let c = self.boolean(d);
        match self.rng.below(18) {
            15 | 16 | 17 => {
                // the loop body FIRST holds a function expression / `function name()` statement whose body has a loop
                // WITHOUT `continue` (its frame must be popped all the same), THEN a nested `continue` of the outer loop
                self.tag("continue-after-function-with-plain-loop");
                let g = self.fresh("Gf");
                let j = self.fresh("j");
                let inner = match self.rng.below(3) {
                    0 => format!("for {j} = 1, 2 do emit({j}) end", j = j),
                    1 => format!("local {j} = 0 while {j} < 2 do {j} += 1 end", j = j),
                    _ => format!("local {j} = 0 repeat {j} += 1 until {j} >= 2", j = j),
                };
                let func = match self.rng.below(4) {
                    3 => {
                        // … or the plain loop directly in the body (no function barrier)
                        self.tag("continue-after-plain-inner-loop");
                        inner.clone()
                    }
                    0 => format!("function {g}(n) {inner} return n end emit({g}({i}))", g = g, inner = inner, i = i),
                    1 => format!("local {g} = function(n) {inner} return n end emit({g}({i}))", g = g, inner = inner, i = i),
                    _ => format!("emit((function(n) {inner} return n end)({i}))", inner = inner, i = i),
                };
                let head = match self.rng.below(3) {
                    0 => format!("for {i} = 1, 3 do", i = i),
                    1 => format!("local {i} = 0 while {i} < 3 do {i} += 1", i = i),
                    _ => format!("for _, {i} in ipairs({{1, 2, 3}}) do", i = i),
                };
                if self.rng.chance(1, 3) {
                    // … or the `continue` FIRST and the plain loop after it: the outer loop must still be wrapped
                    self.tag("continue-before-plain-inner-loop");
                    self.push(format!("{head} if {i} == 2 then continue end {func} emit(\"tail\", {i}) end", head = head, func = func, i = i));
                } else {
                    self.push(format!("{head} {func} if {i} == 2 then continue end emit(\"tail\", {i}) end", head = head, func = func, i = i));
                }
            }
            0 => {
                self.tag("continue-numeric-for");
                self.push(format!("for {i} = 1, 4 do if {i} % 2 == 0 then continue end emit({i}) if {i} == 3 then break end end", i = i));
            }
            1 => {
                self.tag("continue-while");
                self.push(format!("local {i} = 0 while {i} < 4 do {i} += 1 if {c} then continue end emit({i}) if {i} == 3 then break end end", i = i, c = c));
            }
            2 => {
                self.tag("continue-repeat");
                self.push(format!("local {i} = 0 repeat {i} += 1 if {c} then continue end emit({i}) until {i} >= 3", i = i, c = c));
            }
            3 => {
                self.tag("continue-generic-for");
                self.push(format!("for _, {i} in ipairs({{1, 2, 3}}) do if {i} == 2 then continue end emit({i}) end", i = i));
            }
            4 => {
                self.tag("continue-last-of-loop-body");
                self.push(format!("for {i} = 1, 2 do emit({i}) continue end", i = i));
            }
            5 => {
                self.tag("continue-nested-loops");
                let j = self.fresh("j");
                self.push(format!("for {i} = 1, 3 do for {j} = 1, 3 do if {j} == 2 then continue end if {j} == 3 then break end emit({i}, {j}) end if {i} == 2 then continue end emit({i}) end", i = i, j = j));
            }
            6 => {
                self.tag("continue-in-nested-blocks");
                self.push(format!("for {i} = 1, 3 do do if {c} then do continue end end end emit({i}) end", i = i, c = c));
            }
            7 => {
                self.tag("continue-with-return");
                let f = self.fresh("f");
                self.push(format!("local function {f}() for {i} = 1, 5 do if {i} == 1 then continue end if {i} == 4 then return {i} end emit({i}) end return 0 end emit({f}())", f = f, i = i));
            }
            8 => {
                self.tag("continue-loop-in-function-in-loop");
                let j = self.fresh("j");
                self.push(format!("for {i} = 1, 2 do local g = function() for {j} = 1, 2 do if {j} == 1 then continue end emit({j}) end end g() if {i} == 1 then continue end emit({i}) end", i = i, j = j));
            }
            9 => {
                self.tag("continue-repeat-cond-effect");
                self.push(format!("local {i} = 0 repeat {i} += 1 if {i} == 1 then continue end emit({i}) until emit(\"cond\") or {i} >= 3", i = i));
            }
            10 => {
                if self.opts.f9 {
                    self.tag("f9-shape");
                    self.push(format!("local {i} = 0 repeat {i} += 1 local x = {i} if x == 1 then continue end emit(x) until x >= 3", i = i));
                } else {
                    self.tag("continue-repeat");
                    self.push(format!("local {i} = 0 repeat {i} += 1 local x = {i} if x == 1 then continue end emit(x) until {i} >= 3", i = i));
                }
            }
            12 | 13 => {
                // the loop body has a LAST statement of its own (unconditional `break` / `return`) after a
                // conditional `continue`: the wrapper must not set the flag on that path (`flag = true` is
                // only appended to bodies without a last statement), for every loop kind
                self.tag("continue-body-with-last-statement");
                let f = self.fresh("cl");
                let head = match self.rng.below(3) {
                    0 => format!("for {i} = 1, 4 do", i = i),
                    1 => format!("local {i} = 0 while {i} < 4 do {i} += 1", i = i),
                    _ => format!("for _, {i} in ipairs({{1, 2, 3, 4}}) do", i = i),
                };
                if self.rng.chance(1, 2) {
                    self.push(format!("{head} if {i} == 1 then continue end emit({i}) break end emit(\"after\")", head = head, i = i));
                } else {
                    self.push(format!("local function {f}() {head} if {i} < 2 then continue end emit({i}) return {i} end return 0 end emit({f}())", f = f, head = head, i = i));
                }
            }
            _ => {
                self.tag("continue-else-branch");
                self.push(format!("for {i} = 1, 3 do if {c} then emit(\"t\") elseif {i} == 2 then continue else emit(\"e\") end emit({i}) end", i = i, c = c));
            }
        }
    }

    fn positions(&mut self, d: usize) {
        match self.rng.below(15) {
            11 => {
                // `f { … }`: Arguments::Table — its entries are a position of their own
                self.tag("in-table-call-arguments");
                let a = self.any(d);
                let b = self.any(d);
                let c = self.num(d);
                let k = self.string(d);
                self.push(format!("emit {{ {}, n = {}, [{}] = {} }}", a, b, k, c));
            }
            12 => {
                self.tag("in-table-call-arguments");
                self.tag("continue-in-table-call-function");
                let i = self.fresh("i");
                let a = self.any(d);
                self.push(format!("emit {{ (function() for {i} = 1, 3 do if {i} == 2 then continue end emit({i}, {}) end return 0 end)() }}", a, i = i));
            }
            13 => {
                self.tag("in-method-table-call-arguments");
                self.tag("continue-in-table-call-function");
                let m = self.fresh("tc");
                let i = self.fresh("i");
                let a = self.num(d);
                self.push(format!("local {m} = {{}} function {m}:run(t) return t.f() + t[1] end emit({m}:run {{ {}, f = function() local n = 0 for {i} = 1, 3 do if {i} == 2 then continue end n += {i} end return n end }})", a, m = m, i = i));
            }
            14 => {
                self.tag("in-string-call-arguments");
                let c = self.boolean(d);
                self.push(format!("emit \"sugar\" emit [[long]] do local r = (if {} then emit else emit2) \"s\" emit(r) end", c));
            }
            0 => {
                self.tag("in-condition-if");
                let c = self.boolean(d);
                self.push(format!("if {} then emit(\"then\") else emit(\"else\") end", c));
            }
            1 => {
                self.tag("in-condition-while");
                let a = self.num(d);
                self.push(format!("while {} < 0 do break end", a));
            }
            2 => {
                self.tag("in-condition-repeat");
                let c = self.boolean(d);
                self.push(format!("repeat emit(\"r\") until {} or true", c));
            }
            3 => {
                self.tag("in-numeric-for-bounds");
                let a = self.num(d);
                self.push(format!("for i = (7 // 2), 4, (if flag1() then 1 else 1) do emit(i, {}) end", a));
            }
            4 => {
                self.tag("in-generic-for-header");
                let a = self.any(d);
                let b = self.num(d);
                self.push(format!("for k, v in pairs({{{}, {}}}) do emit(k, v) end", b, a));
            }
            5 => {
                self.tag("in-return-list");
                let f = self.fresh("f");
                let a = self.any(d);
                let b = self.any(d);
                self.push(format!("local function {f}() return {}, {} end emit({f}())", a, b, f = f));
            }
            6 => {
                self.tag("in-call-arguments");
                let a = self.any(d);
                let b = self.any(d);
                self.push(format!("emit2({}, {})", a, b));
            }
            7 => {
                self.tag("in-callee-and-prefix");
                let c = self.boolean(d);
                let k = self.rng.range(1, 5);
                self.push(format!("do local r = (if {} then emit else emit2)(\"callee\") emit(r, ({{x = {}}}).x) end", c, k));
            }
            8 => {
                self.tag("in-table-constructor");
                let a = self.any(d);
                let b = self.any(d);
                let c = self.num(d);
                let k = self.string(d);
                self.push(format!("emit({{{}, n = {}, [{}] = {}}})", a, b, k, c));
            }
            9 => {
                self.tag("in-method-body");
                let a = self.any(d);
                let m = self.fresh("obj");
                self.push(format!("local {m} = {{}} function {m}:get(p) T.x += p return {} end emit({m}:get(1)) T.x = 1", a, m = m));
            }
            _ => {
                self.tag("in-vararg-function");
                let a = self.num(d);
                let f = self.fresh("va");
                self.push(format!("local function {f}(...) local n = select('#', ...) n += {} return n, ... end emit({f}(1, 2))", a, f = f));
            }
        }
    }

    fn types_and_attributes(&mut self, d: usize) {
        match self.rng.below(16) {
            0 => {
                self.tag("type-annotated-local");
                let x = self.fresh("ta");
                let a = self.num(d);
                self.push(format!("local {}: number, _unused: string? = {} emit({})", x, a, x));
            }
            1 => {
                self.tag("type-generic-function");
                let f = self.fresh("gf");
                self.push(format!("local function {f}<T, U...>(x: T, ...: U...): T return x end emit({f}(1, 2))", f = f));
            }
            2 => {
                self.tag("type-declaration");
                let t = self.fresh("Ty");
                self.push(format!("type {t}<K = string> = {{ x: number, [K]: boolean, f: (a: number, ...string) -> (number, ...any) }} | nil", t = t));
            }
            3 => {
                self.tag("type-typeof-annotation");
                let x = self.fresh("tq");
                let hidden = self.typeof_operand(d);
                let a = self.num(d);
                self.push(format!("local {}: typeof({}) = {} emit({})", x, hidden, a, x));
            }
            4 => {
                self.tag("attribute");
                let f = self.fresh("nf");
                let a = self.num(d);
                match self.rng.below(4) {
                    0 => self.push(format!("@native local function {f}(a) return a + {} end emit({f}(1))", a, f = f)),
                    1 => self.push(format!("local {f} = @native function(a) return a + {} end emit({f}(1))", a, f = f)),
                    2 => self.push(format!("local H{f} = {{}} @native @checked function H{f}.m(a) return @deprecated function() return a + {} end end emit(H{f}.m(1)())", a, f = f)),
                    _ => self.push(format!("@deprecated @native local function {f}(a) local inner = @native function() return a end return inner() end emit({f}({}))", a, f = f)),
                }
            }
            5 => {
                self.tag("const");
                let x = self.fresh("K");
                let a = self.num(d);
                self.push(format!("const {} = {} emit({})", x, a, x));
            }
            6 => {
                self.tag("const-function");
                let f = self.fresh("kf");
                let a = self.num(d);
                self.push(format!("const function {f}(p) const q: number = p + {} return q end emit({f}(1))", a, f = f));
            }
            7 => {
                self.tag("type-numeric-for-annotation");
                self.push("for i: number = 1, 2 do emit(i) end for k: number, v: any in ipairs({5}) do emit(k, v) end".to_owned());
            }
            8 => {
                self.tag("type-function-statement-types");
                let f = self.fresh("sf");
                self.push(format!("local M{f} = {{}} function M{f}.go<T>(a: T, b: number?, ...: any): (T, number) return a, 1 end emit(M{f}.go(2))", f = f));
            }
            9 => {
                self.tag("type-instantiation-method");
                let m = self.fresh("mo");
                self.push(format!("local {m} = {{}} function {m}:m<T>(a: T) return a end emit({m}:m<<number>>(3), {m}.m<<number>>({m}, 4))", m = m));
            }
            10 => {
                self.tag("type-function");
                let f = self.fresh("tf");
                self.push(format!("type function {}(a) return a end", f));
            }
            14 | 15 => {
                // generic ANONYMOUS function expressions (table field, call argument, nested): remove_types must drop
                // the generics of function expressions too, with and without tokens
                self.tag("type-generic-function-expression");
                let g = self.fresh("gx");
                let a = self.num(d);
                match self.rng.below(3) {
                    0 => self.push(format!("local {g} = {{ f = function<T>(v: T): T return v end }} emit({g}.f({a}))", g = g, a = a)),
                    1 => self.push(format!("emit(id(function<T...>(...: T...): ...any return ... end)({a}, 2))", a = a)),
                    _ => self.push(format!("emit((function<A, B>(x: A, y: B) return (function<C>(z: C): C return z end)(x), y end)({a}, 1))", a = a)),
                }
            }
            11 | 12 => {
                // a BARE cast of a call that returns two values, in the positions where a second value
                // would be observable: the cast truncates to one value, so must what replaces it
                self.tag("type-cast-bare-multi-value");
                let r = self.fresh("rc");
                match self.rng.below(4) {
                    0 => self.push("emit(two() :: any)".to_owned()),
                    1 => self.push(format!("local {r}a, {r}b = two() :: any emit({r}a, {r}b)", r = r)),
                    2 => self.push("emit(#{two() :: any}, #{1, two() :: number})".to_owned()),
                    _ => self.push(format!("local function {r}() return two() :: any end emit({r}())", r = r)),
                }
            }
            _ => {
                self.tag("type-cast-positions");
                let a = self.num(d);
                let b = self.string(d);
                self.push(format!("emit({{({} :: number), k = ({} :: string)}}, (two() :: any))", a, b));
            }
        }
    }

    fn shadowing(&mut self, d: usize) {
        self.tag("shadowed-library");
        let was = self.shadowed;
        self.shadowed = true;
        let a = self.num(d);
        let s = self.interp(d);
        let s2 = self.interp(d);
        match self.rng.below(6) {
            0 => self.push(format!("do local math = {{floor = function(x) emit(\"fake floor\") return 0 end}} emit({} // 2, (7 // 2), math.floor(1)) end", a)),
            1 => self.push(format!("do local string = {{format = function() emit(\"fake format\") return \"f\" end}} emit({}, {}) end", s, s2)),
            2 => self.push(format!("do local function tostring(x) emit(\"fake tostring\") return \"?\" end emit({}, {}) end", s, s2)),
            3 => self.push(format!("for math = 1, 2 do emit(math // 2, {}) end", s)),
            4 => self.push(format!("local function sh(string, tostring, math) return {}, {}, (9 // 2) end emit(sh(1, 2, 3))", s, s2)),
            _ => self.push(format!("do local tostring, string = 1, 2 local f = function() return {}, `{{tostring}}-{{string}}` end emit(f()) end emit({})", s, s2)),
        }
        self.shadowed = was;
    }

    pub fn program(mut self, budget: usize) -> (String, BTreeSet<&'static str>) {
        self.lines.push(PRELUDE.to_owned());
        if self.opts.idiv_meta {
            self.lines.push(
                "local OI = setmetatable({}, {__idiv = function() emit(\"idiv\") return 1 end, __div = function() emit(\"div\") return 2.5 end})"
                    .to_owned(),
            );
        }
        let n = 3 + self.rng.below(budget.max(4));
        for _ in 0..n {
            let d = self.rng.below(3);
            match self.rng.below(13) {
                0 | 1 | 2 => self.compound(d),
                3 | 4 => self.loop_with_continue(d),
                5 | 6 => self.positions(d),
                7 | 8 => self.types_and_attributes(d),
                9 => self.shadowing(d),
                _ => self.emit_any(d + 1),
            }
        }
        let r = self.any(1);
        self.lines.push(format!("return {}, T.x", r));
        (self.lines.join("\n"), self.tags)
    }
}

pub fn generate(rng: &mut Rng, opts: Opts, budget: usize) -> (String, BTreeSet<&'static str>) {
    G::new(rng, opts).program(budget)
}
