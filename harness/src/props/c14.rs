//! Property C14 — data files convert to Lua values equal to the data.
//!
//! CORRESPONDENCE: the real `to_expression` (through `verif_hooks::to_expression`) on a serde
//! value vs the Lean model `toExpr` (`c14.ser`) on the same value recorded by an independent
//! recording serializer; expressions exchanged as S-expressions.
//! ORACLE (independent of the model): the text `darklua_core::convert_data` returns must parse
//! with darklua's `Parser`; an independent small Lua reader/evaluator (c14_lua.rs) evaluates that
//! text; the value must equal (a) the parsed data of the format's value type and (b) the
//! document the generator meant, by a structural walker written from the property statement.
//! The re-parsed real AST is also evaluated by the Lean reference semantics (`c14.eval`, the
//! `evalExpr` of the theorems) and must agree with the independent evaluator.
// public so that other properties (C17 injects data values) can reuse the document generator,
// the recording serializer, the S-expression writer for real expressions and the Lua reader
#[path = "c14_data.rs"]
pub mod data;
#[path = "c14_gen.rs"]
pub mod gen;
#[path = "c14_lua.rs"]
pub mod lua;

use crate::model::Model;
use crate::report::{known_findings, Report, Violation};
use crate::rng::Rng;
use data::{record, D, S};
use gen::{Fmt, G, P};
use lua::{LK, LV};
use serde_json::{json, Value};
use std::panic::{catch_unwind, AssertUnwindSafe};

/// For other properties: the Lean model request that computes what `to_expression` must build
/// for `value` (answer: the expression as an S-expression in the grammar of
/// lean/DarkluaModel/C14/Driver.lean, or `refused`), from the independent recording serializer.
/// Compare the answer with `real_expression_sexp` of the real expression.
pub fn model_ser_request<T: serde::Serialize + ?Sized>(value: &T) -> Result<String, String> {
    record(value).map(|d| format!("c14.ser {}", d.to_sexp()))
}

/// the S-expression of a real expression, strict (see `lua::expr_sexp`)
pub fn real_expression_sexp(e: &darklua_core::nodes::Expression) -> String {
    let mut s = String::new();
    lua::expr_sexp(e, true, &mut s);
    s
}

// ---------------------------------------------------------------------------------------
// the walker: does the Lua value equal the data? (written from the property statement)

fn nearest_double(i: i128) -> f64 {
    // correctly rounded decimal parsing = the nearest double, ties to even
    i.to_string().parse::<f64>().unwrap()
}

fn p_key(k: &P) -> Result<LK, String> {
    match k {
        P::Str(s) => Ok(LK::Str(s.as_bytes().to_vec())),
        P::Bool(b) => Ok(LK::Bool(*b)),
        P::Int(i) => lua::num_key(nearest_double(*i)).ok_or_else(|| "NaN key".to_owned()),
        P::Float(f) => lua::num_key(*f).ok_or_else(|| "a NaN key denotes no Lua key".to_owned()),
        P::Null => Err("a null key denotes no Lua key".to_owned()),
        _ => Err("a container key is outside the property".to_owned()),
    }
}

fn same_number(expected: f64, got: f64) -> bool {
    (expected.is_nan() && got.is_nan()) || expected.to_bits() == got.to_bits()
}

fn data_eq(p: &P, v: Option<&LV>, path: &str) -> Result<(), String> {
    let nil = LV::Nil;
    let v = v.unwrap_or(&nil);
    match (p, v) {
        (P::Null, LV::Nil) => Ok(()),
        (P::Bool(a), LV::Bool(b)) if a == b => Ok(()),
        (P::Int(i), LV::Num(f)) if same_number(nearest_double(*i), *f) => Ok(()),
        (P::Float(x), LV::Num(f)) if same_number(*x, *f) => Ok(()),
        (P::Str(s), LV::Str(b)) if s.as_bytes() == b.as_slice() => Ok(()),
        (P::Bytes(s), LV::Str(b)) if s == b => Ok(()),
        (P::Arr(xs), LV::Table(t)) => {
            let mut present = 0;
            for (i, x) in xs.iter().enumerate() {
                let key = LK::Num(((i + 1) as f64).to_bits());
                let got = lua::table_get(t, &key);
                if got.is_some() {
                    present += 1;
                }
                data_eq(x, got, &format!("{}[{}]", path, i + 1))?;
            }
            if present != t.len() {
                return Err(format!("{}: the table has {} keys that are not indices 1..{}", path, t.len() - present, xs.len()));
            }
            Ok(())
        }
        (P::Obj(kvs), LV::Table(t)) => {
            let mut present = std::collections::BTreeSet::new();
            for (k, x) in kvs {
                let key = p_key(k).map_err(|e| format!("{}: {}", path, e))?;
                let got = lua::table_get(t, &key);
                if got.is_some() {
                    present.insert(key.clone());
                }
                data_eq(x, got, &format!("{}.{:?}", path, key))?;
            }
            if present.len() != t.len() {
                return Err(format!("{}: the table has {} keys that are not keys of the object", path, t.len() - present.len()));
            }
            Ok(())
        }
        (P::Opaque(what), _) => Err(format!("{}: {} is outside the property", path, what)),
        (p, v) => Err(format!("{}: data {} but Lua value {}", path, brief_p(p), brief_v(v))),
    }
}

fn brief_p(p: &P) -> String {
    let s = format!("{:?}", p);
    s.chars().take(80).collect()
}
fn brief_v(v: &LV) -> String {
    let s = format!("{:?}", v);
    s.chars().take(80).collect()
}

/// the property's own scope, judged on the parsed data (independent of Lean's `H14`): no opaque
/// values; every object key a string, boolean or non-NaN number; keys of one object pairwise
/// distinct as Lua keys
fn scope(p: &P) -> Result<(), &'static str> {
    match p {
        P::Opaque(w) => Err(w),
        P::Arr(xs) => xs.iter().try_for_each(scope),
        P::Obj(kvs) => {
            let mut seen = std::collections::BTreeSet::new();
            for (k, v) in kvs {
                match k {
                    // no Lua key: the conversion must refuse these (F15, fixed)
                    P::Null => {}
                    P::Float(f) if f.is_nan() => {}
                    P::Arr(_) | P::Obj(_) | P::Bytes(_) => return Err("container-key"),
                    P::Opaque(w) => return Err(w),
                    _ => {
                        let key = p_key(k).map_err(|_| "bad-key")?;
                        if !seen.insert(key) {
                            return Err("keys-equal-in-lua");
                        }
                    }
                }
                scope(v)?;
            }
            Ok(())
        }
        _ => Ok(()),
    }
}

/// some object, at any depth, has a null or NaN key: no Lua table can hold the data, the
/// conversion has to refuse (and may refuse for no other reason)
fn has_keyless_entry(p: &P) -> bool {
    match p {
        P::Arr(xs) => xs.iter().any(has_keyless_entry),
        P::Obj(kvs) => kvs.iter().any(|(k, v)| {
            matches!(k, P::Null) || matches!(k, P::Float(f) if f.is_nan()) || has_keyless_entry(k) || has_keyless_entry(v)
        }),
        _ => false,
    }
}

// ---------------------------------------------------------------------------------------
// real code

struct Real {
    data: D,
    expr: String,
    text: String,
    parsed: P,
}

enum Parsed {
    Rejected(String),
    Ok(Real),
    /// `to_expression` returned an error
    Refused(D, P, String),
    Failed(String),
}

fn run_real<T: serde::Serialize>(value: &T, parsed: P) -> Parsed {
    let data = match record(value) {
        Ok(d) => d,
        Err(e) => return Parsed::Failed(format!("recorder: {}", e)),
    };
    let r = catch_unwind(AssertUnwindSafe(|| {
        let expr = darklua_core::verif_hooks::to_expression(value)?;
        let text = darklua_core::convert_data(value).map_err(|e| e.to_string())?;
        Ok::<_, String>((expr, text))
    }));
    match r {
        Ok(Ok((expr, text))) => {
            let mut s = String::new();
            lua::expr_sexp(&expr, true, &mut s);
            Parsed::Ok(Real { data, expr: s, text, parsed })
        }
        Ok(Err(e)) => Parsed::Refused(data, parsed, e),
        Err(_) => Parsed::Failed("panic".to_owned()),
    }
}

/// parse exactly as `src/cli/convert.rs` and `path_require_mode::require_resource` do
fn parse_and_convert(fmt: Fmt, text: &str) -> Parsed {
    match fmt {
        Fmt::Json | Fmt::Json5 => match json5::from_str::<serde_json::Value>(text) {
            Ok(v) => {
                let p = gen::json_to_p(&v);
                run_real(&v, p)
            }
            Err(e) => Parsed::Rejected(e.to_string()),
        },
        Fmt::Yaml => match serde_yaml::from_str::<serde_yaml::Value>(text) {
            Ok(v) => {
                let p = gen::yaml_to_p(&v);
                run_real(&v, p)
            }
            Err(e) => Parsed::Rejected(e.to_string()),
        },
        Fmt::Toml => match toml::from_str::<toml::Value>(text) {
            Ok(v) => {
                let p = gen::toml_to_p(&v);
                run_real(&v, p)
            }
            Err(e) => Parsed::Rejected(e.to_string()),
        },
    }
}

/// canonical form of a Lean value S-expression / of an `LV`, for comparison
fn lv_canon(v: &LV) -> String {
    match v {
        LV::Nil => "nil".into(),
        LV::Bool(b) => format!("(bool {})", b),
        LV::Num(f) => {
            if f.is_nan() {
                "(num nan)".into()
            } else {
                format!("(num f{:016x})", f.to_bits())
            }
        }
        LV::Str(s) => format!("(str {})", crate::model::hex(s)),
        LV::Table(t) => {
            let mut items: Vec<String> = t
                .iter()
                .map(|(k, v)| {
                    let k = match k {
                        LK::Num(b) => format!("(n f{:016x})", b),
                        LK::Str(s) => format!("(str {})", crate::model::hex(s)),
                        LK::Bool(b) => format!("(bool {})", b),
                    };
                    format!("({} {})", k, lv_canon(v))
                })
                .collect();
            items.sort();
            format!("(table {})", items.join(" "))
        }
    }
}

/// parse the Lean answer `(ok <val>)` into an `LV` (keys normalised like `LK`)
fn lean_val(ans: &str) -> Result<LV, String> {
    let toks: Vec<String> = ans.replace('(', " ( ").replace(')', " ) ").split_whitespace().map(str::to_owned).collect();
    fn val(t: &[String], i: &mut usize) -> Result<LV, String> {
        let tok = t.get(*i).ok_or("eof")?.clone();
        *i += 1;
        if tok == "nil" {
            return Ok(LV::Nil);
        }
        if tok != "(" {
            return Err(format!("unexpected {}", tok));
        }
        let head = t.get(*i).ok_or("eof")?.clone();
        *i += 1;
        let r = match head.as_str() {
            "bool" => {
                let b = t[*i] == "true";
                *i += 1;
                LV::Bool(b)
            }
            "num" => {
                let f = crate::model::wire_f64(&t[*i]).ok_or("bad f64")?;
                *i += 1;
                LV::Num(f)
            }
            "str" => {
                let s = crate::model::unhex(&t[*i]).ok_or("bad hex")?;
                *i += 1;
                LV::Str(s)
            }
            "table" => {
                let mut items = Vec::new();
                while t.get(*i).map(String::as_str) == Some("(") {
                    *i += 1; // pair
                    if t.get(*i).map(String::as_str) != Some("(") {
                        return Err("key".into());
                    }
                    *i += 1;
                    let kh = t[*i].clone();
                    let kv = t[*i + 1].clone();
                    *i += 2;
                    let k = match kh.as_str() {
                        "int" => lua::num_key(kv.parse::<f64>().map_err(|_| "int")?).ok_or("nan")?,
                        "flt" => lua::num_key(crate::model::wire_f64(&kv).ok_or("flt")?).ok_or("nan")?,
                        "str" => LK::Str(crate::model::unhex(&kv).ok_or("hex")?),
                        "bool" => LK::Bool(kv == "true"),
                        _ => return Err("key kind".into()),
                    };
                    if t[*i] != ")" {
                        return Err("key close".into());
                    }
                    *i += 1;
                    let v = val(t, i)?;
                    if t[*i] != ")" {
                        return Err("pair close".into());
                    }
                    *i += 1;
                    items.push((k, v));
                }
                LV::Table(items)
            }
            other => return Err(format!("head {}", other)),
        };
        if t.get(*i).map(String::as_str) != Some(")") {
            return Err("close".into());
        }
        *i += 1;
        Ok(r)
    }
    let mut i = 0;
    if toks.len() < 3 || toks[0] != "(" || toks[1] != "ok" {
        return Err(ans.to_owned());
    }
    i += 2;
    val(&toks, &mut i)
}

// ---------------------------------------------------------------------------------------
// one case through all checks

struct Case {
    origin: Value,
    intent: Option<P>,
    real: Real,
}

struct Ctx<'a> {
    report: &'a mut Report,
    model: Model,
    /// explored cases (hash of the non-triviality key), folded into the main report at the end
    keys: Vec<Option<u64>>,
}

impl<'a> Ctx<'a> {
    /// the real serializer returned an error: allowed exactly when some key is null or NaN
    /// (oracle, judged on the parsed data), and the model must refuse as well (correspondence)
    fn refused(&mut self, data: D, parsed: P, err: String, input: Value) {
        self.report.hist("refused", err.split(" [").next().unwrap_or("?"));
        let mut oracle_failed = false;
        if !has_keyless_entry(&parsed) {
            oracle_failed = true;
            let what = format!("the conversion refused a document every key of which denotes a Lua key: {}", err);
            self.violation("oracle", "conversion-succeeds", what, input.clone(), true);
        }
        let d_sexp = data.to_sexp();
        let model = self.model.ask(&format!("c14.ser {}", d_sexp));
        if model != "refused" && !oracle_failed {
            let mut input = input;
            input["data"] = json!(d_sexp);
            self.violation("correspondence", "toExpr-vs-to_expression", format!("real: error {} / model {}", err, clip(&model)), input, false);
        }
        self.case(Some(format!("refused:{}", d_sexp)));
    }
    fn case(&mut self, key: Option<String>) {
        self.keys.push(key.map(|k| crate::report::hash_of(&k)));
    }
    fn violation(&mut self, kind: &str, check: &str, what: String, input: Value, found: bool) {
        self.report.violation(Violation {
            kind: kind.to_owned(),
            check: check.to_owned(),
            what,
            input,
            failing_input_found: found,
        });
    }

    /// returns the oracle verdict: Ok(in scope and fine) / Err(description)
    fn oracle(&mut self, case: &Case, in_h: bool) -> Result<(), (String, String)> {
        let real = &case.real;
        // (1) the emitted text parses with darklua's parser
        let parsed = catch_unwind(AssertUnwindSafe(|| darklua_core::Parser::default().parse(&real.text)));
        let block = match parsed {
            Ok(Ok(b)) => b,
            Ok(Err(e)) => return Err(("text-parses".into(), format!("emitted text does not parse: {:?}", e))),
            Err(_) => return Err(("text-parses".into(), "the parser panicked on the emitted text".into())),
        };
        // (2) independent evaluation of the text
        let value = match lua::eval_chunk(real.text.as_bytes()) {
            Ok(v) => v,
            Err(e) => {
                if in_h {
                    return Err(("text-evaluates".into(), format!("emitted text does not evaluate: {}", e)));
                }
                self.report.hist("outside_H", &format!("eval: {}", e.split(':').next().unwrap_or("?")));
                return Ok(());
            }
        };
        // (2b) the Lean reference semantics on the re-parsed real AST agrees with it
        if let Some(darklua_core::nodes::LastStatement::Return(ret)) = block.get_last_statement() {
            if let Some(e) = ret.iter_expressions().next() {
                let mut s = String::new();
                lua::expr_sexp(e, false, &mut s);
                let ans = self.model.ask(&format!("c14.eval {}", s));
                match lean_val(&ans) {
                    Ok(lv) => {
                        if lv_canon(&lv) != lv_canon(&value) {
                            return Err(("lean-eval-agrees".into(), format!("Spec.evalExpr on the re-parsed text gives {} but the independent evaluator {}", brief_v(&lv), brief_v(&value))));
                        }
                        self.report.count("lean_eval_agree", 1);
                    }
                    Err(e) => {
                        if in_h {
                            return Err(("lean-eval-agrees".into(), format!("Spec.evalExpr on the re-parsed text: {}", e)));
                        }
                    }
                }
            }
        }
        if !in_h {
            // outside the hypothesis: the value may or may not equal the data; just record
            let ok = data_eq(&real.parsed, Some(&value), "$").is_ok();
            self.report.hist("outside_H", if ok { "value equals data anyway" } else { "value differs" });
            return Ok(());
        }
        // (3) value equals the parsed data
        if let Err(e) = data_eq(&real.parsed, Some(&value), "$") {
            return Err(("value-equals-parsed-data".into(), e));
        }
        // (4) value equals the document as meant
        if let Some(intent) = &case.intent {
            if let Err(e) = data_eq(intent, Some(&value), "$") {
                return Err(("value-equals-document".into(), e));
            }
            self.report.count("intent_checked", 1);
        }
        Ok(())
    }

    fn check(&mut self, case: Case, key: String) {
        let d_sexp = case.real.data.to_sexp();
        let in_h_lean = self.model.ask(&format!("c14.H {}", d_sexp));
        let in_scope = scope(&case.real.parsed);
        let in_h = in_h_lean == "true";
        if case.origin["kind"] != "serde" && in_h != in_scope.is_ok() {
            let what = format!("Lean H14 says {} but the harness scope judgement says {:?}", in_h_lean, in_scope);
            self.violation("correspondence", "H14-vs-scope", what, case.origin.clone(), false);
        }
        self.report.hist("in_H14", if in_h { "inside" } else { in_scope.err().unwrap_or("outside") });
        // every JSON / JSON5 / TOML document must satisfy the data-only hypothesis of the corollary
        if matches!(case.origin["format"].as_str(), Some("json") | Some("json5") | Some("toml")) {
            let j = self.model.ask(&format!("c14.J {}", d_sexp));
            if j == "true" {
                self.report.count("jsonlike_documents", 1);
            } else {
                let what = format!("JsonLike is {} on a {} document", j, case.origin["format"]);
                self.violation("correspondence", "JsonLike-covers-format", what, case.origin.clone(), false);
            }
        }
        // oracle first: a failure of the property itself is the stronger finding
        let oracle = if has_keyless_entry(&case.real.parsed) {
            Err(("refuses-null-and-nan-keys".to_owned(), "a document with a null or NaN key was converted (the table constructor raises when run)".to_owned()))
        } else if case.origin["kind"] == "serde" && !in_h {
            Ok(())
        } else if case.origin["kind"] == "serde" {
            self.oracle_serde(&case)
        } else {
            self.oracle(&case, in_h)
        };
        let mut oracle_failed = false;
        if let Err((check, what)) = oracle {
            oracle_failed = true;
            let mut input = case.origin.clone();
            input["lua"] = json!(case.real.text);
            self.violation("oracle", &check, what, input, true);
        }
        // correspondence
        let model_expr = self.model.ask(&format!("c14.ser {}", d_sexp));
        if model_expr != case.real.expr {
            if !oracle_failed {
                // before reporting a bare model/code difference, search around the input for a
                // failing input of the property itself: every sub-document that is inside the
                // property's scope is converted on its own and judged by the oracle
                match search_failing_part(&case.real.parsed) {
                    Some((part, what)) => {
                        let input = json!({"kind": "serde", "found_by": "search around a correspondence difference",
                            "value": format!("{:?}", part), "around": case.origin});
                        self.violation("oracle", "value-equals-parsed-data", what, input, true);
                    }
                    None => {
                        let mut input = case.origin.clone();
                        input["data"] = json!(d_sexp);
                        let what = format!("model {} / real {}", clip(&model_expr), clip(&case.real.expr));
                        self.violation("correspondence", "toExpr-vs-to_expression", what, input, false);
                    }
                }
            }
        }
        let nontrivial = case.real.data.size() > 1;
        self.case(if nontrivial { Some(key) } else { None });
    }

    /// oracle for values that do not come from a document: evaluate the text, compare with the
    /// recorded data by the same walker (D -> P by plain matching)
    fn oracle_serde(&mut self, case: &Case) -> Result<(), (String, String)> {
        let real = &case.real;
        match catch_unwind(AssertUnwindSafe(|| darklua_core::Parser::default().parse(&real.text))) {
            Ok(Ok(_)) => {}
            _ => return Err(("text-parses".into(), "emitted text does not parse".into())),
        }
        let value = lua::eval_chunk(real.text.as_bytes()).map_err(|e| ("text-evaluates".to_owned(), e))?;
        data_eq(&real.parsed, Some(&value), "$").map_err(|e| ("value-equals-parsed-data".to_owned(), e))
    }
}

fn clip(s: &str) -> String {
    if s.len() > 300 {
        format!("{}…", s.chars().take(300).collect::<String>())
    } else {
        s.to_owned()
    }
}

/// parsed data -> a serde value that replays it (integers through i64 / u64 as the format
/// parsers do); `None` for what has no such value
fn p_to_s(p: &P) -> Option<S> {
    Some(match p {
        P::Null => S::Unit,
        P::Bool(b) => S::Bool(*b),
        P::Int(i) if *i >= 0 && *i <= u64::MAX as i128 => S::U64(*i as u64),
        P::Int(i) if *i >= i64::MIN as i128 && *i < 0 => S::I64(*i as i64),
        P::Int(_) => return None,
        P::Float(f) => S::F64(*f),
        P::Str(s) => S::Str(s.clone()),
        P::Bytes(b) => S::Bytes(b.clone()),
        P::Arr(xs) => S::Seq(xs.iter().map(p_to_s).collect::<Option<Vec<_>>>()?),
        P::Obj(kvs) => S::Map(kvs.iter().map(|(k, v)| Some((p_to_s(k)?, p_to_s(v)?))).collect::<Option<Vec<_>>>()?),
        P::Opaque(_) => return None,
    })
}

/// the sub-documents of `p` (itself included, keys too) that lie inside the property's scope and
/// contain no null / NaN key, converted on their own by the real code and judged by the oracle:
/// the first one on which the property fails
fn search_failing_part(p: &P) -> Option<(S, String)> {
    fn judge(p: &P) -> Option<(S, String)> {
        if scope(p).is_err() || has_keyless_entry(p) {
            return None;
        }
        let s = p_to_s(p)?;
        let text = match catch_unwind(AssertUnwindSafe(|| darklua_core::convert_data(&s))) {
            Ok(Ok(t)) => t,
            Ok(Err(e)) => return Some((s, format!("conversion refused: {}", e))),
            Err(_) => return Some((s, "conversion panicked".to_owned())),
        };
        match lua::eval_chunk(text.as_bytes()) {
            Err(e) => Some((s, format!("emitted text {} does not evaluate: {}", clip(&text), e))),
            Ok(v) => data_eq(p, Some(&v), "$").err().map(|e| (s, format!("{} in {}", e, clip(&text)))),
        }
    }
    // smallest parts first: leaves and small containers make the clearest failing inputs
    match p {
        P::Arr(xs) => {
            for x in xs {
                if let Some(f) = search_failing_part(x) {
                    return Some(f);
                }
            }
        }
        P::Obj(kvs) => {
            for (k, v) in kvs {
                if let Some(f) = search_failing_part(k).or_else(|| search_failing_part(v)) {
                    return Some(f);
                }
                // the entry's key on its own, in a one-entry object
                if let Some(f) = judge(&P::Obj(vec![(k.clone(), P::Bool(true))])) {
                    return Some(f);
                }
            }
        }
        _ => {}
    }
    judge(p)
}

/// D -> P for serde-level cases (bytes are strings on the Lua side; wrappers transparent)
fn d_to_p(d: &D) -> P {
    match d {
        D::Null => P::Null,
        D::Bool(b) => P::Bool(*b),
        D::I64(v) => P::Int(*v as i128),
        D::U64(v) => P::Int(*v as i128),
        D::F64(b) => P::Float(f64::from_bits(*b)),
        D::Str(s) => P::Str(String::from_utf8_lossy(s).into_owned()),
        D::Bytes(b) => P::Bytes(b.clone()),
        D::Some(d) => d_to_p(d),
        D::Seq(xs) => P::Arr(xs.iter().map(d_to_p).collect()),
        D::Map(kvs) => P::Obj(kvs.iter().map(|(k, v)| (d_to_p(k), d_to_p(v))).collect()),
        D::Variant(n, d) => P::Obj(vec![(P::Str(String::from_utf8_lossy(n).into_owned()), d_to_p(d))]),
    }
}

// ---------------------------------------------------------------------------------------
// serde-level generator

fn gen_s(rng: &mut Rng, depth: usize, as_key: bool) -> S {
    let leaf = depth == 0 || rng.chance(1, 2);
    if leaf || as_key {
        return match rng.below(if as_key { 14 } else { 20 }) {
            0 => S::Bool(rng.chance(1, 2)),
            1 => S::I8(rng.next_u64() as i8),
            2 => S::I16(rng.next_u64() as i16),
            3 => S::I32(rng.next_u64() as i32),
            4 => S::I64((rng.next_u64() as i64) >> rng.below(64)),
            5 => S::U8(rng.next_u64() as u8),
            6 => S::U16(rng.next_u64() as u16),
            7 => S::U32(rng.next_u64() as u32),
            8 => S::U64(rng.next_u64() >> rng.below(64)),
            9 => S::F32(f32::from_bits(rng.next_u64() as u32)),
            10 => S::F64(if rng.chance(1, 2) { f64::from_bits(rng.next_u64()) } else { rng.range(-50, 50) as f64 / 4.0 }),
            11 => S::Char(*rng.pick(&['a', '_', '1', '\0', '\'', 'é', '😀', '\n'])),
            12 => S::UnitVariant(rng.below(16)),
            13 => S::Str(gen::gen_string(rng)),
            14 => S::Unit,
            15 => S::None,
            16 => S::UnitStruct,
            17 => S::Bytes((0..rng.below(6)).map(|_| rng.next_u64() as u8).collect()),
            18 => S::Some(Box::new(gen_s(rng, 0, false))),
            _ => S::Newtype(Box::new(gen_s(rng, 0, false))),
        };
    }
    let n = rng.below(5);
    match rng.below(10) {
        0 => S::Seq((0..n).map(|_| gen_s(rng, depth - 1, false)).collect()),
        1 => S::Tuple((0..n).map(|_| gen_s(rng, depth - 1, false)).collect()),
        2 => S::TupleStruct((0..n).map(|_| gen_s(rng, depth - 1, false)).collect()),
        3 => S::TupleVariant(rng.below(16), (0..n).map(|_| gen_s(rng, depth - 1, false)).collect()),
        4 | 5 => S::Map((0..n).map(|_| (gen_s(rng, depth - 1, true), gen_s(rng, depth - 1, false))).collect()),
        6 => {
            let mut ks: Vec<usize> = (0..16).collect();
            rng.shuffle(&mut ks);
            S::Struct(ks.into_iter().take(n).map(|k| (k, gen_s(rng, depth - 1, false))).collect())
        }
        7 => {
            let mut ks: Vec<usize> = (0..16).collect();
            rng.shuffle(&mut ks);
            S::StructVariant(rng.below(16), ks.into_iter().take(n).map(|k| (k, gen_s(rng, depth - 1, false))).collect())
        }
        8 => S::NewtypeVariant(rng.below(16), Box::new(gen_s(rng, depth - 1, false))),
        _ => S::Some(Box::new(gen_s(rng, depth - 1, false))),
    }
}

// ---------------------------------------------------------------------------------------

fn doc_case(ctx: &mut Ctx, fmt: Fmt, text: &str, intent: Option<P>, tag: &str) {
    ctx.report.hist("format", fmt.name());
    match parse_and_convert(fmt, text) {
        Parsed::Rejected(e) => {
            if std::env::var("C14_DEBUG").is_ok() {
                eprintln!("REJECTED {} {:?}: {}", fmt.name(), text, e);
            }
            ctx.report.hist("rejected_by_format_parser", &format!("{}: {}", fmt.name(), e.split(" at ").next().unwrap_or("?").chars().take(60).collect::<String>()));
            ctx.case(None);
        }
        Parsed::Failed(e) => {
            let input = json!({"kind": tag, "format": fmt.name(), "text": text});
            ctx.violation("oracle", "conversion-succeeds", format!("convert_data failed on a parsed document: {}", e), input, true);
        }
        Parsed::Refused(data, parsed, e) => {
            let input = json!({"kind": tag, "format": fmt.name(), "text": text});
            ctx.refused(data, parsed, e, input);
        }
        Parsed::Ok(real) => {
            let origin = json!({"kind": tag, "format": fmt.name(), "text": text});
            let key = format!("{}:{}", fmt.name(), real.expr);
            ctx.check(Case { origin, intent, real }, key);
        }
    }
}

fn serde_case(ctx: &mut Ctx, s: &S) {
    let data = match record(s) {
        Ok(d) => d,
        Err(_) => return,
    };
    let parsed = d_to_p(&data);
    match run_real(s, parsed) {
        Parsed::Ok(real) => {
            let origin = json!({"kind": "serde", "value": format!("{:?}", s)});
            let key = format!("serde:{}", real.expr);
            ctx.check(Case { origin, intent: None, real }, key);
        }
        Parsed::Failed(e) => {
            let input = json!({"kind": "serde", "value": format!("{:?}", s)});
            ctx.violation("correspondence", "to_expression-total", format!("the real serializer panicked: {}", e), input, false);
        }
        Parsed::Refused(data, parsed, e) => {
            let input = json!({"kind": "serde", "value": format!("{:?}", s)});
            ctx.refused(data, parsed, e, input);
        }
        Parsed::Rejected(_) => {}
    }
}


// ---------------------------------------------------------------------------------------
// bundled `require` of a data file through the real `darklua_core::process`

fn find_mod_impl(block: &darklua_core::nodes::Block) -> Option<&darklua_core::nodes::Expression> {
    use darklua_core::nodes::{LastStatement, Statement};
    for st in block.iter_statements() {
        match st {
            Statement::Do(d) => {
                if let Some(e) = find_mod_impl(d.get_block()) {
                    return Some(e);
                }
            }
            Statement::LocalFunction(f) if f.get_name() == "__modImpl" => {
                if let Some(LastStatement::Return(r)) = f.get_block().get_last_statement() {
                    return r.iter_expressions().next();
                }
            }
            _ => {}
        }
    }
    None
}

/// the `generator` settings a bundle is produced with: every generator darklua has (the
/// token-based `retain_lines` one is the default of `darklua process`, also reached by leaving
/// the key out), and small column spans that move the line breaks of dense / readable around
const BUNDLE_GENERATORS: [Option<&str>; 7] = [
    Some("\"dense\""),
    Some("\"readable\""),
    Some("\"retain_lines\""),
    None,
    Some("{ \"name\": \"dense\", \"column_span\": 24 }"),
    Some("{ \"name\": \"readable\", \"column_span\": 24 }"),
    Some("{ \"name\": \"dense\", \"column_span\": 1 }"),
];

/// how the requiring file uses the data module (the inlined expression is the same)
const BUNDLE_MAINS: [&str; 3] = [
    "local value = require('./value.EXT')",
    "return require('./value.EXT')",
    "local t = { require('./value.EXT'), n = 1 }\nreturn t",
];

struct Bundled {
    /// the expression of `__modImpl`, re-read by darklua's parser, as a loose S-expression
    expr: String,
    /// the same expression read from the bundle text by the independent reader (c14_lua.rs)
    value: Result<LV, String>,
}

/// a Lua file requiring `./value.<ext>`, bundled with require mode `path` by the real
/// `darklua_core::process` under the given generator setting
fn bundle_expr(ext: &str, content: &str, generator: Option<&str>, main: &str) -> Result<Bundled, String> {
    let r = catch_unwind(AssertUnwindSafe(|| {
        let resources = darklua_core::Resources::from_memory();
        let w = |p: &str, c: &str| resources.write(p, c).map_err(|e| format!("{:?}", e));
        let config = match generator {
            Some(g) => format!("{{ \"rules\": [], \"generator\": {}, \"bundle\": {{ \"require_mode\": \"path\" }} }}", g),
            None => "{ \"rules\": [], \"bundle\": { \"require_mode\": \"path\" } }".to_owned(),
        };
        w(".darklua.json", &config)?;
        w(&format!("src/value.{}", ext), content)?;
        w("src/main.lua", &main.replace("EXT", ext))?;
        darklua_core::process(&resources, darklua_core::Options::new("src/main.lua").with_output("out.lua"))
            .map_err(|e| e.to_string())?
            .result()
            .map_err(|errs| errs.iter().map(|e| e.to_string()).collect::<Vec<_>>().join("; "))?;
        let out = resources.get("out.lua").map_err(|e| format!("{:?}", e))?;
        let block = darklua_core::Parser::default()
            .parse(&out)
            .map_err(|e| format!("bundle output does not parse: {:?} in {}", e, clip(&out)))?;
        let e = find_mod_impl(&block).ok_or_else(|| format!("no __modImpl in the bundle: {}", out))?;
        let mut s = String::new();
        lua::expr_sexp(e, false, &mut s);
        // independent reading of the same text: the body of `function __modImpl()`
        let value = match out.find("__modImpl") {
            // the first occurrence is the definition `local function __modImpl()`
            Some(at) => lua::eval_return_at(out.as_bytes(), at + "__modImpl".len()),
            None => Err("no `__modImpl` in the bundle text".to_owned()),
        };
        Ok::<_, String>(Bundled { expr: s, value })
    }));
    match r {
        Ok(x) => x,
        Err(_) => Err("panic".to_owned()),
    }
}

/// bundle the document under the generator settings `gens` (indices into BUNDLE_GENERATORS)
fn bundle_case(ctx: &mut Ctx, fmt: Fmt, text: &str, gens: &[usize]) {
    // what `convert` emits for the same document, re-read by the same parser
    let real = match parse_and_convert(fmt, text) {
        Parsed::Ok(r) => r,
        _ => return,
    };
    let convert_expr = match darklua_core::Parser::default().parse(&real.text) {
        Ok(block) => match block.get_last_statement() {
            Some(darklua_core::nodes::LastStatement::Return(r)) => {
                let mut s = String::new();
                if let Some(e) = r.iter_expressions().next() {
                    lua::expr_sexp(e, false, &mut s);
                }
                s
            }
            _ => return,
        },
        Err(_) => return,
    };
    let in_scope = scope(&real.parsed).is_ok();
    for &g in gens {
        let generator = BUNDLE_GENERATORS[g % BUNDLE_GENERATORS.len()];
        let main = BUNDLE_MAINS[(g / BUNDLE_GENERATORS.len() + text.len()) % BUNDLE_MAINS.len()];
        let ext = match (fmt, (text.len() + g) % 2) {
            (Fmt::Yaml, 0) => "yml",
            (f, _) => f.name(),
        };
        ctx.report.hist("bundle", ext);
        ctx.report.hist("bundle_generator", generator.unwrap_or("(absent: default retain_lines)"));
        let input = json!({"kind": "bundle", "format": fmt.name(), "text": text, "extension": ext,
            "generator": generator, "main": main});
        match bundle_expr(ext, text, generator, main) {
            Ok(b) if b.expr == convert_expr => {
                if in_scope {
                    // the inlined expression, read from the bundle text by the independent reader …
                    match &b.value {
                        Ok(v) => {
                            if let Err(e) = data_eq(&real.parsed, Some(v), "$") {
                                ctx.violation("oracle", "bundle-text-value-equals-parsed-data", e, input.clone(), true);
                            }
                        }
                        Err(e) => ctx.violation("oracle", "bundle-text-evaluates", e.clone(), input.clone(), true),
                    }
                    // … and by the Lean reference semantics on the re-parsed AST, against the parsed data
                    let ans = ctx.model.ask(&format!("c14.eval {}", b.expr));
                    match lean_val(&ans) {
                        Ok(v) => {
                            if let Err(e) = data_eq(&real.parsed, Some(&v), "$") {
                                ctx.violation("oracle", "bundle-value-equals-parsed-data", e, input, true);
                            }
                        }
                        Err(e) => ctx.violation("oracle", "bundle-value-evaluates", e, input, true),
                    }
                }
                ctx.report.count("bundle_checked", 1);
            }
            Ok(b) => {
                let what = format!("bundle inlines {} but convert emits {}", clip(&b.expr), clip(&convert_expr));
                ctx.violation("oracle", "bundle-same-as-convert", what, input, true);
            }
            Err(e) => ctx.violation("oracle", "bundle-succeeds", e, input, true),
        }
        ctx.case(None);
    }
}

fn txt_case(ctx: &mut Ctx, content: &str, g: usize) {
    ctx.report.hist("bundle", "txt");
    let generator = BUNDLE_GENERATORS[g % BUNDLE_GENERATORS.len()];
    let main = BUNDLE_MAINS[(g / BUNDLE_GENERATORS.len()) % BUNDLE_MAINS.len()];
    ctx.report.hist("bundle_generator", generator.unwrap_or("(absent: default retain_lines)"));
    let expected = format!("(str {})", crate::model::hex(content.as_bytes()));
    let input = json!({"kind": "bundle", "format": "txt", "text": content, "generator": generator, "main": main});
    match bundle_expr("txt", content, generator, main) {
        Ok(b) if b.expr == expected => {
            match &b.value {
                Ok(LV::Str(s)) if s.as_slice() == content.as_bytes() => ctx.report.count("bundle_checked", 1),
                other => ctx.violation("oracle", "txt-text-is-the-file-content", format!("the bundle text reads as {:?}", other).chars().take(300).collect(), input, true),
            }
        }
        Ok(b) => ctx.violation("oracle", "txt-is-the-file-content", format!("inlined {} expected {}", clip(&b.expr), clip(&expected)), input, true),
        Err(e) => ctx.violation("oracle", "bundle-succeeds", e, input, true),
    }
    ctx.case(Some(format!("txt:{}:{}", g % BUNDLE_GENERATORS.len(), content)));
}

/// strings around every threshold of the string writer's choice between quoted and long-bracket
/// form (20 / 60 bytes, 6 line feeds), with the endings and beginnings that matter for long
/// brackets (`]`, `]]`, `]=`, `=]`, a leading line feed), and shorter / non-printable controls
fn long_string_family() -> Vec<String> {
    let mut out = Vec::new();
    for &len in &[19usize, 20, 21, 59, 60, 61, 90] {
        for &newlines in &[0usize, 5, 6, 7] {
            for suffix in ["", "]", "]]", "]=", "=]", "]=]", " "] {
                for prefix in ["", "\n", "[", "[["] {
                    let fixed = prefix.len() + suffix.len();
                    if fixed + 2 * newlines > len {
                        continue;
                    }
                    let mut body = String::new();
                    for i in 0..(len - fixed) {
                        // line feeds spread over the body
                        let remaining_nl = newlines.saturating_sub(body.matches('\n').count());
                        if remaining_nl > 0 && i % 2 == 1 {
                            body.push('\n');
                        } else {
                            body.push(*b"key value-x".get(i % 11).unwrap() as char);
                        }
                    }
                    out.push(format!("{}{}{}", prefix, body, suffix));
                }
            }
        }
    }
    // other line breaks and white space: CR LF, LF CR, lone CR, TAB, FF, VT — once and six or more
    // times, in the middle, at the beginning and at the end — at the lengths around both thresholds.
    // Every one of these forbids the long-bracket form (a Lua lexer folds the line breaks to LF).
    for &len in &[20usize, 21, 60, 61, 90] {
        for brk in ["\r\n", "\n\r", "\r", "\t", "\u{c}", "\u{b}"] {
            for &count in &[1usize, 6, 7] {
                for placement in 0..3 {
                    let mut body = String::new();
                    let mut placed = 0;
                    if placement == 1 {
                        body.push_str(brk);
                        placed += 1;
                    }
                    let mut i = 0;
                    while body.len() + (if placement == 2 { brk.len() } else { 0 }) < len {
                        if placed < count - (if placement == 2 { 1 } else { 0 }) && i % 3 == 2 {
                            body.push_str(brk);
                            placed += 1;
                        } else {
                            body.push(*b"key value-x".get(i % 11).unwrap() as char);
                        }
                        i += 1;
                    }
                    if placement == 2 {
                        body.push_str(brk);
                    }
                    out.push(body);
                }
            }
        }
        // mixed with plain line feeds (>= 6 LF: the 20-byte rule) and with `]`
        out.push(format!("{}\r{}", "a\nb\n".repeat(4), "x".repeat(len.saturating_sub(17))));
        out.push(format!("{}\r\n]", "a\nb\n".repeat(4)) + &"y".repeat(len.saturating_sub(19)));
    }
    // controls: the same sizes with a character that forbids the long-bracket form
    out.push(format!("{}\t", "tab ".repeat(16)));
    out.push(format!("{}\u{e9}", "accent ".repeat(10)));
    out
}

/// directed documents: each string of the family as an object key, as a value and inside an
/// array, in every format, converted and bundled under every generator setting
fn directed_long_strings(ctx: &mut Ctx, rng: &mut Rng) {
    directed_strings(ctx, rng, long_string_family(), "directed-long-strings");
    ctx.report.exhaustive.insert(
        "long-string family (lengths 19/20/21/59/60/61/90 x 0/5/6/7 line feeds x 7 endings x 4 beginnings; lengths 20/21/60/61/90 x CRLF/LFCR/CR/TAB/FF/VT x 1/6/7 occurrences x 3 placements) as key, value, array element and .txt content, per format, bundled with dense/readable/retain_lines".into(),
        true,
    );
}

/// strings in which a character that the string writer escapes numerically (`\ddd`: a control
/// character without a named escape, DEL, NUL) is directly followed by a digit (the escape has
/// to be padded to three digits), by a letter or by nothing — after zero, one or several
/// multi-byte characters (2-, 3- and 4-byte encodings), so that byte and character positions differ
fn escape_digit_family() -> Vec<String> {
    let mut out = Vec::new();
    for prefix in ["", "a", "\u{e9}", "\u{65e5}\u{672c}", "\u{1f600}", "a\u{e9}b\u{e9}", "\u{e9}\u{e9}\u{e9}\u{e9}", "\u{7ff}\u{800}\u{ffff}\u{10000}"] {
        for ctrl in ['\u{1}', '\u{e}', '\u{1b}', '\u{1f}', '\u{7f}', '\0'] {
            for follower in ["2", "9", "0", "00", "a", "", "\u{e9}1"] {
                out.push(format!("{}{}{}", prefix, ctrl, follower));
                out.push(format!("{}{}{}{}{}", prefix, ctrl, follower, ctrl, follower));
            }
        }
    }
    out
}

fn directed_escape_strings(ctx: &mut Ctx, rng: &mut Rng) {
    directed_strings(ctx, rng, escape_digit_family(), "directed-escape-digit");
    ctx.report.exhaustive.insert(
        "escape+digit family (8 prefixes with 0..4 multi-byte characters x 6 numerically escaped characters x 7 followers, single and doubled) as key, value and array element, per format, converted and bundled".into(),
        true,
    );
}

/// directed documents: each string of the family as an object key, as a value and inside an
/// array, in every format, converted and bundled
fn directed_strings(ctx: &mut Ctx, rng: &mut Rng, family: Vec<String>, tag: &str) {
    let all: Vec<usize> = (0..BUNDLE_GENERATORS.len()).collect();
    for (n, s) in family.into_iter().enumerate() {
        let g = G::Obj(vec![
            (gen::GKey::Str(s.clone()), G::Num(gen::GNum::Int("1".into()))),
            (gen::GKey::Str("v".into()), G::Str(s.clone())),
            (gen::GKey::Str("a".into()), G::Arr(vec![G::Str(s.clone()), G::Obj(vec![(gen::GKey::Str(s.clone()), G::Str(s.clone()))])])),
        ]);
        for (k, fmt) in [Fmt::Json, Fmt::Json5, Fmt::Yaml, Fmt::Toml].into_iter().enumerate() {
            let text = gen::render(&g, fmt, rng);
            doc_case(ctx, fmt, &text, Some(gen::g_to_p(&g)), tag);
            // every generator on one format per string (rotating), the three named generators on all
            if (n + k) % 4 == 0 {
                bundle_case(ctx, fmt, &text, &all);
            } else {
                bundle_case(ctx, fmt, &text, &[0, 1, 2]);
            }
        }
        txt_case(ctx, &s, n);
    }
}

/// integers at the edges of the i64 / u64 paths of the serializer (negative ones, >= 2^63 ones,
/// neighbours of 2^53 and 2^63), each at top level, nested in arrays and objects and (YAML) as
/// a mapping key, in every format that can express it
fn directed_integers(ctx: &mut Ctx, rng: &mut Rng) {
    let two63: i128 = 1 << 63;
    let two64: i128 = 1 << 64;
    let mut values: Vec<i128> = vec![
        0, -1, -2, -255, -256, -65536, -4294967296, -(1 << 53), -(1 << 53) - 1, -(1 << 53) - 3, -two63, -two63 + 1,
        -two63 + 1024, -two63 + 1025, two63 - 1, two63, two63 + 1, two63 + 1024, two63 + 1025, two63 + 3072,
        two64 - 1, two64 - 1024, two64 - 1025, two64 - 2048, (1 << 53) + 1, (1 << 53) + 3, 1 << 62, (1 << 62) + 513,
    ];
    for k in 54..64 {
        values.push((1i128 << k) + 1);
        values.push(-(1i128 << k) - 1);
    }
    let all: Vec<usize> = (0..BUNDLE_GENERATORS.len()).collect();
    for (n, v) in values.into_iter().enumerate() {
        let num = || G::Num(gen::GNum::Int(v.to_string()));
        for (k, fmt) in [Fmt::Json, Fmt::Json5, Fmt::Yaml, Fmt::Toml].into_iter().enumerate() {
            let c = gen::caps(fmt);
            if v < c.int_min || v > c.int_max {
                continue;
            }
            let mut entries = vec![
                (gen::GKey::Str("v".into()), num()),
                (gen::GKey::Str("a".into()), G::Arr(vec![num(), G::Arr(vec![num(), G::Arr(vec![num()])]), G::Obj(vec![(gen::GKey::Str("k".into()), num())])])),
                (gen::GKey::Str("o".into()), G::Obj(vec![(gen::GKey::Str("p".into()), G::Obj(vec![(gen::GKey::Str("q".into()), G::Arr(vec![num()]))]))])),
            ];
            if c.scalar_keys {
                entries.push((gen::GKey::Num(gen::GNum::Int(v.to_string())), G::Arr(vec![num()])));
                entries.push((gen::GKey::Str("m".into()), G::Obj(vec![(gen::GKey::Num(gen::GNum::Int(v.to_string())), num())])));
            }
            let g = G::Obj(entries);
            let text = gen::render(&g, fmt, rng);
            doc_case(ctx, fmt, &text, Some(gen::g_to_p(&g)), "directed-integers");
            if (n + k) % 4 == 0 {
                bundle_case(ctx, fmt, &text, &all);
            } else {
                bundle_case(ctx, fmt, &text, &[0, 1, 2]);
            }
            if fmt != Fmt::Toml {
                // the bare number and a bare array as whole documents
                let top = G::Arr(vec![num(), G::Arr(vec![num()])]);
                let text = gen::render(&top, fmt, rng);
                doc_case(ctx, fmt, &text, Some(gen::g_to_p(&top)), "directed-integers");
            }
        }
    }
    ctx.report.exhaustive.insert(
        "edge integers (negative, >= 2^63, neighbours of 2^53..2^64) at top level, nested in arrays/objects and as YAML keys, per format, converted and bundled".into(),
        true,
    );
}

fn replay_known(ctx: &mut Ctx) {
    for f in known_findings("C14") {
        if f["status"] != "known" {
            continue; // fixed entries suppress nothing; their witnesses live in corpus/C14 and must pass
        }
        let id = f["id"].as_str().unwrap_or("?").to_owned();
        let w = &f["witness"];
        let fmt = match w["format"].as_str().and_then(Fmt::from_name) {
            Some(f) => f,
            None => continue,
        };
        let text = w["text"].as_str().unwrap_or("");
        let expect = w["expect"].as_str().unwrap_or("");
        if let Parsed::Ok(real) = parse_and_convert(fmt, text) {
            let evaluated = lua::eval_chunk(real.text.as_bytes());
            let still = match expect {
                "raises" => evaluated.is_err(),
                "differs-from-parsed-data" => match &evaluated {
                    Ok(v) => data_eq(&real.parsed, Some(v), "$").is_err(),
                    Err(_) => false,
                },
                "differs-from-document" => match (&evaluated, w["lua_expected"].as_str()) {
                    (Ok(v), Some(exp)) => lua::eval_chunk(exp.as_bytes()).map(|e| lv_canon(&e) != lv_canon(v)).unwrap_or(false),
                    _ => false,
                },
                _ => false,
            };
            if still {
                let what = format!("{} -> {} ({})", text.trim(), real.text.replace('\n', ""), match &evaluated {
                    Err(e) => e.clone(),
                    Ok(_) => expect.to_owned(),
                });
                ctx.report.known_finding(&id, &what);
            }
        }
    }
}

fn enumerated(ctx: &mut Ctx, rng: &mut Rng) {
    // every byte value valid UTF-8 can contain, as value and as key, in each format; every keyword
    // as key; digits-first / empty / quote keys
    let cps = gen::all_byte_code_points();
    let mut strings: Vec<String> = cps.iter().map(|c| c.to_string()).collect();
    strings.extend(cps.iter().map(|c| format!("{}7", c))); // escape followed by a digit
    strings.extend(gen::KEYWORDS.iter().map(|s| s.to_string()));
    strings.extend(["", "1", "1a", "a1", "_", "a b", "\"", "'", "\\", "\n", "a\"b'c", "goto", "continue", "self", "type"].iter().map(|s| s.to_string()));
    for fmt in [Fmt::Json, Fmt::Json5, Fmt::Yaml, Fmt::Toml] {
        for s in &strings {
            let g = G::Obj(vec![(gen::GKey::Str(s.clone()), G::Str(s.clone())), (gen::GKey::Str("ZZ_".into()), G::Arr(vec![G::Str(s.clone())]))]);
            let text = gen::render(&g, fmt, rng);
            doc_case(ctx, fmt, &text, Some(gen::g_to_p(&g)), "enumerated");
        }
    }
    ctx.report.exhaustive.insert("every UTF-8 byte value as key and value, every keyword as key, per format".into(), true);
}

const FIXED_DOCS: [(&str, &str); 26] = [
    ("json", "null"),
    ("json", "[]"),
    ("json", "{}"),
    ("json", "[null, null]"),
    ("json", "[1, null, 3, [null], {\"a\": null}]"),
    ("json", "{\"a\": {\"b\": {\"c\": [[], {}, [{}]]}}}"),
    ("json5", "{a: 0x10, b: +1, c: .5, d: 5., h: 18446744073709551615, j: -9223372036854775808, n: 9007199254740993, o: -0, p: -0.0, q: 1e2, r: 1E-2, s: -0x10}"),
    ("json5", "// c\n{'it\\'s': 'a\\\nb', \"\\u0000\": '\\x41\\0', }"),
    ("yaml", "[1e3, 1.5e3, .5, 5., +1, 0x1F, 0o17, .inf, -.inf, .nan, -0, -0.0, 0b11, 1e-7, ~, yes, \"a\\\n  b\"]"),
    ("yaml", "{true: 1, false: 2, 1: a, 2.5: b, -.inf: c, \"1\": d, 18446744073709551615: e}"),
    ("yaml", "a: &x [1, 2]\nb: *x\nc: |\n  line1\n  line2\nd: >\n  folded\n  text\n"),
    ("toml", "a = [1e3, 1.5e3, +1, 0x1F, 0o17, 1_000, inf, -inf, nan, -0, -0.0, 0b11, 1e-7, 9223372036854775807, -9223372036854775808]\n\"\" = 1\n1a = 2\n- = 3\n\"\\u0000\\u007f\" = \"\\u0000\\t\\U0001F600\"\nb = \"\"\"\nx\ny\"\"\"\nc = 'it\\n'\n"),
    ("toml", "[[t]]\nx = 1\n[[t]]\nx = 2\n[do.end]\nnil = true\n"),
    ("toml", "a.b.c = 1\na.b.d = [ [1, 2], [\"x\"] ]\n"),
    // a non-ASCII character, later a control character without a named escape directly followed by a
    // digit (the decimal escape must be zero padded), as array elements, values and object keys
    ("json", "[\"\u{e9}\\u00012\", \"\u{65e5}\u{672c}\\u001b9\", {\"\u{e9}\\u00012\": \"\u{65e5}\u{672c}\\u001b9\", \"\u{1f600}\\u007f0\": [\"a\u{e9}\\u000e7\\u00018\"]}]"),
    ("json5", "['\u{e9}\\x012', \"\u{65e5}\u{672c}\\u001b9\", {'\u{e9}\\x012': '\u{65e5}\u{672c}\\x1b9', \"\u{1f600}\\x7f0\": ['a\u{e9}\\x0e7\\x018'],}]"),
    ("yaml", "[\"\u{e9}\\x012\", \"\u{65e5}\u{672c}\\e9\", {\"\u{e9}\\x012\": \"\u{65e5}\u{672c}\\x1b9\", \"\\U0001F600\\x7f0\": [\"a\u{e9}\\x0e7\\x018\"]}]"),
    ("toml", "a = [\"\u{e9}\\u00012\", \"\u{65e5}\u{672c}\\u001B9\"]\n\"\u{e9}\\u00012\" = \"\u{65e5}\u{672c}\\u001b9\"\n[t]\n\"\\U0001F600\\u007f0\" = [\"a\u{e9}\\u000e7\\u00018\"]\n"),
    // negative integers and integers >= 2^63, nested in arrays / objects and (YAML) as keys
    ("json", "[-1, [-9223372036854775808, [9223372036854775808, 18446744073709551615]], {\"a\": {\"b\": [-9007199254740993, 9223372036854776833]}, \"c\": -9223372036854775807}]"),
    ("json", "{\"neg\": [[-1], [-255], [-65536], [-4294967296]], \"big\": {\"x\": [18446744073709550591, {\"y\": 9223372036854775809}]}}"),
    ("json5", "{neg: [-1, [-0x10, -9223372036854775808]], big: {x: [18446744073709551615, {y: 9223372036854775808}], z: 0xFFFFFFFFFFFFFFFF}}"),
    ("yaml", "- -1\n- [-9223372036854775808, [9223372036854775808, 18446744073709551615]]\n- {a: {b: [-9007199254740993, 9223372036854776833]}, c: -9223372036854775807}\n"),
    ("yaml", "{-1: a, -9223372036854775808: [-2], 9223372036854775808: {18446744073709551615: [18446744073709550591]}, -4294967296: {k: -65536}}"),
    ("yaml", "? -7\n: [-7, {-8: -8}]\n? 18446744073709551615\n: [18446744073709551615]\n"),
    ("toml", "neg = [-1, [-9223372036854775808, [-9007199254740993]], { a = -4294967296, b = [-65536] }]\nbig = [9223372036854775807, [9223372036854775806], { c = 9007199254740993 }]\n[t.u]\nv = -9223372036854775807\n"),
    ("toml", "[[r]]\nn = -1\n[[r]]\nn = [-2, [-3]]\n[s]\n-5 = -5\n"),
];

pub fn run(report: &mut Report, replay: Option<&str>) {
    report.rule = "documents: fixed corpus + per-format enumeration of every UTF-8 byte value/keyword as key and value + random nested documents (awkward keys, long strings, integers around 2^53..2^64, exponent forms, non-finite YAML/TOML numbers, nulls in arrays) rendered as JSON, JSON5, YAML, TOML; serde-level values reaching every serialize_* method. A case is non-trivial when the data has at least one container or wrapper; distinct = distinct (format, real expression).".to_owned();
    // decorrelate consecutive seeds (SplitMix streams of seeds s and s+1 are shifts of each other)
    let mut rng = Rng::new(report.seed.wrapping_mul(0x2545F4914F6CDD1D) ^ 0xC14C14);
    for _ in 0..(report.seed % 7) {
        rng.next_u64();
    }
    let _thorough = report.is_thorough();
    let mut ctx = Ctx { report, model: Model::spawn(), keys: Vec::new() };

    if let Some(path) = replay {
        if let Ok(text) = std::fs::read_to_string(path) {
            if let Ok(v) = serde_json::from_str::<Value>(&text) {
                let input = if v.get("input").is_some() { v["input"].clone() } else { v.clone() };
                if let (Some(fmt), Some(text)) = (input["format"].as_str().and_then(Fmt::from_name), input["text"].as_str()) {
                    doc_case(&mut ctx, fmt, text, None, "replay");
                }
            }
        }
        return;
    }

    replay_known(&mut ctx);

    // corpus (minimised past disagreements / witnesses): files `<name>.<format>`
    let corpus = concat!(env!("CARGO_MANIFEST_DIR"), "/../corpus/C14");
    if let Ok(dir) = std::fs::read_dir(corpus) {
        let mut files: Vec<_> = dir.filter_map(|e| e.ok()).map(|e| e.path()).collect();
        files.sort();
        for path in files {
            let fmt = path.extension().and_then(|e| e.to_str()).and_then(Fmt::from_name);
            if let (Some(fmt), Ok(text)) = (fmt, std::fs::read_to_string(&path)) {
                doc_case(&mut ctx, fmt, &text, None, "corpus");
            }
        }
    }
    for (f, text) in FIXED_DOCS {
        doc_case(&mut ctx, Fmt::from_name(f).unwrap(), text, None, "fixed");
    }
    enumerated(&mut ctx, &mut rng);
    // every fixed document bundled under every generator setting
    let all_generators: Vec<usize> = (0..BUNDLE_GENERATORS.len()).collect();
    for (f, text) in FIXED_DOCS {
        bundle_case(&mut ctx, Fmt::from_name(f).unwrap(), text, &all_generators);
    }
    directed_long_strings(&mut ctx, &mut rng);
    directed_escape_strings(&mut ctx, &mut rng);
    directed_integers(&mut ctx, &mut rng);

    let requests = ctx.model.requests;
    let keys = std::mem::take(&mut ctx.keys);
    drop(ctx);
    report.count("model_requests", requests);
    for k in keys {
        report.case(k);
    }
    // random phases on worker threads, one Lean driver each
    let threads = 8usize;
    let (tier, seed) = (report.tier.clone(), report.seed);
    let handles: Vec<_> = (0..threads)
        .map(|t| {
            let tier = tier.clone();
            let mut rng = rng.fork();
            std::thread::spawn(move || {
                let mut local = Report::new("C14", &tier, seed);
                let keys = random_phases(&mut local, &mut rng, t, threads);
                (local, keys)
            })
        })
        .collect();
    for h in handles {
        let (local, keys) = h.join().expect("worker thread");
        for k in keys {
            report.case(k);
        }
        for (name, buckets) in local.histograms {
            for (b, n) in buckets {
                *report.histograms.entry(name.clone()).or_default().entry(b).or_default() += n;
            }
        }
        for (name, n) in local.counters {
            report.count(&name, n);
        }
        for v in local.violations {
            report.violation(v);
        }
        for smp in local.samples {
            report.sample(smp);
        }
    }
}

fn random_phases(report: &mut Report, rng: &mut Rng, thread: usize, threads: usize) -> Vec<Option<u64>> {
    let thorough = report.is_thorough();
    let mut ctx = Ctx { report, model: Model::spawn(), keys: Vec::new() };
    let rng = &mut *rng;
    // random documents inside the hypothesis
    let n_docs = (if thorough { 1600000 } else { 160000 }) / threads;
    for i in 0..n_docs {
        let fmt = [Fmt::Json, Fmt::Json5, Fmt::Yaml, Fmt::Toml][i % 4];
        let c = gen::caps(fmt);
        let g = gen::gen_document(rng, fmt, &c);
        let text = gen::render(&g, fmt, rng);
        if i < 4 && thread == 0 {
            ctx.report.sample(json!({"format": fmt.name(), "text": text}));
        }
        doc_case(&mut ctx, fmt, &text, Some(gen::g_to_p(&g)), "random");
        if i % 8 < 4 {
            // one generator setting per document, rotating (and the main-file shape with it)
            bundle_case(&mut ctx, fmt, &text, &[i / 8 + thread]);
        }
    }
    for i in 0..(n_docs / 20) {
        let content = if i == 0 { String::new() } else { gen::gen_string(rng) };
        txt_case(&mut ctx, &content, i + thread);
    }
    // YAML documents that may leave the hypothesis (null / NaN / colliding keys): classified only
    let n_def = (if thorough { 160000 } else { 16000 }) / threads;
    let mut c = gen::caps(Fmt::Yaml);
    c.defective_keys = true;
    for _ in 0..n_def {
        let g = gen::gen_document(rng, Fmt::Yaml, &c);
        let text = gen::render(&g, Fmt::Yaml, rng);
        doc_case(&mut ctx, Fmt::Yaml, &text, None, "random-yaml-any-keys");
    }
    // serde-level values
    let n_serde = (if thorough { 1600000 } else { 160000 }) / threads;
    for i in 0..n_serde {
        let depth = 1 + rng.below(4);
        let s = gen_s(rng, depth, false);
        if i < 2 && thread == 0 {
            ctx.report.sample(json!({"serde": format!("{:?}", s)}));
        }
        serde_case(&mut ctx, &s);
    }
    let requests = ctx.model.requests;
    ctx.report.count("model_requests", requests);
    std::mem::take(&mut ctx.keys)
}
