//! Property C15: requires resolve as documented and conversions keep the target.
//!
//! Correspondence: the Lean model (`c15.*` ops) against the real functions reached through
//! `darklua_core::verif_hooks` with `Resources::from_memory()` as the file system.
//! Oracle (independent of the model): the documented candidate order as a literal list of
//! locations computed by this file's own lexical walk over *strings* (`walk`); the real locator
//! must return the first existing one. Idempotence / lexical denotation / root preservation of
//! the real `normalize` are judged with the same walk.
use crate::model::{hex, Model};
use crate::report::{hash_of, known_findings, Report, Violation};
use crate::rng::Rng;
use darklua_core::verif_hooks as vh;
use darklua_core::Resources;
use serde_json::{json, Value};
use std::collections::{BTreeMap, BTreeSet};
use std::path::{Component, Path, PathBuf};

/// `Model::spawn` with a few retries: under heavy machine load starting the driver process
/// can fail transiently
fn spawn_model() -> Model {
    for attempt in 0..6 {
        if let Ok(m) = std::panic::catch_unwind(Model::spawn) {
            return m;
        }
        std::thread::sleep(std::time::Duration::from_millis(200 * (attempt + 1)));
    }
    Model::spawn()
}

// ------------------------------------------------------------------------------------------
// wire helpers

fn hx(s: &str) -> String {
    hex(s.as_bytes())
}

/// structured form of a real path: what `components()` yields
fn wire(p: &Path) -> String {
    use std::os::unix::ffi::OsStrExt;
    let v: Vec<String> = p
        .components()
        .map(|c| match c {
            Component::RootDir => "R".to_owned(),
            Component::CurDir => "C".to_owned(),
            Component::ParentDir => "P".to_owned(),
            Component::Normal(n) => format!("N{}", &hex(n.as_bytes())[1..]),
            Component::Prefix(_) => "X".to_owned(),
        })
        .collect();
    if v.is_empty() {
        "-".to_owned()
    } else {
        v.join(",")
    }
}

fn map_wire(m: &[(String, String)]) -> String {
    if m.is_empty() {
        "-".to_owned()
    } else {
        m.iter().map(|(k, v)| format!("{}={}", hx(k), hx(v))).collect::<Vec<_>>().join(",")
    }
}

fn list_wire(v: &[String]) -> String {
    if v.is_empty() {
        "-".to_owned()
    } else {
        v.iter().map(|s| hx(s)).collect::<Vec<_>>().join(",")
    }
}

// ------------------------------------------------------------------------------------------
// the oracle's own notion of where a path string leads (POSIX, no symlinks), on strings

type Loc = Vec<String>;

fn cwd() -> Loc {
    vec!["r".to_owned(), "c".to_owned(), "w".to_owned()]
}

fn walk(start: &[String], path: &str) -> Loc {
    let mut loc: Loc = if path.starts_with('/') { Vec::new() } else { start.to_vec() };
    for seg in path.split('/') {
        match seg {
            "" | "." => {}
            ".." => {
                loc.pop();
            }
            s => loc.push(s.to_owned()),
        }
    }
    loc
}

/// a path string for a location: relative to the virtual cwd when it lies on the cwd's side
/// of the root (first name `r`), absolute otherwise
fn loc_string(loc: &[String]) -> String {
    let c = cwd();
    let common = loc.iter().zip(c.iter()).take_while(|(a, b)| a == b).count();
    if common == 0 {
        return format!("/{}", loc.join("/"));
    }
    let mut parts: Vec<String> = Vec::new();
    for _ in common..c.len() {
        parts.push("..".to_owned());
    }
    parts.extend(loc[common..].iter().cloned());
    if parts.is_empty() {
        ".".to_owned()
    } else {
        parts.join("/")
    }
}

// ------------------------------------------------------------------------------------------
// cases for the locators

#[derive(Clone, Debug)]
enum Mode {
    Path { folder: String, sources: Vec<(String, String)> },
    Luau { aliases: Vec<(String, String)> },
}

#[derive(Clone, Debug, PartialEq, Eq)]
enum Expect {
    File(Loc),
    NotFound,
    UnknownSource,
}

#[derive(Clone, Debug)]
struct Case {
    mode: Mode,
    proj: String,
    files: Vec<String>,
    source: String,
    req: String,
    /// what the documentation demands (None: no judgement, correspondence only)
    expect: Option<Expect>,
    /// candidates present (for statistics)
    present: usize,
    kind: &'static str,
    /// explicit Lua extension in the require ("" | ".lua" | ".luau"), spelling and layout ids
    ext: &'static str,
    deco: usize,
    mask: u32,
    /// id of the listed finding whose region this case lies in ("" = inside every hypothesis)
    region: &'static str,
}

impl Case {
    fn to_json(&self) -> Value {
        let (mode, folder, map) = match &self.mode {
            Mode::Path { folder, sources } => ("path", folder.clone(), sources.clone()),
            Mode::Luau { aliases } => ("luau", "init".to_owned(), aliases.clone()),
        };
        json!({"op": "find", "mode": mode, "folder": folder,
               "map": map.iter().map(|(k, v)| json!([k, v])).collect::<Vec<_>>(),
               "proj": self.proj, "files": self.files, "source": self.source, "req": self.req})
    }

    fn from_json(v: &Value) -> Option<Case> {
        let map: Vec<(String, String)> = v["map"]
            .as_array()?
            .iter()
            .filter_map(|e| Some((e[0].as_str()?.to_owned(), e[1].as_str()?.to_owned())))
            .collect();
        let mode = match v["mode"].as_str()? {
            "path" => Mode::Path { folder: v["folder"].as_str()?.to_owned(), sources: map },
            "luau" => Mode::Luau { aliases: map },
            _ => return None,
        };
        Some(Case {
            mode,
            proj: v["proj"].as_str()?.to_owned(),
            files: v["files"].as_array()?.iter().filter_map(|f| f.as_str().map(str::to_owned)).collect(),
            source: v["source"].as_str()?.to_owned(),
            req: v["req"].as_str()?.to_owned(),
            expect: None,
            present: 0,
            kind: "replay",
            ext: "",
            deco: 0,
            mask: 0,
            region: "",
        })
    }

    fn model_request(&self) -> String {
        match &self.mode {
            Mode::Path { folder, sources } => format!(
                "c15.findp {} {} none {} {} {} {}",
                hx(folder),
                map_wire(sources),
                hx(&self.proj),
                list_wire(&self.files),
                hx(&self.source),
                hx(&self.req)
            ),
            Mode::Luau { aliases } => format!(
                "c15.findl {} none {} {} {} {}",
                map_wire(aliases),
                hx(&self.proj),
                list_wire(&self.files),
                hx(&self.source),
                hx(&self.req)
            ),
        }
    }
}

fn json5_map(m: &[(String, String)]) -> String {
    m.iter().map(|(k, v)| format!("{:?}: {:?}", k, v)).collect::<Vec<_>>().join(", ")
}

fn build_path_mode(folder: &str, sources: &[(String, String)]) -> vh::PathRequireMode {
    // the configuration syntax of the documentation, through the real deserialiser
    let text = format!(
        "{{ module_folder_name: {:?}, sources: {{ {} }}, use_luau_configuration: false }}",
        folder,
        json5_map(sources)
    );
    json5::from_str(&text).expect("path require mode configuration")
}

fn build_luau_mode(aliases: &[(String, String)]) -> vh::LuauRequireMode {
    let text = format!("{{ aliases: {{ {} }}, use_luau_configuration: false }}", json5_map(aliases));
    json5::from_str(&text).expect("luau require mode configuration")
}

/// the real locator: `ok <wire>` | `err empty` | `err unknown <hex>` | `err notfound <wire>` | `panic`
fn real_find(case: &Case) -> (String, Option<PathBuf>) {
    let result = std::panic::catch_unwind(|| {
        let resources = Resources::from_memory();
        for f in &case.files {
            resources.write(f, &format!("return {:?}", f)).unwrap();
        }
        match &case.mode {
            Mode::Path { folder, sources } => vh::path_locator_find(
                &build_path_mode(folder, sources),
                Path::new(&case.proj),
                &resources,
                Path::new(&case.req),
                Path::new(&case.source),
            ),
            Mode::Luau { aliases } => vh::luau_path_locator_find(
                &build_luau_mode(aliases),
                Path::new(&case.proj),
                &resources,
                Path::new(&case.req),
                Path::new(&case.source),
            ),
        }
    });
    match result {
        Err(_) => ("panic".to_owned(), None),
        Ok(r) => classify_find(r),
    }
}

/// canonical text of one locator answer
fn classify_find(r: Result<PathBuf, String>) -> (String, Option<PathBuf>) {
    match r {
        Ok(p) => (format!("ok {}", wire(&p)), Some(p)),
        Err(msg) => {
            if let Some(rest) = msg.strip_prefix("unable to find `") {
                let end = rest.find("` (tried").or_else(|| rest.find('`')).unwrap_or(rest.len());
                (format!("err notfound {}", wire(Path::new(&rest[..end]))), None)
            } else if msg.contains("path is empty") {
                ("err empty".to_owned(), None)
            } else if let Some(i) = msg.find("unknown source name `") {
                let rest = &msg[i + "unknown source name `".len()..];
                let end = rest.rfind('`').unwrap_or(rest.len());
                (format!("err unknown {}", hx(&rest[..end])), None)
            } else {
                (format!("err other {}", msg), None)
            }
        }
    }
}

/// Judge one labelled case against the documentation. `Some(description)` = the real code
/// breaks the property on this input.
fn oracle_find(case: &Case, real: &str, real_path: &Option<PathBuf>) -> Option<String> {
    let expect = case.expect.as_ref()?;
    match expect {
        Expect::File(loc) => match real_path {
            Some(p) => {
                let got = walk(&cwd(), p.to_str().unwrap_or(""));
                if &got == loc {
                    None
                } else {
                    Some(format!(
                        "resolved to `{}` (location /{}) but the first existing documented candidate is /{}",
                        p.display(),
                        got.join("/"),
                        loc.join("/")
                    ))
                }
            }
            None => Some(format!("`{}` but the documented candidate /{} exists", real, loc.join("/"))),
        },
        Expect::NotFound => {
            if real.starts_with("err notfound") {
                None
            } else {
                Some(format!("`{}` but none of the documented candidates exists", real))
            }
        }
        Expect::UnknownSource => {
            if real.starts_with("err unknown") {
                None
            } else {
                Some(format!("`{}` but the source name is not configured", real))
            }
        }
    }
}

/// the documented candidate order, as a literal list, for a target given by location
fn documented_candidates(target: &Loc, ext: &str, folder: &str) -> Vec<Loc> {
    // target = location of "the given path" *without* `ext`
    let mut given = target.clone();
    let last = given.pop().unwrap_or_default();
    let with = |suffix: &str| {
        let mut l = given.clone();
        l.push(format!("{}{}{}", last, ext, suffix));
        l
    };
    if ext == ".lua" || ext == ".luau" {
        // special case: a path that already has a Lua extension is looked up as it is
        return vec![with("")];
    }
    let mut out = vec![with(""), with(".luau"), with(".lua")];
    let base = with("");
    let sub = |name: String| {
        let mut l = base.clone();
        l.push(name);
        l
    };
    out.push(sub(folder.to_owned()));
    let folder_has_extension = folder[1..].contains('.');
    if !folder_has_extension {
        out.push(sub(format!("{}.luau", folder)));
        out.push(sub(format!("{}.lua", folder)));
    }
    out
}

/// the six files around a target whose presence is enumerated (files vs directories of the
/// same stem): `t`, `t.luau`, `t.lua`, `t/<stem>`, `t/<stem>.luau`, `t/<stem>.lua`
fn universe(target: &Loc, ext: &str, folder: &str) -> Vec<Loc> {
    let stem = match folder.find('.') {
        Some(i) if i > 0 => &folder[..i],
        _ => folder,
    };
    documented_candidates(target, if ext == ".d" { ".d" } else { "" }, stem)
}

const DECOY_DIRS: &[&str] = &[".", "src", "src/sub", "lib", "..", "/abs", "/abs/src", "/abs/lib", "../out", "cfg", "cfg/lib", "src/lib", "../lib", "/abs/sub"];

fn decoys(stem: &str, avoid: &BTreeSet<Loc>) -> Vec<String> {
    let mut out = Vec::new();
    for d in DECOY_DIRS {
        for suffix in ["", ".lua", ".luau"] {
            let mut loc = walk(&cwd(), d);
            loc.push(format!("{}{}", stem, suffix));
            if !avoid.contains(&loc) {
                out.push(loc_string(&loc));
            }
        }
    }
    out
}

/// spell a require: `first` is `.`-relative head handling, `tail` the remaining segments
fn spell(head: &str, tail: &[&str], ext: &str, deco: usize) -> Option<String> {
    // head: "" for relative requires (a `./` is added unless the tail starts with `..`), else the alias
    let mut segs: Vec<String> = Vec::new();
    if head.is_empty() {
        if tail.first() != Some(&"..") {
            segs.push(".".to_owned());
        }
    } else {
        segs.push(head.to_owned());
    }
    for t in tail {
        segs.push((*t).to_owned());
    }
    if tail.is_empty() && !ext.is_empty() {
        return None;
    }
    if let Some(last) = segs.last_mut() {
        if !tail.is_empty() {
            last.push_str(ext);
        }
    }
    let n = segs.len();
    match deco {
        0 => Some(segs.join("/")),
        1 => {
            // redundant `.` after the first component
            let mut s = segs.clone();
            s.insert(1, ".".to_owned());
            Some(s.join("/"))
        }
        2 => {
            // detour through a directory and back, before the last component
            if n < 2 {
                return None;
            }
            let mut s = segs.clone();
            s.insert(n - 1, "..".to_owned());
            s.insert(n - 1, "zz".to_owned());
            Some(s.join("/"))
        }
        3 => {
            if n < 2 {
                return None;
            }
            let mut s = segs.clone();
            s.insert(n - 1, String::new());
            Some(s.join("/"))
        }
        4 => Some(format!("{}/", segs.join("/"))),
        5 => {
            // `./..` : current directory, then parent
            if head.is_empty() && tail.first() == Some(&"..") {
                Some(format!("./{}", segs.join("/")))
            } else {
                None
            }
        }
        _ => None,
    }
}

#[derive(Clone)]
struct Universe {
    masks: Vec<u32>,
    decos: Vec<usize>,
    region: &'static str,
}

fn push_cases(
    out: &mut Vec<Case>,
    u: &Universe,
    kind: &'static str,
    mode: &Mode,
    proj: &str,
    source: &str,
    base: &Loc,
    head: &str,
    tail: &[&str],
    folder: &str,
) {
    for stem_ext in ["", ".d"] {
        // stem_ext ".d": the last name carries a non-Lua extension (`m.d`)
        if tail.is_empty() && !stem_ext.is_empty() {
            continue;
        }
        for ext in ["", ".lua", ".luau"] {
            let full_ext = format!("{}{}", stem_ext, ext);
            // location of the given path without any extension suffix
            let mut target = base.clone();
            for t in tail {
                if *t == ".." {
                    // `..` at the root stays at the root
                    target.pop();
                } else {
                    target.push((*t).to_owned());
                }
            }
            if target.is_empty() {
                continue;
            }
            let uni = universe(&target, stem_ext, folder);
            let documented = documented_candidates(&{
                let mut t = target.clone();
                if !stem_ext.is_empty() {
                    let l = t.pop().unwrap();
                    t.push(format!("{}{}", l, stem_ext));
                }
                t
            }, ext, folder);
            let avoid: BTreeSet<Loc> = uni.iter().chain(documented.iter()).cloned().collect();
            let stem_name = format!("{}{}", target.last().unwrap(), stem_ext);
            let decoy_files = decoys(&stem_name, &avoid);
            for &deco in &u.decos {
                let req = match spell(head, tail, &full_ext, deco) {
                    Some(r) => r,
                    None => continue,
                };
                for &mask in &u.masks {
                    let present: BTreeSet<Loc> =
                        uni.iter().enumerate().filter(|(i, _)| mask & (1 << i) != 0).map(|(_, l)| l.clone()).collect();
                    let mut files: Vec<String> = present.iter().map(|l| loc_string(l)).collect();
                    files.extend(decoy_files.iter().cloned());
                    let expect = match documented.iter().find(|c| present.contains(*c)) {
                        Some(loc) => Expect::File(loc.clone()),
                        None => Expect::NotFound,
                    };
                    out.push(Case {
                        mode: mode.clone(),
                        proj: proj.to_owned(),
                        files,
                        source: source.to_owned(),
                        req: req.clone(),
                        expect: Some(expect),
                        present: present.len(),
                        kind,
                        ext,
                        deco,
                        mask,
                        region: u.region,
                    });
                }
            }
        }
    }
}

fn s(x: &str) -> String {
    x.to_owned()
}

fn labelled_cases(thorough: bool, rng: &mut Rng) -> Vec<Case> {
    let all_masks: Vec<u32> = (0..64).collect();
    // quick tier: every layout for the plain spelling, a seeded third of the layouts for the
    // decorated spellings
    let mut some_masks: Vec<u32> = all_masks.clone();
    if !thorough {
        rng.shuffle(&mut some_masks);
        some_masks.truncate(20);
        for m in [0u32, 63, 1, 2, 4, 8, 16, 32] {
            if !some_masks.contains(&m) {
                some_masks.push(m);
            }
        }
    }
    let plain = Universe { masks: all_masks.clone(), decos: vec![0], region: "" };
    let decorated = Universe { masks: some_masks, decos: vec![1, 2, 3, 4, 5], region: "" };
    let mut out = Vec::new();
    let tails: [&[&str]; 5] = [&["m"], &["sub", "m"], &["..", "m"], &["..", "lib", "m"], &["..", "..", "lib", "m"]];

    // ---- path mode, relative requires
    for folder in ["init", "init.luau", "index"] {
        let stem = folder.split('.').next().unwrap();
        let mode = Mode::Path { folder: s(folder), sources: vec![] };
        let sources = [
            s("src/main.lua"),
            s("main.lua"),
            s("./src/main.lua"),
            format!("src/sub/{}.lua", stem),
            s("/abs/src/main.lua"),
            s("../out/main.lua"),
        ];
        for source in &sources {
            let mut base = walk(&cwd(), source);
            base.pop();
            for tail in tails {
                for u in [&plain, &decorated] {
                    push_cases(&mut out, u, "path-relative", &mode, ".", source, &base, "", tail, folder);
                }
            }
            // the require names a module-folder file itself (`./pack/init`, `./pack/init.lua`):
            // plain spelling only
            if source == &sources[0] || source == &sources[4] {
                for named in ["init", "index"] {
                    push_cases(&mut out, &plain, "path-relative-names-module-file", &mode, ".", source, &base, "", &["pack", named], folder);
                }
            }
        }
        // ---- path mode, source-prefixed requires
        let configs: [(&str, Vec<(String, String)>, &str, &str); 5] = [
            (".", vec![(s("pkg"), s("./lib"))], "pkg", "./lib"),
            ("/abs", vec![(s("pkg"), s("lib")), (s("@other"), s("src/sub"))], "@other", "src/sub"),
            ("cfg", vec![(s("pkg"), s("/abs/lib"))], "pkg", "/abs/lib"),
            ("cfg/deep", vec![(s("pkg"), s("../lib")), (s("img"), s("./assets/data.json"))], "pkg", "../lib"),
            (".", vec![(s("img"), s("./assets/data.json"))], "img", "./assets/data.json"),
        ];
        let alias_tails: [&[&str]; 4] = [&["m"], &["sub", "m"], &["..", "m"], &[]];
        for (proj, sources_map, name, location) in &configs {
            let mode = Mode::Path { folder: s(folder), sources: sources_map.clone() };
            let base = walk(&walk(&cwd(), proj), location);
            for source in ["src/main.lua", "/abs/src/main.lua"] {
                for tail in alias_tails {
                    if *name == "img" && !tail.is_empty() {
                        continue;
                    }
                    for u in [&plain, &decorated] {
                        push_cases(&mut out, u, "path-source", &mode, proj, source, &base, name, tail, folder);
                    }
                }
            }
            // an unconfigured source name
            out.push(Case {
                mode: mode.clone(),
                proj: s(proj),
                files: vec![s("nope/m.lua"), s("m.lua")],
                source: s("src/main.lua"),
                req: s("nope/m"),
                expect: Some(Expect::UnknownSource),
                present: 0,
                kind: "path-unknown-source",
                ext: "",
                deco: 0,
                mask: 0,
                region: "",
            });
        }
        // ---- absolute requires
        let base = walk(&cwd(), "/abs/lib");
        for u in [&plain, &decorated] {
            // head "/abs/lib": spelled as an absolute path
            push_cases(&mut out, u, "path-absolute", &mode, ".", "src/main.lua", &base, "/abs/lib", &["m"], folder);
        }
    }

    // ---- luau mode (module folder name is always `init`)
    let luau = Mode::Luau { aliases: vec![] };
    // (source, is a module-folder file)
    let luau_sources = [
        ("src/main.luau", false),
        ("main.luau", false),
        ("src/init.luau", true),
        ("src/sub/init.lua", true),
        ("src/sub/init", true),
        ("/abs/src/init.luau", true),
        ("/abs/src/main.luau", false),
        ("src/init.server.luau", false),
    ];
    for (source, is_module) in luau_sources {
        let mut dir = walk(&cwd(), source);
        dir.pop();
        let mut base = dir.clone();
        if is_module {
            // documented: relative to the parent when the requiring file is a module-folder file
            base.pop();
        }
        for tail in tails {
            for u in [&plain, &decorated] {
                push_cases(&mut out, u, if is_module { "luau-relative-module" } else { "luau-relative" }, &luau, ".", source, &base, "", tail, "init");
                // `@self` always starts at the requiring file's own directory
            }
        }
        if source == "src/main.luau" || source == "src/init.luau" {
            for named in ["init", "index"] {
                push_cases(&mut out, &plain, "luau-relative-names-module-file", &luau, ".", source, &base, "", &["pack", named], "init");
            }
        }
        let self_tails: [&[&str]; 2] = [&["m"], &["sub", "m"]];
        for tail in self_tails {
            for u in [&plain, &decorated] {
                push_cases(&mut out, u, "luau-self", &luau, ".", source, &dir, "@self", tail, "init");
            }
        }
    }
    let luau_configs: [(&str, Vec<(String, String)>, &str, &str); 3] = [
        (".", vec![(s("@pkg"), s("./lib"))], "@pkg", "./lib"),
        ("/abs", vec![(s("@pkg"), s("lib")), (s("@other"), s("src/sub"))], "@other", "src/sub"),
        ("cfg/deep", vec![(s("@pkg"), s("../lib"))], "@pkg", "../lib"),
    ];
    let alias_tails: [&[&str]; 4] = [&["m"], &["sub", "m"], &["..", "m"], &[]];
    for (proj, aliases, name, location) in &luau_configs {
        let mode = Mode::Luau { aliases: aliases.clone() };
        let base = walk(&walk(&cwd(), proj), location);
        for source in ["src/main.luau", "src/init.luau"] {
            for tail in alias_tails {
                for u in [&plain, &decorated] {
                    push_cases(&mut out, u, "luau-alias", &mode, proj, source, &base, name, tail, "init");
                }
            }
        }
        out.push(Case {
            mode: mode.clone(),
            proj: s(proj),
            files: vec![s("@nope/m.luau"), s("m.luau")],
            source: s("src/main.luau"),
            req: s("@nope/m"),
            expect: Some(Expect::UnknownSource),
            present: 0,
            kind: "luau-unknown-alias",
            ext: "",
            deco: 0,
            mask: 0,
            region: "",
        });
    }
    // ---- regions of listed findings (judged like the others; failures there are expected)
    // (repaired F25) a module-folder file whose directory has no name to strip (`init.luau`, `../init.luau`, `/init.luau`)
    let f25 = Universe { region: "", ..plain.clone() };
    for source in ["init.luau", "./init.luau", "../init.luau", "/init.luau"] {
        let mut base = walk(&cwd(), source);
        base.pop();
        base.pop();
        for tail in [&["m"][..], &["sub", "m"][..]] {
            push_cases(&mut out, &f25, "luau-relative-module-toplevel", &luau, ".", source, &base, "", tail, "init");
        }
    }
    // F26: the documentation allows luau aliases without `@`
    let f26 = Universe { region: "F26", ..plain.clone() };
    let mode = Mode::Luau { aliases: vec![(s("pkg"), s("./lib")), (s("images"), s("./assets/data.json"))] };
    let base = walk(&cwd(), "lib");
    for tail in [&["m"][..], &["sub", "m"][..]] {
        push_cases(&mut out, &f26, "luau-alias-without-at", &mode, ".", "src/main.luau", &base, "pkg", tail, "init");
    }
    out
}

/// unlabelled cases: odd spellings, odd requiring files, random layouts (correspondence only)
fn random_cases(n: usize, rng: &mut Rng) -> Vec<Case> {
    let segs = ["", ".", "..", "m", "m.lua", "m.luau", "sub", "init", "init.luau", "pkg", "@pkg", "@self", "x.d", ".h", "a."];
    let sources = ["src/main.lua", "main.lua", "", ".", "..", "/", "init.luau", "./init.luau", "../init.luau", "/init.luau", "src/init.lua", "src/..", "src/init", "a/b/c.lua", "/abs/x/init.luau", "src/sub/index.lua"];
    let file_pool = ["m", "m.lua", "m.luau", "m/init.lua", "m/init.luau", "m/init", "src/m.lua", "src/m/init.luau", "lib/m.lua", "lib/m.luau", "lib.lua", "lib/init.lua", "../m.lua", "/abs/m.lua", "/m.lua", "sub/m.lua", "src/sub/m.luau", "m.lua.luau", "init.lua", "init.luau", "src/init.lua", "m/index.lua", "src.lua", "x.d", "x.d.lua", ".h.luau", "a..lua", "../init.lua", "/init.lua"];
    let folders = ["init", "init.luau", "index", "", "x/y", ".", "..", "i.d", "/abs"];
    let maps: [Vec<(String, String)>; 4] = [
        vec![],
        vec![(s("pkg"), s("./lib")), (s("@pkg"), s("lib"))],
        vec![(s("pkg"), s("/abs")), (s("@pkg"), s("../lib")), (s("m"), s("src"))],
        vec![(s("@pkg"), s("")), (s("pkg"), s("."))],
    ];
    let projs = [".", "", "/abs", "cfg", ".."];
    let mut out = Vec::with_capacity(n);
    for _ in 0..n {
        let k = 1 + rng.below(4);
        let mut req: Vec<&str> = (0..k).map(|_| *rng.pick(&segs)).collect();
        if rng.chance(1, 2) {
            req.insert(0, if rng.chance(1, 2) { "." } else { ".." });
        }
        let mut req = req.join("/");
        if rng.chance(1, 12) {
            req = format!("/{}", req);
        }
        let nfiles = rng.below(6);
        let files: Vec<String> = (0..nfiles).map(|_| s(*rng.pick(&file_pool))).collect();
        let map = rng.pick(&maps).clone();
        let mode = if rng.chance(1, 2) {
            Mode::Path { folder: s(*rng.pick(&folders)), sources: map }
        } else {
            Mode::Luau { aliases: map }
        };
        out.push(Case {
            mode,
            proj: s(*rng.pick(&projs)),
            files,
            source: s(*rng.pick(&sources)),
            req,
            expect: None,
            present: nfiles,
            kind: "random",
            ext: "",
            deco: 0,
            mask: 0,
            region: "",
        });
    }
    out
}

struct FindOutcome {
    idx: usize,
    real: String,
    model: String,
    oracle: Option<String>,
}

fn run_find_cases(cases: &[Case], threads: usize) -> Vec<FindOutcome> {
    let chunk = (cases.len() + threads - 1) / threads.max(1);
    let mut outcomes: Vec<FindOutcome> = Vec::with_capacity(cases.len());
    std::thread::scope(|scope| {
        let mut handles = Vec::new();
        for (t, part) in cases.chunks(chunk.max(1)).enumerate() {
            handles.push(scope.spawn(move || {
                let mut model = spawn_model();
                let mut local = Vec::with_capacity(part.len());
                for (b, batch) in part.chunks(4000).enumerate() {
                    let requests: Vec<String> = batch.iter().map(|c| c.model_request()).collect();
                    let answers = model.ask_batch(&requests);
                    for (i, (case, answer)) in batch.iter().zip(answers).enumerate() {
                        let (real, real_path) = real_find(case);
                        let oracle = oracle_find(case, &real, &real_path);
                        local.push(FindOutcome { idx: t * chunk.max(1) + b * 4000 + i, real, model: answer, oracle });
                    }
                }
                local
            }));
        }
        for h in handles {
            outcomes.extend(h.join().expect("worker thread"));
        }
    });
    outcomes
}

// ------------------------------------------------------------------------------------------
// convert_require

fn mode_json5(mode: &Mode) -> String {
    match mode {
        Mode::Path { folder, sources } => format!(
            "{{ name: 'path', module_folder_name: {:?}, sources: {{ {} }}, use_luau_configuration: false }}",
            folder,
            json5_map(sources)
        ),
        Mode::Luau { aliases } => format!("{{ name: 'luau', aliases: {{ {} }}, use_luau_configuration: false }}", json5_map(aliases)),
    }
}

fn mode_to_json(mode: &Mode) -> Value {
    let (name, folder, map) = match mode {
        Mode::Path { folder, sources } => ("path", folder.clone(), sources.clone()),
        Mode::Luau { aliases } => ("luau", "init".to_owned(), aliases.clone()),
    };
    json!({"mode": name, "folder": folder, "map": map.iter().map(|(k, v)| json!([k, v])).collect::<Vec<_>>()})
}

fn mode_from_json(v: &Value) -> Option<Mode> {
    let map: Vec<(String, String)> = v["map"]
        .as_array()?
        .iter()
        .filter_map(|e| Some((e[0].as_str()?.to_owned(), e[1].as_str()?.to_owned())))
        .collect();
    match v["mode"].as_str()? {
        "path" => Some(Mode::Path { folder: v["folder"].as_str()?.to_owned(), sources: map }),
        "luau" => Some(Mode::Luau { aliases: map }),
        _ => None,
    }
}

fn mode_wire(mode: &Mode) -> String {
    match mode {
        Mode::Path { folder, sources } => format!("path {} {}", hx(folder), map_wire(sources)),
        Mode::Luau { aliases } => format!("luau {} {}", hx("init"), map_wire(aliases)),
    }
}

/// the real rule (`ConvertRequire::process`) on `return require("<req>")`: the argument afterwards
fn real_convert(case: &Case, target: &Mode) -> Result<String, String> {
    use darklua_core::nodes::{Arguments, Expression, LastStatement};
    use darklua_core::rules::{ContextBuilder, Rule};
    let case = case.clone();
    let target = target.clone();
    std::panic::catch_unwind(move || {
        let resources = Resources::from_memory();
        for f in &case.files {
            resources.write(f, &format!("return {:?}", f)).unwrap();
        }
        let code = format!("return require({:?})", case.req);
        let rule: Box<dyn Rule> = json5::from_str(&format!(
            "{{ rule: 'convert_require', current: {}, target: {} }}",
            mode_json5(&case.mode),
            mode_json5(&target)
        ))
        .map_err(|e| format!("configuration: {}", e))?;
        let mut block = darklua_core::Parser::default().parse(&code).map_err(|e| format!("parse: {}", e))?;
        let context = ContextBuilder::new(&case.source, &resources, &code).with_project_location(&case.proj).build();
        rule.process(&mut block, &context).map_err(|e| format!("rule: {}", e))?;
        let last = block.get_last_statement().ok_or("no return")?;
        if let LastStatement::Return(ret) = last {
            for e in ret.iter_expressions() {
                if let Expression::Call(call) = e {
                    match call.get_arguments() {
                        Arguments::Tuple(t) => {
                            for v in t.iter_values() {
                                if let Expression::String(st) = v {
                                    return Ok(String::from_utf8_lossy(st.get_value()).into_owned());
                                }
                            }
                        }
                        Arguments::String(st) => return Ok(String::from_utf8_lossy(st.get_value()).into_owned()),
                        _ => {}
                    }
                }
            }
        }
        Err("no require call left".to_owned())
    })
    .unwrap_or_else(|_| Err("panic".to_owned()))
}

struct ConvCase {
    case: Case,
    target: Mode,
}

fn rename_aliases(map: &[(String, String)], at: bool) -> Vec<(String, String)> {
    map.iter()
        .map(|(k, v)| {
            let bare = k.trim_start_matches('@');
            (if at { format!("@{}", bare) } else { bare.to_owned() }, v.clone())
        })
        .collect()
}

fn convert_cases(labelled: &[Case], thorough: bool) -> Vec<ConvCase> {
    let masks: &[u32] = if thorough { &[1, 2, 4, 8, 16, 32, 3, 6, 12, 24, 48, 5, 36, 63, 62, 60] } else { &[1, 2, 4, 8, 16, 32, 6, 36, 63] };
    let mut out = Vec::new();
    for c in labelled {
        if !masks.contains(&c.mask) || !(c.deco == 0 || (thorough && c.deco == 2)) || !c.region.is_empty() {
            continue;
        }
        let targets: Vec<Mode> = match &c.mode {
            Mode::Path { sources, .. } => {
                let mut t = vec![Mode::Luau { aliases: vec![] }];
                if !sources.is_empty() {
                    t.push(Mode::Luau { aliases: rename_aliases(sources, true) });
                }
                t
            }
            Mode::Luau { aliases } => {
                // module folder names without and with an extension
                let mut t: Vec<Mode> = ["init", "index", "init.lua", "init.luau", "index.lua"].iter().map(|f| Mode::Path { folder: s(f), sources: vec![] }).collect();
                if !aliases.is_empty() {
                    t.push(Mode::Path { folder: s("init"), sources: rename_aliases(aliases, false) });
                    t.push(Mode::Path { folder: s("init.luau"), sources: rename_aliases(aliases, false) });
                }
                t
            }
        };
        for target in targets {
            out.push(ConvCase { case: c.clone(), target: target.clone() });
            // When the two modes name their module-folder file differently, also put files named
            // after the TARGET's module folder next to the documented file: a conversion that strips
            // by the wrong mode's name then silently lands on one of them.
            let current_stem = rust_file_stem(mode_folder(&c.mode)).to_owned();
            let target_stem = rust_file_stem(mode_folder(&target)).to_owned();
            if current_stem != target_stem {
                if let Some(Expect::File(loc)) = &c.expect {
                    let dir = designed_argument_location(loc, mode_folder(&c.mode));
                    for extra in [vec![format!("{}.luau", target_stem)], vec![format!("{}.lua", target_stem), target_stem.clone()]] {
                        let mut with = c.clone();
                        for name in extra {
                            let mut l = dir.clone();
                            l.push(name);
                            let f = loc_string(&l);
                            if !with.files.contains(&f) {
                                with.files.push(f);
                            }
                        }
                        out.push(ConvCase { case: with, target: target.clone() });
                    }
                }
            }
        }
    }
    out
}

/// what a call `require("<literal>")` must resolve to: exactly what the literal resolves to.
/// (The rules normalise the literal first - match_require.rs - which must not matter; the oracle
/// therefore asks the locator with the literal as written.)
fn real_find_call(case: &Case) -> (String, Option<PathBuf>) {
    real_find(case)
}

/// `Path::file_stem` on a file name
fn rust_file_stem(name: &str) -> &str {
    match name.rfind('.') {
        None | Some(0) => name,
        Some(i) => &name[..i],
    }
}

fn mode_folder(mode: &Mode) -> &str {
    match mode {
        Mode::Path { folder, .. } => folder,
        Mode::Luau { .. } => "init",
    }
}

/// Where generate_require is *designed* to point for a found file, by the documentation of the
/// mode that will read the argument (`folder` = its module folder name): the directory when the
/// file is that mode's module-folder file (file name or stem equal to the name), otherwise the
/// file without its Lua extension.
/// the documented module-folder files of a mode: `<name>`, and - when the name has no extension -
/// `<name>.luau` / `<name>.lua` (path-require-mode docs, candidates 4-6)
fn documented_module_file(name: &str, folder: &str) -> bool {
    name == folder || (!folder[folder.len().min(1)..].contains('.') && (name == format!("{}.luau", folder) || name == format!("{}.lua", folder)))
}

fn designed_argument_location(found: &Loc, folder: &str) -> Loc {
    let mut l = found.clone();
    if let Some(last) = l.pop() {
        if documented_module_file(&last, folder) {
            return l;
        }
        let name = last.strip_suffix(".luau").or_else(|| last.strip_suffix(".lua")).unwrap_or(&last);
        l.push(name.to_owned());
    }
    l
}

/// Exactly the shape of known finding F29: the argument points where it is designed to point,
/// the original file is one of the documented candidates of that location under the target mode,
/// and what the target mode returns is an EARLIER candidate of the same list (the dropped
/// extension / module-folder file name let it win). Anything else - in particular a module-folder
/// file name left in or taken out by the wrong rule - is not F29.
fn f29_shape(found: &Loc, after: &Loc, target_folder: &str) -> bool {
    let designed = designed_argument_location(found, target_folder);
    if designed.is_empty() {
        return false;
    }
    let list = documented_candidates(&designed, "", target_folder);
    match (list.iter().position(|c| c == after), list.iter().position(|c| c == found)) {
        (Some(a), Some(f)) => a < f,
        _ => false,
    }
}

fn convert_oracle(case: &Case, target: &Mode, real_arg: &Result<String, String>) -> (Option<PathBuf>, Option<String>) {
    let (_, before) = real_find_call(case);
    let mut oracle = None;
    if let Some(before_path) = &before {
        match real_arg {
            Ok(arg) => {
                let mut again = case.clone();
                again.mode = target.clone();
                again.req = arg.clone();
                let (after_text, after) = real_find_call(&again);
                let want = walk(&cwd(), before_path.to_str().unwrap_or(""));
                match after {
                    Some(p) if walk(&cwd(), p.to_str().unwrap_or("")) == want => {}
                    Some(p) => {
                        // F29's region, and nothing wider (see f29_shape)
                        let shadow = f29_shape(&want, &walk(&cwd(), p.to_str().unwrap_or("")), mode_folder(target));
                        oracle = Some(format!("{}`{}` resolved to `{}`; converted to `{}` it resolves to `{}`", if shadow { "[shadowed] " } else { "" }, case.req, before_path.display(), arg, p.display()))
                    }
                    None => oracle = Some(format!("`{}` resolved to `{}`; converted to `{}` it gives `{}`", case.req, before_path.display(), arg, after_text)),
                }
            }
            Err(e) => oracle = Some(format!("the rule failed: {}", e)),
        }
    }
    (before, oracle)
}

struct ConvOutcome {
    idx: usize,
    real_arg: Result<String, String>,
    model: String,
    /// (original location, location after conversion or error text)
    oracle: Option<String>,
    found_ok: bool,
}

fn run_convert_cases(cases: &[ConvCase], threads: usize) -> Vec<ConvOutcome> {
    let chunk = ((cases.len() + threads - 1) / threads.max(1)).max(1);
    let mut outcomes = Vec::with_capacity(cases.len());
    std::thread::scope(|scope| {
        let mut handles = Vec::new();
        for (t, part) in cases.chunks(chunk).enumerate() {
            handles.push(scope.spawn(move || {
                let mut model = spawn_model();
                let mut local = Vec::with_capacity(part.len());
                for (b, batch) in part.chunks(2000).enumerate() {
                    let requests: Vec<String> = batch
                        .iter()
                        .map(|c| {
                            format!(
                                "c15.conv {} {} {} {} {} {}",
                                mode_wire(&c.case.mode),
                                mode_wire(&c.target),
                                hx(&c.case.proj),
                                list_wire(&c.case.files),
                                hx(&c.case.source),
                                hx(&c.case.req)
                            )
                        })
                        .collect();
                    let answers = model.ask_batch(&requests);
                    for (i, (cc, answer)) in batch.iter().zip(answers).enumerate() {
                        let real_arg = real_convert(&cc.case, &cc.target);
                        // oracle: resolve before, convert, resolve the new argument under the target mode
                        let (before, oracle) = convert_oracle(&cc.case, &cc.target, &real_arg);
                        let before_ok = before.is_some();
                        local.push(ConvOutcome { idx: t * chunk + b * 2000 + i, real_arg, model: answer, oracle, found_ok: before_ok });
                    }
                }
                local
            }));
        }
        for h in handles {
            outcomes.extend(h.join().expect("worker thread"));
        }
    });
    outcomes
}

// ------------------------------------------------------------------------------------------
// end to end: bundle with the real `darklua_core::process` and see which file was inlined

/// `marker <file>` (the one candidate/decoy whose text ended up in the bundle) | `markers <n>` |
/// `error` | `panic`
fn real_bundle(case: &Case) -> String {
    let case = case.clone();
    std::panic::catch_unwind(move || {
        let resources = Resources::from_memory();
        for f in &case.files {
            resources.write(f, &format!("return {:?}", f)).unwrap();
        }
        resources.write(&case.source, &format!("return require({:?})", case.req)).unwrap();
        let text = format!("{{ rules: [], generator: 'dense', bundle: {{ require_mode: {} }} }}", mode_json5(&case.mode));
        let config: darklua_core::Configuration = match json5::from_str(&text) {
            Ok(c) => c,
            Err(e) => return format!("configuration {}", e),
        };
        let config = config.with_location(&case.proj);
        let out = "bundle-output/out.lua";
        let options = darklua_core::Options::new(&case.source).with_output(out).with_configuration(config);
        let errors: Vec<String> = match darklua_core::process(&resources, options) {
            Ok(tree) => tree.result().err().map(|es| es.iter().map(|e| e.to_string()).collect()).unwrap_or_default(),
            Err(e) => vec![e.to_string()],
        };
        if !errors.is_empty() {
            // a resolved file the bundler cannot load because it has no extension: name it
            for e in &errors {
                if let Some(i) = e.find("without an extension at `") {
                    let rest = &e[i + "without an extension at `".len()..];
                    let end = rest.find('`').unwrap_or(rest.len());
                    return format!("error no-extension {}", &rest[..end]);
                }
            }
            return "error".to_owned();
        }
        let code = match resources.get(out) {
            Ok(c) => c,
            Err(_) => return "error".to_owned(),
        };
        let hits: Vec<&String> = case.files.iter().filter(|f| code.contains(&format!("'{}'", f)) || code.contains(&format!("\"{}\"", f))).collect();
        if hits.len() == 1 {
            format!("marker {}", hits[0])
        } else {
            format!("markers {}", hits.len())
        }
    })
    .unwrap_or_else(|_| "panic".to_owned())
}

fn run_bundle_cases(cases: &[&Case], threads: usize) -> Vec<String> {
    let chunk = ((cases.len() + threads - 1) / threads.max(1)).max(1);
    let mut out: Vec<String> = Vec::with_capacity(cases.len());
    std::thread::scope(|scope| {
        let handles: Vec<_> = cases.chunks(chunk).map(|part| scope.spawn(move || part.iter().map(|c| real_bundle(c)).collect::<Vec<_>>())).collect();
        for h in handles {
            out.extend(h.join().expect("worker thread"));
        }
    });
    out
}

// ------------------------------------------------------------------------------------------
// histories: ONE locator instance (as in a bundling run) answers several calls

/// a sequence of calls `(requiring file, require)` on one file system and one mode
#[derive(Clone, Debug)]
struct History {
    mode: Mode,
    proj: String,
    files: Vec<String>,
    calls: Vec<(String, String)>,
    /// documented answer of each call (None: no judgement)
    expect: Vec<Option<Expect>>,
    kind: &'static str,
}

impl History {
    fn to_json(&self) -> Value {
        let mut v = mode_to_json(&self.mode);
        v["op"] = json!("hist");
        v["proj"] = json!(self.proj);
        v["files"] = json!(self.files);
        v["calls"] = json!(self.calls.iter().map(|(src, req)| json!([src, req])).collect::<Vec<_>>());
        v
    }

    fn from_json(v: &Value) -> Option<History> {
        let calls: Vec<(String, String)> = v["calls"]
            .as_array()?
            .iter()
            .filter_map(|c| Some((c[0].as_str()?.to_owned(), c[1].as_str()?.to_owned())))
            .collect();
        Some(History {
            mode: mode_from_json(v)?,
            proj: v["proj"].as_str()?.to_owned(),
            files: v["files"].as_array()?.iter().filter_map(|f| f.as_str().map(str::to_owned)).collect(),
            expect: vec![None; calls.len()],
            calls,
            kind: "replay",
        })
    }

    fn call_case(&self, i: usize) -> Case {
        Case {
            mode: self.mode.clone(),
            proj: self.proj.clone(),
            files: self.files.clone(),
            source: self.calls[i].0.clone(),
            req: self.calls[i].1.clone(),
            expect: self.expect[i].clone(),
            present: 0,
            kind: self.kind,
            ext: "",
            deco: 0,
            mask: 0,
            region: "",
        }
    }

    fn model_request(&self) -> String {
        let calls: Vec<String> = self.calls.iter().map(|(src, req)| format!("{}={}", hx(req), hx(src))).collect();
        format!("c15.hist {} {} {} {}", mode_wire(&self.mode), hx(&self.proj), list_wire(&self.files), calls.join(","))
    }
}

/// all calls answered by one real locator, in order
fn real_history(h: &History) -> Vec<String> {
    let n = h.calls.len();
    let h = h.clone();
    std::panic::catch_unwind(move || {
        let resources = Resources::from_memory();
        for f in &h.files {
            resources.write(f, &format!("return {:?}", f)).unwrap();
        }
        let calls: Vec<(PathBuf, PathBuf)> = h.calls.iter().map(|(src, req)| (PathBuf::from(req), PathBuf::from(src))).collect();
        let answers = match &h.mode {
            Mode::Path { folder, sources } => vh::path_locator_find_sequence(&build_path_mode(folder, sources), Path::new(&h.proj), &resources, &calls),
            Mode::Luau { aliases } => vh::luau_path_locator_find_sequence(&build_luau_mode(aliases), Path::new(&h.proj), &resources, &calls),
        };
        answers.into_iter().map(|r| classify_find(r).0).collect::<Vec<_>>()
    })
    .unwrap_or_else(|_| vec!["panic".to_owned(); n])
}

/// the files around `dir/<stem>` selected by `mask` (bits as in `universe`)
fn layout_files(dir: &str, stem: &str, mask: u32) -> Vec<String> {
    let mut target = walk(&cwd(), dir);
    target.push(stem.to_owned());
    universe(&target, "", "init").iter().enumerate().filter(|(i, _)| mask & (1 << i) != 0).map(|(_, l)| loc_string(l)).collect()
}

fn expect_for(base_dir: &Loc, tail: &[&str], files: &[String]) -> Expect {
    let mut target = base_dir.clone();
    for t in tail {
        if *t == ".." {
            target.pop();
        } else {
            target.push((*t).to_owned());
        }
    }
    let present: BTreeSet<Loc> = files.iter().map(|f| walk(&cwd(), f)).collect();
    match documented_candidates(&target, "", "init").into_iter().find(|c| present.contains(c)) {
        Some(loc) => Expect::File(loc),
        None => Expect::NotFound,
    }
}

fn permutations<T: Clone>(items: &[T]) -> Vec<Vec<T>> {
    if items.len() <= 1 {
        return vec![items.to_vec()];
    }
    let mut out = Vec::new();
    for i in 0..items.len() {
        let mut rest = items.to_vec();
        let x = rest.remove(i);
        for mut p in permutations(&rest) {
            p.insert(0, x.clone());
            out.push(p);
        }
    }
    out
}

/// Histories of 2-4 calls that share a non-relative (or relative) literal across requiring
/// files in different directories, in every order, plus seeded mixed ones.
fn histories(thorough: bool, rng: &mut Rng) -> Vec<History> {
    let mut out = Vec::new();
    // requiring files: (path, directory, is a module-folder file)
    let requirers: [(&str, &str, bool); 7] = [
        ("src/a/init.luau", "src/a", true),
        ("src/b/init.luau", "src/b", true),
        ("src/b/other.luau", "src/b", false),
        ("src/a/deep/init.lua", "src/a/deep", true),
        ("lib/mod.luau", "lib", false),
        ("main.luau", ".", false),
        ("/abs/x/init.luau", "/abs/x", true),
    ];
    let masks: &[u32] = if thorough { &[2, 4, 16, 32, 6, 0, 3] } else { &[2, 4, 16, 0] };
    let dirs = ["src/a", "src/b", "src/a/deep", "lib", ".", "/abs/x", "src", "pk", "/abs"];
    // every directory gets its own layout around `util` (rotating through the masks) so that the
    // answers differ in kind as well as in place
    for (rot, _) in masks.iter().enumerate() {
        let mut files: Vec<String> = Vec::new();
        for (i, d) in dirs.iter().enumerate() {
            files.extend(layout_files(d, "util", masks[(i + rot) % masks.len()]));
        }
        files.sort();
        files.dedup();
        let luau = Mode::Luau { aliases: vec![(s("@pkg"), s("./pk")), (s("@abs"), s("/abs"))] };
        let pathm = Mode::Path { folder: s("init"), sources: vec![(s("pkg"), s("./pk")), (s("abs"), s("/abs"))] };
        // (kind, literal, how the base directory follows from the requirer)
        #[derive(Clone, Copy)]
        enum Base {
            OwnDir,
            RelativeLuau,
            RelativePath,
            Fixed(&'static str),
        }
        let literals: [(&'static str, &Mode, &str, Base, &[&str]); 8] = [
            ("history-luau-self", &luau, "@self/util", Base::OwnDir, &["util"]),
            ("history-luau-self", &luau, "@self/../util", Base::OwnDir, &["..", "util"]),
            ("history-luau-alias", &luau, "@pkg/util", Base::Fixed("pk"), &["util"]),
            ("history-luau-alias", &luau, "@abs/util", Base::Fixed("/abs"), &["util"]),
            ("history-luau-relative", &luau, "./util", Base::RelativeLuau, &["util"]),
            ("history-path-source", &pathm, "pkg/util", Base::Fixed("pk"), &["util"]),
            ("history-path-source", &pathm, "abs/util", Base::Fixed("/abs"), &["util"]),
            ("history-path-relative", &pathm, "./util", Base::RelativePath, &["util"]),
        ];
        let expect_of = |req_idx: usize, literal_idx: usize| -> Expect {
            let (_, dir, is_module) = requirers[req_idx];
            let (_, _, _, base, tail) = literals[literal_idx];
            let mut b = walk(&cwd(), dir);
            match base {
                Base::OwnDir | Base::RelativePath => {}
                Base::RelativeLuau => {
                    if is_module {
                        b.pop();
                    }
                }
                Base::Fixed(d) => b = walk(&cwd(), d),
            }
            expect_for(&b, tail, &files)
        };
        // same literal from 2-3 requiring files in different directories, every order, and with
        // the first call repeated at the end
        let groups: [&[usize]; 8] = [&[0, 1], &[0, 2], &[1, 3], &[0, 4, 5], &[0, 1, 6], &[2, 3, 4], &[5, 0], &[6, 1]];
        for (li, (kind, mode, literal, _, _)) in literals.iter().enumerate() {
            for group in groups {
                for perm in permutations(group) {
                    let mut order = perm.clone();
                    if order.len() < 4 {
                        order.push(perm[0]);
                    }
                    out.push(History {
                        mode: (*mode).clone(),
                        proj: s("."),
                        files: files.clone(),
                        calls: order.iter().map(|&r| (s(requirers[r].0), s(literal))).collect(),
                        expect: order.iter().map(|&r| Some(expect_of(r, li))).collect(),
                        kind,
                    });
                }
            }
        }
        // seeded mixed histories: different literals interleaved
        for _ in 0..(if thorough { 600 } else { 150 }) {
            let luau_side = rng.chance(2, 3);
            let pool: Vec<usize> = (0..literals.len()).filter(|&i| matches!(literals[i].1, Mode::Luau { .. }) == luau_side).collect();
            let n = 2 + rng.below(3);
            let picks: Vec<(usize, usize)> = (0..n).map(|_| (rng.below(requirers.len()), *rng.pick(&pool))).collect();
            out.push(History {
                mode: literals[picks[0].1].1.clone(),
                proj: s("."),
                files: files.clone(),
                calls: picks.iter().map(|&(r, l)| (s(requirers[r].0), s(literals[l].2))).collect(),
                expect: picks.iter().map(|&(r, l)| Some(expect_of(r, l))).collect(),
                kind: if luau_side { "history-luau-mixed" } else { "history-path-mixed" },
            });
        }
    }
    out
}

/// judge one history: (functionality failures, documentation failures, model mismatches)
fn check_history(h: &History, model_answer: &str) -> (Vec<String>, Vec<String>, Vec<String>) {
    let seq = real_history(h);
    let model: Vec<&str> = model_answer.split('|').collect();
    let mut stale = Vec::new();
    let mut docs = Vec::new();
    let mut corr = Vec::new();
    for i in 0..h.calls.len() {
        let case = h.call_case(i);
        let (fresh, _) = real_find(&case);
        if seq[i] != fresh {
            stale.push(format!(
                "call {} (`{}` from `{}`): the shared locator answers `{}`, a fresh locator `{}`",
                i + 1, case.req, case.source, seq[i], fresh
            ));
        }
        // the documented answer, judged on what the shared locator said
        let seq_path = seq[i].strip_prefix("ok ").map(|_| ());
        if seq_path.is_some() || seq[i].starts_with("err") {
            let real_path = if seq[i] == fresh { real_find(&case).1 } else { None };
            if seq[i] == fresh {
                if let Some(what) = oracle_find(&case, &seq[i], &real_path) {
                    docs.push(format!("call {}: {}", i + 1, what));
                }
            }
        }
        if model.get(i).copied() != Some(seq[i].as_str()) {
            corr.push(format!("call {}: real `{}` model `{}`", i + 1, seq[i], model.get(i).copied().unwrap_or("<missing>")));
        }
    }
    (stale, docs, corr)
}

/// one bundling run whose entry requires several modules, each of which makes the same requires
/// from its own directory. Returns the set of leaf files whose marker text was inlined.
fn real_bundle_many(mode: &Mode, proj: &str, leaves: &[String], modules: &[(String, Vec<String>)], entry: &str) -> Result<BTreeSet<String>, String> {
    let mode = mode.clone();
    let proj = proj.to_owned();
    let leaves = leaves.to_vec();
    let modules = modules.to_vec();
    let entry = entry.to_owned();
    std::panic::catch_unwind(move || {
        let resources = Resources::from_memory();
        for f in &leaves {
            resources.write(f, &format!("return {:?}", f)).unwrap();
        }
        let mut entry_code = String::new();
        for (i, (path, literals)) in modules.iter().enumerate() {
            let body: Vec<String> = literals.iter().map(|l| format!("require({:?})", l)).collect();
            resources.write(path, &format!("return {{ {} }}", body.join(", "))).unwrap();
            // the entry reaches the module by an explicit relative path
            entry_code.push_str(&format!("local m{} = require({:?})\n", i, format!("./{}", path)));
        }
        entry_code.push_str(&format!("return {{ {} }}", (0..modules.len()).map(|i| format!("m{}", i)).collect::<Vec<_>>().join(", ")));
        resources.write(&entry, &entry_code).unwrap();
        let text = format!("{{ rules: [], generator: 'dense', bundle: {{ require_mode: {} }} }}", mode_json5(&mode));
        let config: darklua_core::Configuration = json5::from_str(&text).map_err(|e| format!("configuration {}", e))?;
        let config = config.with_location(&proj);
        let out = "bundle-output/out.lua";
        let options = darklua_core::Options::new(&entry).with_output(out).with_configuration(config);
        let ok = match darklua_core::process(&resources, options) {
            Ok(tree) => tree.result().is_ok(),
            Err(_) => false,
        };
        if !ok {
            return Err("error".to_owned());
        }
        let code = resources.get(out).map_err(|_| "error".to_owned())?;
        Ok(leaves.iter().filter(|f| code.contains(&format!("'{}'", f)) || code.contains(&format!("\"{}\"", f))).cloned().collect())
    })
    .unwrap_or_else(|_| Err("panic".to_owned()))
}

// ------------------------------------------------------------------------------------------
// `.luaurc` runs: modes with use_luau_configuration on, the alias map read from `.luaurc` files of
// the layout by the real `process` (WorkerTree::add_source in a chosen order + process)

#[derive(Clone, Debug)]
struct RcRun {
    proj: String,
    current: Mode,
    target: Mode,
    leaves: Vec<String>,
    /// (directory of the `.luaurc` - "" is the working directory -, its raw aliases without `@`)
    rcs: Vec<(String, Vec<(String, String)>)>,
    /// (requiring file, require literal)
    sources: Vec<(String, String)>,
    kind: &'static str,
}

fn first_require_argument(code: &str) -> Option<String> {
    use darklua_core::nodes::{Arguments, Expression, LastStatement};
    let block = darklua_core::Parser::default().parse(code).ok()?;
    if let LastStatement::Return(ret) = block.get_last_statement()? {
        for e in ret.iter_expressions() {
            if let Expression::Call(call) = e {
                match call.get_arguments() {
                    Arguments::Tuple(t) => {
                        for v in t.iter_values() {
                            if let Expression::String(st) = v {
                                return Some(String::from_utf8_lossy(st.get_value()).into_owned());
                            }
                        }
                    }
                    Arguments::String(st) => return Some(String::from_utf8_lossy(st.get_value()).into_owned()),
                    _ => {}
                }
            }
        }
    }
    None
}

impl RcRun {
    fn to_json(&self, order: &[usize]) -> Value {
        json!({"op": "rcrun", "proj": self.proj, "current": mode_to_json(&self.current), "target": mode_to_json(&self.target),
               "files": self.leaves, "luaurc": self.rcs.iter().map(|(d, m)| json!([d, m.iter().map(|(k, v)| json!([k, v])).collect::<Vec<_>>()])).collect::<Vec<_>>(),
               "sources": self.sources.iter().map(|(p, r)| json!([p, r])).collect::<Vec<_>>(), "order": order})
    }

    fn from_json(v: &Value) -> Option<(RcRun, Vec<usize>)> {
        let pairs = |x: &Value| -> Option<Vec<(String, String)>> { Some(x.as_array()?.iter().filter_map(|e| Some((e[0].as_str()?.to_owned(), e[1].as_str()?.to_owned()))).collect()) };
        let run = RcRun {
            proj: v["proj"].as_str()?.to_owned(),
            current: mode_from_json(&v["current"])?,
            target: mode_from_json(&v["target"])?,
            leaves: v["files"].as_array()?.iter().filter_map(|f| f.as_str().map(str::to_owned)).collect(),
            rcs: v["luaurc"].as_array()?.iter().filter_map(|e| Some((e[0].as_str()?.to_owned(), pairs(&e[1])?))).collect(),
            sources: pairs(&v["sources"])?,
            kind: "replay",
        };
        let order = v["order"].as_array()?.iter().filter_map(|i| i.as_u64().map(|i| i as usize)).collect();
        Some((run, order))
    }

    /// the `.luaurc` that governs a requiring file: the nearest one walking up from its directory
    fn nearest_rc(&self, source: &str) -> Option<&(String, Vec<(String, String)>)> {
        let mut dir = match source.rfind('/') {
            Some(0) => "/".to_owned(),
            Some(i) => source[..i].to_owned(),
            None => String::new(),
        };
        loop {
            if let Some(rc) = self.rcs.iter().find(|(d, _)| *d == dir) {
                return Some(rc);
            }
            if dir.is_empty() || dir == "/" {
                return None;
            }
            dir = match dir.rfind('/') {
                Some(0) => "/".to_owned(),
                Some(i) => dir[..i].to_owned(),
                None => String::new(),
            };
        }
    }

    /// documented location of the directory an alias-prefixed require starts from
    fn documented_base(&self, source: &str, name: &str) -> Option<Loc> {
        let from_rc = self.nearest_rc(source).and_then(|(dir, entries)| {
            entries.iter().find(|(k, _)| format!("@{}", k) == name).map(|(_, v)| walk(&walk(&cwd(), dir), v))
        });
        let map = match &self.current {
            Mode::Path { sources, .. } => sources,
            Mode::Luau { aliases } => aliases,
        };
        let from_config = map.iter().find(|(k, _)| k == name).map(|(_, v)| walk(&walk(&cwd(), &self.proj), v));
        match &self.current {
            // luau mode: the `.luaurc` is looked at before the `aliases` of the darklua configuration
            Mode::Luau { .. } => from_rc.or(from_config),
            Mode::Path { .. } => from_config.or(from_rc),
        }
    }

    fn rc_wire(&self, source: &str) -> String {
        match self.nearest_rc(source) {
            None => "none".to_owned(),
            Some((dir, entries)) => format!("{}/{}", hx(dir), map_wire(entries)),
        }
    }
}

/// process the sources of a run in the given order with one WorkerTree; the require argument
/// written for each source (indexed as `run.sources`)
fn real_rc_run(run: &RcRun, order: &[usize]) -> Vec<Result<String, String>> {
    let n = run.sources.len();
    let run = run.clone();
    let order = order.to_vec();
    std::panic::catch_unwind(move || {
        let resources = Resources::from_memory();
        for f in &run.leaves {
            resources.write(f, &format!("return {:?}", f)).unwrap();
        }
        for (dir, entries) in &run.rcs {
            let body: Vec<String> = entries.iter().map(|(k, v)| format!("{:?}: {:?}", k, v)).collect();
            let path = if dir.is_empty() { ".luaurc".to_owned() } else if dir == "/" { "/.luaurc".to_owned() } else { format!("{}/.luaurc", dir) };
            resources.write(&path, &format!("{{ \"aliases\": {{ {} }} }}", body.join(", "))).unwrap();
        }
        for (path, req) in &run.sources {
            resources.write(path, &format!("return require({:?})", req)).unwrap();
        }
        let on = |m: &Mode| mode_json5(m).replace("use_luau_configuration: false", "use_luau_configuration: true");
        let text = format!("{{ generator: 'dense', rules: [ {{ rule: 'convert_require', current: {}, target: {} }} ] }}", on(&run.current), mode_json5(&run.target));
        let config: darklua_core::Configuration = match json5::from_str(&text) {
            Ok(c) => c,
            Err(e) => return vec![Err(format!("configuration {}", e)); n],
        };
        let config = config.with_location(&run.proj);
        let mut tree = darklua_core::WorkerTree::default();
        for &i in &order {
            tree.add_source(&run.sources[i].0, Some(PathBuf::from(format!("rc-output/{}.lua", i))));
        }
        let options = darklua_core::Options::new(&run.sources[order[0]].0).with_configuration(config);
        let _ = tree.process(&resources, options);
        (0..n)
            .map(|i| {
                if !order.contains(&i) {
                    return Err("not processed".to_owned());
                }
                let code = resources.get(format!("rc-output/{}.lua", i)).map_err(|_| "no output".to_owned())?;
                first_require_argument(&code).ok_or_else(|| "no require call left".to_owned())
            })
            .collect()
    })
    .unwrap_or_else(|_| vec![Err("panic".to_owned()); n])
}

/// Judge one source of a run. Returns (oracle failure, correspondence failure).
fn judge_rc_source(run: &RcRun, i: usize, arg: &Result<String, String>, model: &mut Model) -> (Option<String>, Option<String>) {
    let (source, req) = &run.sources[i];
    // documented: where the require leads
    let mut segs = req.split('/');
    let name = segs.next().unwrap_or("");
    let tail: Vec<&str> = segs.filter(|x| !x.is_empty()).collect();
    let expect = match run.documented_base(source, name) {
        Some(base) => expect_for(&base, &tail, &run.leaves),
        None => Expect::UnknownSource,
    };
    let mut oracle = None;
    match (&expect, arg) {
        (Expect::File(loc), Ok(a)) => {
            // the new argument, resolved by a fresh locator of the target mode, must be that file
            let again = Case { mode: run.target.clone(), proj: run.proj.clone(), files: run.leaves.clone(), source: source.clone(), req: a.clone(), expect: None, present: 0, kind: run.kind, ext: "", deco: 0, mask: 0, region: "" };
            let (text, path) = real_find(&again);
            match path {
                Some(p) if &walk(&cwd(), p.to_str().unwrap_or("")) == loc => {}
                _ => oracle = Some(format!("`{}` from `{}` is documented to reach /{} (nearest .luaurc: {:?}); it was converted to `{}`, which gives `{}`", req, source, loc.join("/"), run.nearest_rc(source).map(|(d, _)| d), a, text)),
            }
        }
        (Expect::File(loc), Err(e)) => oracle = Some(format!("`{}` from `{}` is documented to reach /{}; the run gave <{}>", req, source, loc.join("/"), e)),
        (_, Ok(a)) => {
            if a != req {
                oracle = Some(format!("`{}` from `{}` does not resolve by the documentation, yet it was rewritten to `{}`", req, source, a));
            }
        }
        (_, Err(_)) => {}
    }
    let answer = model.ask(&format!(
        "c15.convrc {} {} {} {} {} {} {}",
        mode_wire(&run.current),
        run.rc_wire(source),
        mode_wire(&run.target),
        hx(&run.proj),
        list_wire(&run.leaves),
        hx(source),
        hx(req)
    ));
    let model_arg = answer.strip_prefix("arg ").and_then(|r| r.split(' ').next()).and_then(crate::model::unhex).map(|b| String::from_utf8_lossy(&b).into_owned());
    let agrees = match (&model_arg, arg) {
        (Some(m), Ok(a)) => m == a,
        (None, Ok(a)) => answer.starts_with("none") && a == req,
        (_, Err(_)) => false,
    };
    let corr = if agrees { None } else { Some(format!("real `{:?}` model `{}`", arg, answer)) };
    (oracle, corr)
}

fn rc_leaves(bases: &[&str]) -> Vec<String> {
    let mut out = Vec::new();
    for b in bases {
        let l = walk(&cwd(), b);
        for rel in [&["m.luau"][..], &["sub", "m", "init.luau"][..], &["util.luau"][..]] {
            let mut x = l.clone();
            x.extend(rel.iter().map(|r| (*r).to_owned()));
            let f = loc_string(&x);
            if !out.contains(&f) {
                out.push(f);
            }
        }
    }
    out
}

/// One bundling run (real `darklua_core::process`) with use_luau_configuration on and `.luaurc`
/// files in the layout. `lua_files`: (path, require literals the file returns); the first one is the
/// entry. Returns the set of leaf files whose marker text was inlined, or the error text.
fn real_bundle_rc(mode: &Mode, proj: &str, leaves: &[String], rcs: &[(String, Vec<(String, String)>)], lua_files: &[(String, Vec<String>)]) -> Result<BTreeSet<String>, String> {
    let mode = mode.clone();
    let proj = proj.to_owned();
    let leaves = leaves.to_vec();
    let rcs = rcs.to_vec();
    let lua_files = lua_files.to_vec();
    std::panic::catch_unwind(move || {
        let resources = Resources::from_memory();
        for f in &leaves {
            resources.write(f, &format!("return {:?}", f)).unwrap();
        }
        for (dir, entries) in &rcs {
            let body: Vec<String> = entries.iter().map(|(k, v)| format!("{:?}: {:?}", k, v)).collect();
            let path = if dir.is_empty() { ".luaurc".to_owned() } else { format!("{}/.luaurc", dir) };
            resources.write(&path, &format!("{{ \"aliases\": {{ {} }} }}", body.join(", "))).unwrap();
        }
        for (path, literals) in &lua_files {
            let body: Vec<String> = literals.iter().map(|l| format!("require({:?})", l)).collect();
            resources.write(path, &format!("return {{ {} }}", body.join(", "))).unwrap();
        }
        let text = format!("{{ rules: [], generator: 'dense', bundle: {{ require_mode: {} }} }}", mode_json5(&mode).replace("use_luau_configuration: false", "use_luau_configuration: true"));
        let config: darklua_core::Configuration = json5::from_str(&text).map_err(|e| format!("configuration {}", e))?;
        let config = config.with_location(&proj);
        let out = "bundle-output/out.lua";
        let options = darklua_core::Options::new(&lua_files[0].0).with_output(out).with_configuration(config);
        let errors: Vec<String> = match darklua_core::process(&resources, options) {
            Ok(tree) => tree.result().err().map(|es| es.iter().map(|e| e.to_string()).collect()).unwrap_or_default(),
            Err(e) => vec![e.to_string()],
        };
        if !errors.is_empty() {
            return Err(format!("error: {}", errors.join(" | ")));
        }
        let code = resources.get(out).map_err(|_| "error: no output".to_owned())?;
        Ok(leaves.iter().filter(|f| code.contains(&format!("'{}'", f)) || code.contains(&format!("\"{}\"", f))).cloned().collect())
    })
    .unwrap_or_else(|_| Err("panic".to_owned()))
}

#[derive(Clone, Debug)]
struct BundleRcCase {
    mode: Mode,
    proj: String,
    leaves: Vec<String>,
    rcs: Vec<(String, Vec<(String, String)>)>,
    /// (path, require literals); the first file is the entry
    lua_files: Vec<(String, Vec<String>)>,
}

impl BundleRcCase {
    fn to_json(&self) -> Value {
        let mut v = mode_to_json(&self.mode);
        v["op"] = json!("bundle-rc");
        v["proj"] = json!(self.proj);
        v["files"] = json!(self.leaves);
        v["luaurc"] = json!(self.rcs.iter().map(|(d, m)| json!([d, m.iter().map(|(k, v)| json!([k, v])).collect::<Vec<_>>()])).collect::<Vec<_>>());
        v["lua_files"] = json!(self.lua_files.iter().map(|(p, ls)| json!([p, ls])).collect::<Vec<_>>());
        v
    }

    fn from_json(v: &Value) -> Option<BundleRcCase> {
        let pairs = |x: &Value| -> Option<Vec<(String, String)>> { Some(x.as_array()?.iter().filter_map(|e| Some((e[0].as_str()?.to_owned(), e[1].as_str()?.to_owned()))).collect()) };
        Some(BundleRcCase {
            mode: mode_from_json(v)?,
            proj: v["proj"].as_str()?.to_owned(),
            leaves: v["files"].as_array()?.iter().filter_map(|f| f.as_str().map(str::to_owned)).collect(),
            rcs: v["luaurc"].as_array()?.iter().filter_map(|e| Some((e[0].as_str()?.to_owned(), pairs(&e[1])?))).collect(),
            lua_files: v["lua_files"].as_array()?.iter().filter_map(|e| Some((e[0].as_str()?.to_owned(), e[1].as_array()?.iter().filter_map(|l| l.as_str().map(str::to_owned)).collect()))).collect(),
        })
    }

    fn as_run(&self) -> RcRun {
        RcRun { proj: self.proj.clone(), current: self.mode.clone(), target: self.mode.clone(), leaves: self.leaves.clone(), rcs: self.rcs.clone(), sources: vec![], kind: "bundle-rc" }
    }

    /// The leaf files a correct bundle inlines when every alias-prefixed require of a file is
    /// resolved with the `.luaurc` that governs `table_of(file)`. `Err` = some require cannot be
    /// resolved (the run must fail). Relative requires between the Lua files are not leaves.
    fn predicted(&self, table_of: &dyn Fn(&str) -> String) -> Result<BTreeSet<String>, ()> {
        let run = self.as_run();
        let mut out = BTreeSet::new();
        for (path, literals) in &self.lua_files {
            for l in literals {
                if l.starts_with('.') {
                    continue;
                }
                let mut segs = l.split('/');
                let name = segs.next().unwrap_or("");
                let tail: Vec<&str> = segs.collect();
                let base = run.documented_base(&table_of(path), name).ok_or(())?;
                match expect_for(&base, &tail, &self.leaves) {
                    Expect::File(loc) => {
                        out.insert(loc_string(&loc));
                    }
                    _ => return Err(()),
                }
            }
        }
        Ok(out)
    }

    /// known finding C15-F33's region: some bundled module with an alias-prefixed require is governed
    /// by another `.luaurc` than the entry
    fn module_under_other_rc(&self) -> bool {
        let run = self.as_run();
        let entry_rc = run.nearest_rc(&self.lua_files[0].0).map(|(d, _)| d.clone());
        self.lua_files[1..].iter().any(|(p, ls)| ls.iter().any(|l| !l.starts_with('.')) && run.nearest_rc(p).map(|(d, _)| d.clone()) != entry_rc)
    }
}

/// judge one `.luaurc` bundling case: `Ok(bucket)` or `Err(violation text)`
fn judge_bundle_rc(case: &BundleRcCase, f33_known: bool) -> Result<&'static str, String> {
    let got = real_bundle_rc(&case.mode, &case.proj, &case.leaves, &case.rcs, &case.lua_files).map_err(|e| e);
    let same = |want: &Result<BTreeSet<String>, ()>| match (want, &got) {
        (Ok(w), Ok(g)) => w == g,
        (Err(()), Err(e)) => e.starts_with("error"),
        _ => false,
    };
    // documented: every file's requires use the `.luaurc` nearest to THAT file
    let documented = case.predicted(&|file: &str| file.to_owned());
    if same(&documented) {
        return Ok(if documented.is_ok() { "inlines the files of each module's own .luaurc" } else { "fails as documented" });
    }
    // C15-F33: the entry's alias table is used for the requires of every bundled module
    let entry = case.lua_files[0].0.clone();
    let entry_table = case.predicted(&|_file: &str| entry.clone());
    if case.module_under_other_rc() && f33_known && same(&entry_table) {
        return Ok("C15-F33 (entry's alias table used for a module under another .luaurc)");
    }
    Err(format!("documented {:?}, bundled {:?}", documented, got))
}

fn bundle_rc_cases() -> Vec<BundleRcCase> {
    let mut out = Vec::new();
    let leaves = rc_leaves(&["src/lib", "src/pkg/vendor", "src/vendor", "src/pkg/lib", "lib", "vendor", "cfg/lib", "cfg/vendor", "src/other/lib"]);
    let outer = (s("src"), vec![(s("lib"), s("./lib"))]);
    let nested = (s("src/pkg"), vec![(s("lib"), s("./vendor"))]);
    let root = (s(""), vec![(s("lib"), s("./lib"))]);
    for proj in [".", "cfg"] {
        for (mode, ext) in [(Mode::Luau { aliases: vec![] }, "luau"), (Mode::Path { folder: s("init"), sources: vec![] }, "lua")] {
            let f = |stem: &str| format!("{}.{}", stem, ext);
            for rcs in [vec![outer.clone(), nested.clone()], vec![outer.clone()], vec![nested.clone()], vec![root.clone(), nested.clone()], vec![root.clone()]] {
                for literal in ["@lib/util", "@lib/sub/m"] {
                    // the entry requires a module in a deeper directory, both use the alias
                    out.push(BundleRcCase { mode: mode.clone(), proj: s(proj), leaves: leaves.clone(), rcs: rcs.clone(), lua_files: vec![(f("src/main"), vec![s("./pkg/m"), s(literal)]), (f("src/pkg/m"), vec![s(literal)])] });
                    // only the module uses the alias
                    out.push(BundleRcCase { mode: mode.clone(), proj: s(proj), leaves: leaves.clone(), rcs: rcs.clone(), lua_files: vec![(f("src/main"), vec![s("./pkg/m")]), (f("src/pkg/m"), vec![s(literal)])] });
                    // a sibling module governed by the same `.luaurc` as the entry, and the deep module as entry
                    out.push(BundleRcCase { mode: mode.clone(), proj: s(proj), leaves: leaves.clone(), rcs: rcs.clone(), lua_files: vec![(f("src/main"), vec![s("./other/n"), s(literal)]), (f("src/other/n"), vec![s(literal)])] });
                    out.push(BundleRcCase { mode: mode.clone(), proj: s(proj), leaves: leaves.clone(), rcs: rcs.clone(), lua_files: vec![(f("src/pkg/m"), vec![s(literal), s("./deep/k")]), (f("src/pkg/deep/k"), vec![s(literal)])] });
                }
            }
        }
    }
    out
}

/// single-file runs: the alias comes from a `.luaurc` (root or an ancestor of the requiring file),
/// crossed with the darklua configuration's location
fn rc_single_runs() -> Vec<RcRun> {
    let mut out = Vec::new();
    for proj in [".", "cfg", "..", "/abs"] {
        for rc_dir in ["", "src"] {
            for source in ["src/main.luau", "src/deep/mod.luau", "src/deep/init.luau"] {
                let rc_base = if rc_dir.is_empty() { s(".") } else { s(rc_dir) };
                // every directory an alias could be (mis)taken to start from holds the same layout
                let bases: Vec<String> = vec![
                    format!("{}/pk", rc_base), format!("{}/../shared", rc_base), format!("{}/pk", proj), format!("{}/../shared", proj),
                    format!("{}/pk2", proj), format!("{}/other", proj), s("pk"), s("src/pk"),
                ];
                let leaves = rc_leaves(&bases.iter().map(String::as_str).collect::<Vec<_>>());
                let rcs = vec![(s(rc_dir), vec![(s("pkg"), s("./pk")), (s("up"), s("../shared"))])];
                for (config_aliases, reqs) in [
                    (vec![], vec!["@pkg/m", "@pkg/sub/m", "@up/util", "@nope/m"]),
                    (vec![(s("@cfgpkg"), s("./pk2"))], vec!["@cfgpkg/m", "@pkg/m"]),
                    (vec![(s("@pkg"), s("./other"))], vec!["@pkg/m"]),
                ] {
                    for req in reqs {
                        out.push(RcRun {
                            proj: s(proj),
                            current: Mode::Luau { aliases: config_aliases.clone() },
                            target: Mode::Path { folder: s("init"), sources: vec![] },
                            leaves: leaves.clone(),
                            rcs: rcs.clone(),
                            sources: vec![(s(source), s(req))],
                            kind: "luaurc-luau->path",
                        });
                    }
                }
                // path mode falls back to the `.luaurc` aliases when `sources` has no such name
                let path_source = source.replace(".luau", ".lua");
                for (config_sources, reqs) in [(vec![], vec!["@pkg/m", "@up/util", "@nope/m"]), (vec![(s("cfgpkg"), s("./pk2"))], vec!["cfgpkg/m", "@pkg/sub/m"])] {
                    for req in reqs {
                        out.push(RcRun {
                            proj: s(proj),
                            current: Mode::Path { folder: s("init"), sources: config_sources.clone() },
                            target: Mode::Luau { aliases: vec![] },
                            leaves: leaves.clone(),
                            rcs: rcs.clone(),
                            sources: vec![(path_source.clone(), s(req))],
                            kind: "luaurc-path->luau",
                        });
                    }
                }
            }
        }
    }
    out
}

/// multi-file runs: a root `.luaurc` and a nested one giving the same alias different targets
/// (and the nested-only / outer-only variants); every file is governed by its NEAREST `.luaurc`
fn rc_multi_runs() -> Vec<RcRun> {
    let mut out = Vec::new();
    let leaves = rc_leaves(&["rootlib", "pkg/lib", "lib", "pkg/rootlib", "cfg/rootlib", "cfg/lib"]);
    let outer = (s(""), vec![(s("lib"), s("./rootlib"))]);
    let nested = (s("pkg"), vec![(s("lib"), s("./lib"))]);
    for proj in [".", "cfg"] {
        for rcs in [vec![outer.clone(), nested.clone()], vec![nested.clone()], vec![outer.clone()]] {
            out.push(RcRun {
                proj: s(proj),
                current: Mode::Luau { aliases: vec![] },
                target: Mode::Path { folder: s("init"), sources: vec![] },
                leaves: leaves.clone(),
                rcs: rcs.clone(),
                sources: vec![(s("main.luau"), s("@lib/util")), (s("pkg/a.luau"), s("@lib/util")), (s("pkg/deep/b.luau"), s("@lib/m")), (s("other/c.luau"), s("@lib/util"))],
                kind: "luaurc-nested-luau->path",
            });
            out.push(RcRun {
                proj: s(proj),
                current: Mode::Path { folder: s("init"), sources: vec![] },
                target: Mode::Luau { aliases: vec![] },
                leaves: leaves.clone(),
                rcs,
                sources: vec![(s("main.lua"), s("@lib/util")), (s("pkg/a.lua"), s("@lib/util")), (s("pkg/deep/b.lua"), s("@lib/sub/m"))],
                kind: "luaurc-nested-path->luau",
            });
        }
    }
    out
}

/// run the `.luaurc` obligations; returns violations as (kind, check, what, input, found)
fn check_rc_run(report: &mut Report, model: &mut Model, run: &RcRun, orders: &[Vec<usize>]) {
    // every file alone, in a fresh run
    let alone: Vec<Result<String, String>> = (0..run.sources.len()).map(|i| real_rc_run(run, &[i])[i].clone()).collect();
    for (i, arg) in alone.iter().enumerate() {
        report.case(Some(hash_of(&("rcrun", format!("{:?}{:?}", run.current, run.rcs), &run.proj, &run.sources[i])))); 
        let (oracle, corr) = judge_rc_source(run, i, arg, model);
        report.hist("luaurc-run", if oracle.is_some() { "fails" } else if arg.as_ref().ok() == Some(&run.sources[i].1) { "left alone" } else { "converted, reaches the documented file" });
        if let Some(what) = oracle {
            report.violation(Violation { kind: s("oracle"), check: format!("luaurc-alias-resolution/{}", run.kind), what, input: run.to_json(&[i]), failing_input_found: true });
        } else if let Some(what) = corr {
            report.violation(Violation { kind: s("correspondence"), check: format!("luaurc/{}", run.kind), what, input: run.to_json(&[i]), failing_input_found: false });
        }
    }
    // all files in one run, in every given order: the answers must be those of the fresh runs
    for order in orders {
        if order.len() < 2 {
            continue;
        }
        let together = real_rc_run(run, order);
        report.case(Some(hash_of(&("rcrun-order", format!("{:?}{:?}", run.current, run.rcs), &run.proj, order))));
        for &i in order {
            if together[i] != alone[i] {
                let (oracle, _) = judge_rc_source(run, i, &together[i], model);
                report.violation(Violation {
                    kind: s("oracle"),
                    check: format!("luaurc-run-order-independence/{}", run.kind),
                    what: format!("`{}` from `{}`: processed alone -> {:?}, processed in the order {:?} -> {:?}{}", run.sources[i].1, run.sources[i].0, alone[i], order, together[i], oracle.map(|o| format!(" ({})", o)).unwrap_or_default()),
                    input: run.to_json(order),
                    failing_input_found: true,
                });
            }
        }
    }
}

// ------------------------------------------------------------------------------------------
// normalize

fn path_strings(max_len: usize) -> Vec<String> {
    let segs = ["", ".", "..", "a", "b.lua", ".x"];
    let mut out = vec![String::new(), "/".to_owned()];
    let mut frontier: Vec<Vec<&str>> = vec![vec![]];
    for _ in 0..max_len {
        let mut next = Vec::new();
        for f in &frontier {
            for sg in segs {
                let mut g = f.clone();
                g.push(sg);
                next.push(g);
            }
        }
        for g in &next {
            let joined = g.join("/");
            out.push(joined.clone());
            out.push(format!("/{}", joined));
        }
        frontier = next;
    }
    out.sort();
    out.dedup();
    out
}

fn real_norm(keep: bool, p: &str) -> PathBuf {
    if keep {
        vh::normalize_path_with_current_dir(Path::new(p))
    } else {
        vh::normalize_path(Path::new(p))
    }
}

/// the property's demands on `normalize`, judged on the real function with the string walk.
/// Returns (failure, is_root_loss).
fn oracle_norm(keep: bool, p: &str) -> Option<String> {
    let out = real_norm(keep, p);
    let out_s = out.to_str().unwrap_or("").to_owned();
    let again = real_norm(keep, &out_s);
    if again != out || again.to_str() != out.to_str() {
        return Some(format!("not idempotent: `{}` -> `{}` -> `{}`", p, out_s, again.display()));
    }
    if p.starts_with('/') && !out_s.starts_with('/') {
        return Some(format!("absolute `{}` normalises to relative `{}`", p, out_s));
    }
    for start in [cwd(), vec![s("r")], vec![]] {
        if walk(&start, p) != walk(&start, &out_s) {
            return Some(format!(
                "`{}` leads to /{} but its normal form `{}` leads to /{} (from /{})",
                p,
                walk(&start, p).join("/"),
                out_s,
                walk(&start, &out_s).join("/"),
                start.join("/")
            ));
        }
    }
    None
}

fn mutate_path_string(p: &str, rng: &mut Rng) -> String {
    let segs = ["", ".", "..", "a", "b.lua", ".x"];
    let mut parts: Vec<String> = p.split('/').map(str::to_owned).collect();
    match rng.below(3) {
        0 if parts.len() > 1 => {
            let i = rng.below(parts.len());
            parts.remove(i);
        }
        1 => {
            let i = rng.below(parts.len() + 1);
            parts.insert(i, s(*rng.pick(&segs)));
        }
        _ => {
            let i = rng.below(parts.len());
            parts[i] = s(*rng.pick(&segs));
        }
    }
    parts.join("/")
}

// ------------------------------------------------------------------------------------------
// candidates (iterator)

/// (path string, folder) pairs for which the documentation fixes the list literally
fn documented_cands_literal(p: &str, folder: &str, folder_has_ext: bool) -> Vec<String> {
    if p.ends_with(".lua") || p.ends_with(".luau") {
        return vec![s(p)];
    }
    let no_name = p == "." || p == ".." || p == "/" || p.ends_with("/..");
    let mut out = vec![s(p)];
    if !no_name {
        out.push(format!("{}.luau", p));
        out.push(format!("{}.lua", p));
    }
    let joined = if p == "/" { format!("/{}", folder) } else { format!("{}/{}", p, folder) };
    out.push(joined.clone());
    if !folder_has_ext {
        out.push(format!("{}.luau", joined));
        out.push(format!("{}.lua", joined));
    }
    out
}

// ------------------------------------------------------------------------------------------

fn known_entry<'a>(known: &'a [Value], id: &str) -> Option<&'a Value> {
    known.iter().find(|e| e["id"] == id && e["status"] == "known")
}

pub fn run(report: &mut Report, replay: Option<&str>) {
    let thorough = report.is_thorough();
    let mut rng = Rng::new(report.seed);
    let known = known_findings("C15");
    let threads = std::thread::available_parallelism().map(|n| n.get()).unwrap_or(4).min(16);
    report.rule = "normalize: every path string over the segments {'', '.', '..', 'a', 'b.lua', '.x'} up to a length bound, rooted or not, both keep flags, plus seeded longer ones; \
candidates: path strings x module folder names; locators: every subset of the six files around the target x require spellings (plain, redundant '.', detour 'zz/..', '//', trailing '/', './..', with/without .lua/.luau, non-Lua extension) x requiring files (ordinary, module-folder, absolute, parent-relative) x module folder names (init, init.luau, index) x sources/aliases maps x project locations, plus seeded odd cases; histories: 2-4 calls (requiring file, require) answered by ONE locator instance (and one bundling run with several requiring modules) sharing a literal (@self/.., @alias/.., source/.., ./..) across directories, every order, each answer compared with the fresh-locator answer, the documented answer and the model. \
A locator case is non-trivial when at least one candidate file exists (the loop selects); a normalize case when the output differs from the input's own component list; keys are whole inputs."
        .to_owned();

    if let Some(file) = replay {
        run_replay(report, file);
        return;
    }

    let mut model = spawn_model();

    // ---- corpus: stored inputs are re-run first (find cases and normalize inputs)
    let corpus_dir = concat!(env!("CARGO_MANIFEST_DIR"), "/../corpus/C15");
    if let Ok(entries) = std::fs::read_dir(corpus_dir) {
        let mut files: Vec<_> = entries.filter_map(|e| e.ok()).map(|e| e.path()).collect();
        files.sort();
        for f in files {
            if let Ok(text) = std::fs::read_to_string(&f) {
                if let Ok(v) = serde_json::from_str::<Value>(&text) {
                    report.count("corpus_entries", 1);
                    check_corpus_entry(report, &mut model, &v, &known);
                }
            }
        }
    }

    // ---- known findings: replay the listed witnesses
    replay_known(report, &known);

    // ---- A. normalize: correspondence + oracle
    let mut strings = path_strings(if thorough { 6 } else { 5 });
    for _ in 0..(if thorough { 60000 } else { 6000 }) {
        let k = 5 + rng.below(6);
        let segs = ["", ".", "..", "a", "b.lua", ".x", "init", "a.b.c"];
        let body: Vec<&str> = (0..k).map(|_| *rng.pick(&segs)).collect();
        let mut p = body.join("/");
        if rng.chance(1, 3) {
            p = format!("/{}", p);
        }
        strings.push(p);
    }
    report.exhaustive.insert(format!("normalize: all strings of <= {} segments over 6 segment kinds, rooted or not", if thorough { 6 } else { 5 }), true);
    for keep in [false, true] {
        let k = if keep { "1" } else { "0" };
        let requests: Vec<String> = strings.iter().map(|p| format!("c15.norm {} {}", k, hx(p))).collect();
        let answers = model.ask_batch(&requests);
        for (i, p) in strings.iter().enumerate() {
            let model_out = &answers[i];
            let real = std::panic::catch_unwind(|| real_norm(keep, p));
            let real_wire = match &real {
                Ok(r) => wire(r),
                Err(_) => s("panic"),
            };
            let changed = real_wire != wire(Path::new(p));
            report.case(if changed { Some(("norm", keep, p.clone())) } else { None });
            let above_root = p.starts_with('/') && {
                // `..` met while at the root (the region of the repaired F16), by the string walk
                let mut depth = 0i32;
                let mut hit = false;
                for seg in p.split('/') {
                    match seg {
                        "" | "." => {}
                        ".." => {
                            if depth == 0 {
                                hit = true;
                            } else {
                                depth -= 1;
                            }
                        }
                        _ => depth += 1,
                    }
                }
                hit
            };
            report.hist("normalize", if above_root { "`..` at the root" } else if changed { "changed" } else { "unchanged" });
            let oracle = if real.is_ok() { oracle_norm(keep, p) } else { Some(s("panic")) };
            if let Some(what) = &oracle {
                report.violation(Violation { kind: s("oracle"), check: s("normalize"), what: what.clone(), input: json!({"op": "norm", "keep": keep, "path": p}), failing_input_found: true });
            }
            if &real_wire != model_out {
                // look for a property failure on this input or near it before blaming the model
                let mut found = oracle.clone().map(|w| (p.clone(), w));
                let mut local = rng.fork();
                for _ in 0..400 {
                    if found.is_some() {
                        break;
                    }
                    let q = mutate_path_string(p, &mut local);
                    if let Some(w) = oracle_norm(keep, &q) {
                        found = Some((q, w));
                    }
                }
                match found {
                    Some((q, w)) => report.violation(Violation { kind: s("oracle"), check: s("normalize"), what: w, input: json!({"op": "norm", "keep": keep, "path": q}), failing_input_found: true }),
                    None => report.violation(Violation { kind: s("correspondence"), check: s("normalize"), what: format!("real `{}` model `{}`", real_wire, model_out), input: json!({"op": "norm", "keep": keep, "path": p}), failing_input_found: false }),
                }
            }
        }
    }
    report.sample(json!({"op": "norm", "keep": true, "path": "a/.././b", "real": real_norm(true, "a/.././b")}));

    // ---- B. candidates: correspondence + literal documented list
    let folders: [(&str, Option<bool>); 12] = [
        ("init", Some(false)), ("index", Some(false)), ("init.luau", Some(true)), ("index.lua", Some(true)), ("mod.x", Some(true)),
        ("", None), ("x/y", None), ("./init", None), ("..", None), ("/abs", None), (".hid", Some(false)), ("init.", None),
    ];
    let cand_paths = path_strings(if thorough { 4 } else { 3 });
    let literal_paths = ["a", "./a", "../a", "d/a", "/d/a", "a.txt", ".hid", "a.b.c", "a.lua", "./d/a.luau", ".", "..", "/", "../..", "a.", "./.luau", "x.lua.bak"];
    let mut requests = Vec::new();
    let mut keys = Vec::new();
    for (folder, _) in &folders {
        for p in cand_paths.iter().map(String::as_str).chain(literal_paths.iter().copied()) {
            requests.push(format!("c15.cands {} {}", hx(p), hx(folder)));
            keys.push((p.to_owned(), *folder));
        }
    }
    let mut oracle_cands_failed = false;
    for (folder, has_ext) in &folders {
        let has_ext = match has_ext {
            Some(b) => *b,
            None => continue,
        };
        for p in literal_paths {
            if p == "a." || p == "./.luau" {
                continue; // `a.` has an empty extension, `.luau` is a hidden file without one: the documentation does not say
            }
            let expected: Vec<String> = documented_cands_literal(p, folder, has_ext).iter().map(|c| wire(Path::new(c))).collect();
            let real: Vec<String> = vh::find_require_paths(Path::new(p), folder).iter().map(|c| wire(c)).collect();
            report.case(Some(("cands-literal", p, *folder)));
            if expected != real {
                oracle_cands_failed = true;
                report.violation(Violation { kind: s("oracle"), check: s("candidates-documented-order"), what: format!("documented `{}` real `{}`", expected.join(";"), real.join(";")), input: json!({"op": "cands", "path": p, "folder": folder}), failing_input_found: true });
            }
        }
    }
    let answers = model.ask_batch(&requests);
    for ((p, folder), answer) in keys.iter().zip(answers.iter()) {
        let real = std::panic::catch_unwind(|| vh::find_require_paths(Path::new(p), folder));
        let real_wire = match &real {
            Ok(v) => v.iter().map(|c| wire(c)).collect::<Vec<_>>().join(";"),
            Err(_) => s("panic"),
        };
        report.case(Some(("cands", p.clone(), *folder)));
        report.hist("candidates", &format!("{} items", real.as_ref().map(|v| v.len()).unwrap_or(0)));
        if &real_wire != answer {
            report.violation(Violation { kind: s("correspondence"), check: s("candidates"), what: format!("real `{}` model `{}`", real_wire, answer), input: json!({"op": "cands", "path": p, "folder": folder}), failing_input_found: oracle_cands_failed });
        }
    }
    report.exhaustive.insert(format!("candidates: all path strings of <= {} segments x 12 module folder names", if thorough { 4 } else { 3 }), true);

    // ---- C. locators
    let mut cases = labelled_cases(thorough, &mut rng);
    let labelled = cases.len();
    cases.extend(random_cases(if thorough { 400_000 } else { 40_000 }, &mut rng));
    report.exhaustive.insert(s("locators: all 64 subsets of the six files around the target, for every plain spelling x requiring file x mode x module folder name x sources map listed in the rule"), true);
    if thorough {
        report.exhaustive.insert(s("locators: all 64 subsets for the decorated spellings as well"), true);
    }
    let outcomes = run_find_cases(&cases, threads);
    let mut oracle_failures: BTreeMap<&'static str, usize> = BTreeMap::new();
    let mut mismatches = Vec::new();
    for o in &outcomes {
        let case = &cases[o.idx];
        let nontrivial = case.present > 0 || o.real.starts_with("ok");
        report.case(if nontrivial { Some(hash_of(&(format!("{:?}", case.mode), &case.proj, &case.files, &case.source, &case.req))) } else { None });
        report.hist("locator-kind", case.kind);
        report.hist("locator-result", if o.real.starts_with("ok") { "ok" } else { o.real.split(' ').take(2).collect::<Vec<_>>().join(" ").leak() });
        if o.idx < labelled {
            report.hist("candidates-present", &case.present.to_string());
        }
        if let Some(what) = &o.oracle {
            if !case.region.is_empty() && known_entry(&known, case.region).is_some() {
                report.hist("locator-failures-in-listed-regions", case.region);
            } else {
                *oracle_failures.entry(case.kind).or_default() += 1;
                report.violation(Violation { kind: s("oracle"), check: format!("first-existing-candidate/{}", case.kind), what: what.clone(), input: case.to_json(), failing_input_found: true });
            }
        }
        if o.real != o.model {
            mismatches.push(o);
        }
    }
    for o in mismatches {
        let case = &cases[o.idx];
        if o.oracle.is_some() && (case.region.is_empty() || known_entry(&known, case.region).is_none()) {
            continue; // already reported as the property failing on this very input
        }
        // neighbours (same mode and requiring file, every layout and spelling) are all part of
        // the enumeration above: a property failure near this input has been reported already
        let found = !oracle_failures.is_empty();
        report.violation(Violation { kind: s("correspondence"), check: format!("locator/{}", case.kind), what: format!("real `{}` model `{}`", o.real, o.model), input: case.to_json(), failing_input_found: found });
    }
    for c in cases.iter().step_by(cases.len() / 6 + 1) {
        let (real, _) = real_find(c);
        let mut v = c.to_json();
        v["real"] = json!(real);
        v["files"] = json!(c.files.iter().take(4).collect::<Vec<_>>());
        report.sample(v);
    }
    // ---- D. convert_require between the path and luau modes
    let conv_cases = convert_cases(&cases[..labelled], thorough);
    let conv_outcomes = run_convert_cases(&conv_cases, threads);
    let f29_known = known_entry(&known, "F29").is_some();
    for o in &conv_outcomes {
        let cc = &conv_cases[o.idx];
        let case = &cc.case;
        report.case(if o.found_ok { Some(hash_of(&("conv", format!("{:?}{:?}", case.mode, cc.target), &case.proj, &case.files, &case.source, &case.req))) } else { None });
        let direction = match (&case.mode, &cc.target) {
            (Mode::Path { .. }, _) => "path->luau",
            _ => "luau->path",
        };
        report.hist("convert-direction", direction);
        // model answer: none | arg <hex> found <wire> again <wire>
        let model_arg = if o.model == "none" {
            None
        } else {
            o.model.strip_prefix("arg ").and_then(|r| r.split(' ').next()).and_then(crate::model::unhex).map(|b| String::from_utf8_lossy(&b).into_owned())
        };
        let mut input = case.to_json();
        input["op"] = json!("conv");
        input["target"] = mode_to_json(&cc.target);
        let mut oracle_reported = false;
        if let Some(what) = &o.oracle {
            let region = if what.starts_with("[shadowed]") {
                "F29"
            } else {
                ""
            };
            report.hist("convert-oracle", if region.is_empty() { "fails" } else { region });
            let excused = region == "F29" && f29_known;
            if !excused {
                oracle_reported = true;
                report.violation(Violation { kind: s("oracle"), check: format!("convert-keeps-target/{}", direction), what: what.clone(), input: input.clone(), failing_input_found: true });
            }
        } else if o.found_ok {
            report.hist("convert-oracle", "keeps target");
        } else {
            report.hist("convert-oracle", "require does not resolve (left alone)");
        }
        let real_arg = match &o.real_arg {
            Ok(a) => a.clone(),
            Err(e) => format!("<{}>", e),
        };
        let agrees = match &model_arg {
            None => o.model == "none" && real_arg == case.req,
            Some(a) => a == &real_arg,
        };
        if !agrees && !oracle_reported {
            // the oracle is silent or its verdict was excused by a listed finding: the model and
            // the real rule still have to write the same argument
            report.violation(Violation { kind: s("correspondence"), check: format!("generate-require/{}", direction), what: format!("real argument `{}` model `{}`", real_arg, o.model), input, failing_input_found: false });
        } else if !agrees {
            report.count("convert_mismatch_on_failing_input", 1);
        }
    }
    // ---- E. end to end through bundling (oracle only: documented expectation vs inlined marker)
    let mut pool: Vec<&Case> = cases[..labelled].iter().filter(|c| c.region.is_empty() && !c.req.contains(".d") && matches!(c.expect, Some(Expect::File(_)) | Some(Expect::NotFound))).collect();
    rng.shuffle(&mut pool);
    pool.truncate(if thorough { 40_000 } else { 6_000 });
    let bundle_results = run_bundle_cases(&pool, threads);
    for (case, got) in pool.iter().zip(bundle_results.iter()) {
        let want = match &case.expect {
            Some(Expect::File(loc)) => format!("marker {}", loc_string(loc)),
            _ => s("error"),
        };
        report.case(Some(hash_of(&("bundle", format!("{:?}", case.mode), &case.proj, &case.files, &case.source, &case.req))));
        let lua_file = want.ends_with(".lua") || want.ends_with(".luau");
        let no_extension = want.starts_with("marker") && Path::new(&want["marker ".len()..]).extension().is_none();
        if want.starts_with("marker") && !lua_file && !no_extension {
            // a data file (`data.json`): the leaf files of this generator hold Lua text, skip
            report.hist("bundle", "skipped (documented file is a data file)");
            continue;
        }
        let region = "";
        // the first existing candidate may be a file without an extension (`the given path`,
        // `path/init`): resolution must still pick it, and the bundler - which loads resources by
        // extension - must refuse exactly that file with its "without an extension" error
        let matches = if no_extension && region.is_empty() {
            match (got.strip_prefix("error no-extension "), &case.expect) {
                (Some(p), Some(Expect::File(loc))) => &walk(&cwd(), p) == loc,
                _ => false,
            }
        } else {
            &want == got
        };
        if matches {
            report.hist("bundle", if no_extension { "refuses the documented extension-less file by name" } else if want == "error" { "fails as documented (no candidate)" } else { "inlines the documented file" });
            continue;
        }
        report.hist("bundle", if region.is_empty() { "differs" } else { region });
        let excused = false;
        if !excused {
            let mut input = case.to_json();
            input["op"] = json!("bundle");
            report.violation(Violation { kind: s("oracle"), check: format!("bundle-inlines-first-existing/{}", case.kind), what: format!("documented `{}`{}, bundled `{}`", want, if no_extension { " (to be refused as a resource without an extension)" } else { "" }, got), input, failing_input_found: true });
        }
    }
    // ---- F. histories: one locator answers several calls (resolution must be a function of
    //         (file system, mode, requiring file, require): every answer = the fresh-locator answer)
    let hs = histories(thorough, &mut rng);
    let requests: Vec<String> = hs.iter().map(|h| h.model_request()).collect();
    let answers = model.ask_batch(&requests);
    for (h, answer) in hs.iter().zip(answers.iter()) {
        let (stale, docs, corr) = check_history(h, answer);
        report.case(Some(hash_of(&("hist", format!("{:?}", h.mode), &h.files, &h.calls))));
        report.hist("history-kind", h.kind);
        report.hist("history-length", &h.calls.len().to_string());
        for what in &stale {
            report.violation(Violation { kind: s("oracle"), check: format!("history-independence/{}", h.kind), what: what.clone(), input: h.to_json(), failing_input_found: true });
        }
        for what in &docs {
            report.violation(Violation { kind: s("oracle"), check: format!("history-first-existing-candidate/{}", h.kind), what: what.clone(), input: h.to_json(), failing_input_found: true });
        }
        if stale.is_empty() && docs.is_empty() {
            for what in &corr {
                report.violation(Violation { kind: s("correspondence"), check: format!("history/{}", h.kind), what: what.clone(), input: h.to_json(), failing_input_found: false });
            }
        }
    }
    report.count("history_cases", hs.len() as u64);
    report.exhaustive.insert(s("histories: the same literal (@self/.., @alias/.., source/.., ./..) from 2-3 requiring files in different directories, every order, first call repeated at the end"), true);

    // ---- G. one bundling run, several requiring modules in different directories sharing their
    //         non-relative literals: every documented file must be inlined, and no other
    {
        let luau = Mode::Luau { aliases: vec![(s("@pkg"), s("./pk"))] };
        let pathm = Mode::Path { folder: s("init"), sources: vec![(s("pkg"), s("./pk"))] };
        // (mode, modules (path, dir, is module-folder), literals with their base rule)
        let luau_modules: [(&str, &str, bool); 4] = [("src/a/init.luau", "src/a", true), ("src/b/init.luau", "src/b", true), ("src/b/other.luau", "src/b", false), ("lib/mod.luau", "lib", false)];
        let path_modules: [(&str, &str, bool); 3] = [("src/a/mod.lua", "src/a", false), ("src/b/mod.lua", "src/b", false), ("lib/mod.lua", "lib", false)];
        let mut leaves: Vec<String> = Vec::new();
        for (i, d) in ["src/a", "src/b", "lib", "pk", "src", "."].iter().enumerate() {
            // `util.luau` / `util.lua` / `util/init.luau` in turn: always a Lua extension (F31 stays out)
            leaves.extend(layout_files(d, "util", [2u32, 4, 16][i % 3]));
            leaves.extend(layout_files(d, "helper", [4u32, 16, 2][i % 3]));
        }
        let groups: Vec<Vec<usize>> = vec![vec![0, 1], vec![1, 0], vec![0, 2], vec![2, 0], vec![0, 1, 3], vec![3, 1, 0], vec![1, 2, 3], vec![0, 1, 2, 3]];
        let mut runs = 0u64;
        for (mode, modules, literal_sets) in [
            (&luau, &luau_modules[..], vec![vec!["@self/util"], vec!["@self/util", "@pkg/util"], vec!["@pkg/helper", "@self/helper"], vec!["./util", "@self/util"]]),
            (&pathm, &path_modules[..], vec![vec!["pkg/util"], vec!["./util", "pkg/util"], vec!["./helper", "pkg/helper"]]),
        ] {
            for group in &groups {
                if group.iter().any(|&g| g >= modules.len()) {
                    continue;
                }
                for literals in &literal_sets {
                    let mods: Vec<(String, Vec<String>)> = group.iter().map(|&g| (s(modules[g].0), literals.iter().map(|l| s(l)).collect())).collect();
                    // documented set of inlined leaves
                    let mut want: BTreeSet<String> = BTreeSet::new();
                    let mut resolvable = true;
                    for &g in group {
                        let (_, dir, is_module) = modules[g];
                        for l in literals {
                            let (base, tail): (Loc, Vec<&str>) = if let Some(t) = l.strip_prefix("@self/") {
                                (walk(&cwd(), dir), t.split('/').collect())
                            } else if let Some(t) = l.strip_prefix("@pkg/").or_else(|| l.strip_prefix("pkg/")) {
                                (walk(&cwd(), "pk"), t.split('/').collect())
                            } else {
                                let mut b = walk(&cwd(), dir);
                                if is_module && matches!(mode, Mode::Luau { .. }) {
                                    b.pop();
                                }
                                (b, l.trim_start_matches("./").split('/').collect())
                            };
                            match expect_for(&base, &tail, &leaves) {
                                Expect::File(loc) => {
                                    want.insert(loc_string(&loc));
                                }
                                _ => resolvable = false,
                            }
                        }
                    }
                    if !resolvable {
                        continue;
                    }
                    runs += 1;
                    let got = real_bundle_many(mode, ".", &leaves, &mods, "entry.luau");
                    report.case(Some(hash_of(&("bundle-many", format!("{:?}", mode), &mods))));
                    let ok = matches!(&got, Ok(set) if set == &want);
                    report.hist("bundle-many", if ok { "inlines exactly the documented files" } else { "differs" });
                    if !ok {
                        let mut input = mode_to_json(mode);
                        input["op"] = json!("bundle-many");
                        input["proj"] = json!(".");
                        input["files"] = json!(leaves);
                        input["modules"] = json!(mods.iter().map(|(p, ls)| json!([p, ls])).collect::<Vec<_>>());
                        report.violation(Violation {
                            kind: s("oracle"),
                            check: s("bundle-many-inlines-documented-files"),
                            what: format!("documented {:?}, bundled {:?}", want, got),
                            input,
                            failing_input_found: true,
                        });
                    }
                }
            }
        }
        report.count("bundle_many_runs", runs);
    }
    // ---- H. `.luaurc`: aliases read from `.luaurc` files by the real `process`
    //         (use_luau_configuration on), single-file and multi-file runs
    {
        let singles = rc_single_runs();
        for run in &singles {
            check_rc_run(report, &mut model, run, &[]);
        }
        let multis = rc_multi_runs();
        for run in &multis {
            let all: Vec<usize> = (0..run.sources.len()).collect();
            let orders = permutations(&all);
            check_rc_run(report, &mut model, run, &orders);
        }
        // bundling: the requires of every bundled module must use the `.luaurc` nearest to that module
        let f33_known = known_entry(&known, "C15-F33").is_some();
        let bundles = bundle_rc_cases();
        for case in &bundles {
            report.case(Some(hash_of(&("bundle-rc", format!("{:?}{:?}", case.mode, case.rcs), &case.proj, &case.lua_files))));
            match judge_bundle_rc(case, f33_known) {
                Ok(bucket) => report.hist("luaurc-bundle", bucket),
                Err(what) => {
                    report.hist("luaurc-bundle", "differs");
                    report.violation(Violation { kind: s("oracle"), check: s("luaurc-bundle-uses-nearest-luaurc"), what, input: case.to_json(), failing_input_found: true });
                }
            }
        }
        report.count("luaurc_bundle_runs", bundles.len() as u64);
        report.count("luaurc_single_runs", singles.len() as u64);
        report.count("luaurc_multi_runs", multis.len() as u64);
        report.exhaustive.insert(s("luaurc: nested/outer .luaurc layouts processed in every order of their requiring files"), true);
    }
    report.count("bundle_cases", pool.len() as u64);
    report.count("convert_cases", conv_cases.len() as u64);
    report.count("locator_labelled_cases", labelled as u64);
    report.count("model_requests", model.requests);
}

fn replay_known(report: &mut Report, known: &[Value]) {
    for e in known {
        if e["status"] != "known" {
            continue;
        }
        let id = e["id"].as_str().unwrap_or("?");
        let w = &e["witness"];
        match w["op"].as_str() {
            Some("norm") => {
                let p = w["path"].as_str().unwrap_or("");
                let keep = w["keep"].as_bool().unwrap_or(false);
                let out = real_norm(keep, p);
                let wrong = w["wrong_output"].as_str().unwrap_or("");
                match oracle_norm(keep, p) {
                    None => {}
                    Some(what) if out.to_str() == Some(wrong) => report.known_finding(id, &what),
                    Some(what) => report.violation(Violation { kind: s("finding-changed"), check: format!("known-finding/{}", id), what, input: w.clone(), failing_input_found: true }),
                }
            }
            Some("find") => {
                if let Some(case) = Case::from_json(w) {
                    let (real, _) = real_find(&case);
                    let right = w["right_output"].as_str().unwrap_or("");
                    let wrong = w["wrong_output"].as_str().unwrap_or("");
                    if real == right {
                        // repaired
                    } else if real == wrong {
                        report.known_finding(id, &format!("{}: `{}` from `{}` gives `{}`, documented `{}`", e["site"].as_str().unwrap_or(""), case.req, case.source, real, right));
                    } else {
                        report.violation(Violation { kind: s("finding-changed"), check: format!("known-finding/{}", id), what: format!("expected `{}` (recorded defect) or `{}` (repaired), got `{}`", wrong, right, real), input: w.clone(), failing_input_found: true });
                    }
                }
            }
            Some("bundle-rc") => {
                if let Some(case) = BundleRcCase::from_json(w) {
                    let got = real_bundle_rc(&case.mode, &case.proj, &case.leaves, &case.rcs, &case.lua_files);
                    let set = |x: &Value| -> BTreeSet<String> { x.as_array().map(|a| a.iter().filter_map(|f| f.as_str().map(str::to_owned)).collect()).unwrap_or_default() };
                    let right = set(&w["right_output"]);
                    let wrong = set(&w["wrong_output"]);
                    match &got {
                        Ok(g) if *g == right => {}
                        Ok(g) if *g == wrong => report.known_finding(id, &format!("bundling {:?}: inlined {:?}, documented {:?} (the module's `.luaurc` is ignored)", case.lua_files, g, right)),
                        other => report.violation(Violation { kind: s("finding-changed"), check: format!("known-finding/{}", id), what: format!("expected {:?} (recorded defect) or {:?} (repaired), got {:?}", wrong, right, other), input: w.clone(), failing_input_found: true }),
                    }
                }
            }
            Some("bundle") => {
                if let Some(case) = Case::from_json(w) {
                    let got = real_bundle(&case);
                    let right = w["right_output"].as_str().unwrap_or("");
                    let wrong = w["wrong_output"].as_str().unwrap_or("");
                    if got == right {
                    } else if got == wrong {
                        report.known_finding(id, &format!("bundling `require(\"{}\")` from `{}`: `{}`, documented `{}`", case.req, case.source, got, right));
                    } else {
                        report.violation(Violation { kind: s("finding-changed"), check: format!("known-finding/{}", id), what: format!("expected `{}` (recorded defect) or `{}` (repaired), got `{}`", wrong, right, got), input: w.clone(), failing_input_found: true });
                    }
                }
            }
            Some("conv") => {
                if let (Some(case), Some(target)) = (Case::from_json(w), mode_from_json(&w["target"])) {
                    let arg = real_convert(&case, &target);
                    let (_, failure) = convert_oracle(&case, &target, &arg);
                    let wrong = w["wrong_output"].as_str().unwrap_or("");
                    match (failure, &arg) {
                        (None, _) => {}
                        (Some(what), Ok(a)) if a == wrong => report.known_finding(id, &what),
                        (Some(what), _) => report.violation(Violation { kind: s("finding-changed"), check: format!("known-finding/{}", id), what, input: w.clone(), failing_input_found: true }),
                    }
                }
            }
            _ => {}
        }
    }
}

fn check_corpus_entry(report: &mut Report, model: &mut Model, v: &Value, known: &[Value]) {
    let input = if v["input"].is_object() { &v["input"] } else { v };
    // witnesses of listed findings live in the corpus too; they are judged by `replay_known`
    if known.iter().any(|e| e["status"] == "known" && &e["witness"] == input) {
        return;
    }
    match input["op"].as_str() {
        Some("norm") => {
            let p = input["path"].as_str().unwrap_or("");
            let keep = input["keep"].as_bool().unwrap_or(false);
            let k = if keep { "1" } else { "0" };
            let real = wire(&real_norm(keep, p));
            let m = model.ask(&format!("c15.norm {} {}", k, hx(p)));
            report.case(Some(("corpus-norm", keep, p.to_owned())));
            if let Some(what) = oracle_norm(keep, p) {
                report.violation(Violation { kind: s("oracle"), check: s("corpus/normalize"), what, input: input.clone(), failing_input_found: true });
            } else if real != m {
                report.violation(Violation { kind: s("correspondence"), check: s("corpus/normalize"), what: format!("real `{}` model `{}`", real, m), input: input.clone(), failing_input_found: false });
            }
        }
        Some("conv") => {
            if let (Some(case), Some(target)) = (Case::from_json(input), mode_from_json(&input["target"])) {
                let arg = real_convert(&case, &target);
                let (before, failure) = convert_oracle(&case, &target, &arg);
                let m = model.ask(&format!("c15.conv {} {} {} {} {} {}", mode_wire(&case.mode), mode_wire(&target), hx(&case.proj), list_wire(&case.files), hx(&case.source), hx(&case.req)));
                report.case(Some(("corpus-conv", input.to_string())));
                let model_arg = m.strip_prefix("arg ").and_then(|r| r.split(' ').next()).and_then(crate::model::unhex).map(|b| String::from_utf8_lossy(&b).into_owned());
                let shadowed = failure.as_deref().map(|w| w.starts_with("[shadowed]")).unwrap_or(false);
                let excused = shadowed && known_entry(known, "F29").is_some();
                if let Some(what) = failure.filter(|_| !excused) {
                    report.violation(Violation { kind: s("oracle"), check: s("corpus/convert"), what, input: input.clone(), failing_input_found: true });
                } else if before.is_some() && arg.as_ref().ok() != model_arg.as_ref() {
                    report.violation(Violation { kind: s("correspondence"), check: s("corpus/convert"), what: format!("real `{:?}` model `{}`", arg, m), input: input.clone(), failing_input_found: false });
                }
            }
        }
        Some("bundle") => {
            // a stored end-to-end expectation: `marker <file>` | `error` | `error no-extension <file>`
            if let (Some(case), Some(expect)) = (Case::from_json(input), input["expect"].as_str()) {
                let got = real_bundle(&case);
                report.case(Some(("corpus-bundle", input.to_string())));
                let same = match (got.strip_prefix("error no-extension "), expect.strip_prefix("error no-extension ")) {
                    (Some(a), Some(b)) => walk(&cwd(), a) == walk(&cwd(), b),
                    _ => got == expect,
                };
                if !same {
                    report.violation(Violation { kind: s("oracle"), check: s("corpus/bundle"), what: format!("expected `{}`, bundled `{}`", expect, got), input: input.clone(), failing_input_found: true });
                }
            }
        }
        Some("bundle-rc") => {
            if let Some(case) = BundleRcCase::from_json(input) {
                report.case(Some(("corpus-bundle-rc", input.to_string())));
                if let Err(what) = judge_bundle_rc(&case, known_entry(known, "C15-F33").is_some()) {
                    report.violation(Violation { kind: s("oracle"), check: s("corpus/luaurc-bundle"), what, input: input.clone(), failing_input_found: true });
                }
            }
        }
        Some("rcrun") => {
            if let Some((run, order)) = RcRun::from_json(input) {
                check_rc_run(report, model, &run, &[order]);
            }
        }
        Some("hist") => {
            if let Some(h) = History::from_json(input) {
                let m = model.ask(&h.model_request());
                let (stale, _, corr) = check_history(&h, &m);
                report.case(Some(("corpus-hist", input.to_string())));
                for what in &stale {
                    report.violation(Violation { kind: s("oracle"), check: s("corpus/history-independence"), what: what.clone(), input: input.clone(), failing_input_found: true });
                }
                if stale.is_empty() {
                    for what in &corr {
                        report.violation(Violation { kind: s("correspondence"), check: s("corpus/history"), what: what.clone(), input: input.clone(), failing_input_found: false });
                    }
                }
            }
        }
        Some("find") => {
            if let Some(case) = Case::from_json(input) {
                let (real, _) = real_find(&case);
                let m = model.ask(&case.model_request());
                report.case(Some(("corpus-find", input.to_string())));
                // a stored documented answer (witness of a repaired finding) must be met
                if let Some(right) = input["right_output"].as_str() {
                    if real != right {
                        report.violation(Violation { kind: s("oracle"), check: s("corpus/locator-documented-answer"), what: format!("documented `{}`, real `{}`", right, real), input: input.clone(), failing_input_found: true });
                    }
                }
                if real != m {
                    report.violation(Violation { kind: s("correspondence"), check: s("corpus/locator"), what: format!("real `{}` model `{}`", real, m), input: input.clone(), failing_input_found: false });
                }
            }
        }
        _ => {}
    }
}

fn run_replay(report: &mut Report, file: &str) {
    let text = match std::fs::read_to_string(file) {
        Ok(t) => t,
        Err(e) => {
            report.notes.push(format!("cannot read replay file: {}", e));
            return;
        }
    };
    let v: Value = match serde_json::from_str(&text) {
        Ok(v) => v,
        Err(e) => {
            report.notes.push(format!("replay file is not JSON: {}", e));
            return;
        }
    };
    let mut model = spawn_model();
    check_corpus_entry(report, &mut model, &v, &known_findings("C15"));
    let input = if v["input"].is_object() { &v["input"] } else { &v };
    if input["op"] == "find" {
        if let Some(case) = Case::from_json(input) {
            let (real, _) = real_find(&case);
            report.notes.push(format!("real: {} | model: {}", real, model.ask(&case.model_request())));
        }
    } else if input["op"] == "cands" {
        let p = input["path"].as_str().unwrap_or("");
        let folder = input["folder"].as_str().unwrap_or("");
        let real: Vec<String> = vh::find_require_paths(Path::new(p), folder).iter().map(|c| wire(c)).collect();
        let m = model.ask(&format!("c15.cands {} {}", hx(p), hx(folder)));
        report.case(Some(("replay-cands", p.to_owned())));
        if real.join(";") != m {
            report.violation(Violation { kind: s("correspondence"), check: s("replay/candidates"), what: format!("real `{}` model `{}`", real.join(";"), m), input: input.clone(), failing_input_found: false });
        }
    }
}
