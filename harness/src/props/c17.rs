//! Property C17: removal and injection rules change exactly what they name.
//!
//! For remove_assertions, remove_debug_profiling and inject_global_value, per program:
//!  (1) correspondence: real `Rule::process` vs the Lean rule model (`c17.rule`) — trees identical;
//!  (2) oracle, a refinement BETWEEN ENVIRONMENTS: outcome(real output, normal environment) must equal
//!      outcome(prelude ++ input, normal environment) whenever the latter is error-free, where the
//!      prelude installs the modified environment (`assert = function(...) return ... end`,
//!      `debug = { profilebegin = function() end, profileend = function() end }`, `NAME = <value>`);
//!      both sides run on the Lean reference semantics (`sem.run`);
//!  (3) programs inside a listed defect region (decided by the Lean driver, `c17.hyp`, the same
//!      predicates as the hypotheses of the `_partial` theorems) are exempt from (2); the witnesses
//!      of `known_findings.json` are replayed and reported as KNOWN-FINDING while they still fail.
use crate::astsexp;
use crate::exec;
use crate::model::{hex, Model};
use crate::progen::{self, Features};
use crate::progen_c17::{self, Target};
use crate::report::{self, Report, Violation};
use crate::rng::Rng;
use crate::rulecheck::{shrink_lines, CaseResult, LEVEL};
use darklua_core::nodes::Block;

// property C14's document generator and serde-data recorder (shared source files, compiled here too)
#[path = "c14_data.rs"]
mod c14_data;
#[path = "c14_gen.rs"]
mod c14_gen;

use darklua_core::rules::Rule;
use serde_json::{json, Value};

#[derive(Clone, Debug)]
pub struct Cfg {
    pub rule_name: &'static str,
    /// JSON5 text of the rule configuration
    pub rule_json: String,
    /// properties for the Lean model: `(preserve b)` / `(inject name expr)`
    pub props: String,
    /// Lua text installing the modified environment in front of the INPUT
    pub prelude_in: String,
    /// Lua text in front of the OUTPUT (only `_G = {}` for injection: the semantics has no `_G`)
    pub prelude_out: String,
    /// whether the behavioural claim applies (not with `preserve_arguments_side_effects: false`)
    pub oracle: bool,
    pub target: Target,
    pub label: String,
    /// environment variable the configuration reads (`env_json`): (name, text)
    pub env: Option<(String, String)>,
}

/// the replayable input of a finding: rule configuration, program and the environment variable it reads
fn input_of(cfg: &Cfg, code: &str) -> serde_json::Map<String, Value> {
    let mut m = serde_json::Map::new();
    m.insert("rule".into(), json!(cfg.rule_json));
    m.insert("code".into(), json!(code));
    if let Some((name, text)) = &cfg.env {
        m.insert("env".into(), json!({"name": name, "value": text}));
    }
    m
}

const ASSERT_PRELUDE: &str = "assert = function(...) return ... end\n";
const PROFILING_PRELUDE: &str = "debug = { profilebegin = function() end, profileend = function() end }\n";

fn lua_string(bytes: &[u8]) -> String {
    let mut s = String::from("\"");
    for b in bytes {
        if b.is_ascii_alphanumeric() || *b == b' ' || *b == b'_' {
            s.push(*b as char);
        } else {
            s.push_str(&format!("\\{:03}", b));
        }
    }
    s.push('"');
    s
}

/// Lua literal for a JSON value, written independently of darklua's conversion
pub fn lua_of_json(v: &Value) -> String {
    match v {
        Value::Null => "nil".to_owned(),
        Value::Bool(b) => b.to_string(),
        Value::Number(n) => {
            let f = n.as_f64().unwrap_or(0.0);
            if f < 0.0 { format!("(-{:?})", -f) } else { format!("{:?}", f) }
        }
        Value::String(s) => lua_string(s.as_bytes()),
        Value::Array(items) => format!("{{ {} }}", items.iter().map(lua_of_json).collect::<Vec<_>>().join(", ")),
        Value::Object(map) => format!(
            "{{ {} }}",
            map.iter().map(|(k, v)| format!("[{}] = {}", lua_string(k.as_bytes()), lua_of_json(v))).collect::<Vec<_>>().join(", ")
        ),
    }
}

pub fn remove_cfg(rule_name: &'static str, preserve: bool) -> Cfg {
    let rule_json = if preserve {
        format!("'{}'", rule_name)
    } else {
        format!("{{ rule: '{}', preserve_arguments_side_effects: false }}", rule_name)
    };
    let (prelude_in, target) = if rule_name == "remove_assertions" {
        (ASSERT_PRELUDE.to_owned(), Target::Assert)
    } else {
        (PROFILING_PRELUDE.to_owned(), Target::Profiling)
    };
    Cfg {
        rule_name,
        rule_json,
        props: format!("(preserve {})", preserve),
        prelude_in,
        prelude_out: String::new(),
        oracle: preserve,
        target,
        label: format!("{}{}", rule_name, if preserve { "" } else { ":no-preserve" }),
        env: None,
    }
}

// ---------------------------------------------------------------- the value expression, from the JSON text

/// minimal S-expression reader for the answers of `c14.ser`
#[derive(Debug)]
enum Sx {
    A(String),
    L(Vec<Sx>),
}

fn sx_parse(text: &str) -> Option<Sx> {
    fn go(chars: &[char], i: &mut usize) -> Option<Sx> {
        while *i < chars.len() && chars[*i] == ' ' {
            *i += 1;
        }
        if *i >= chars.len() {
            return None;
        }
        if chars[*i] == '(' {
            *i += 1;
            let mut items = Vec::new();
            loop {
                while *i < chars.len() && chars[*i] == ' ' {
                    *i += 1;
                }
                if *i >= chars.len() {
                    return None;
                }
                if chars[*i] == ')' {
                    *i += 1;
                    return Some(Sx::L(items));
                }
                items.push(go(chars, i)?);
            }
        }
        let start = *i;
        while *i < chars.len() && chars[*i] != ' ' && chars[*i] != '(' && chars[*i] != ')' {
            *i += 1;
        }
        Some(Sx::A(chars[start..*i].iter().collect()))
    }
    let chars: Vec<char> = text.chars().collect();
    let mut i = 0;
    let r = go(&chars, &mut i)?;
    if chars[i..].iter().all(|c| *c == ' ') { Some(r) } else { None }
}

/// C14's expression wire format (lean/DarkluaModel/C14/Driver.lean) → the shared AST wire format
fn c14_expr_to_shared(e: &Sx) -> Option<String> {
    Some(match e {
        Sx::A(a) => match a.as_str() {
            "nil" | "true" | "false" => a.clone(),
            _ => return None,
        },
        Sx::L(items) => {
            let head = match items.first()? { Sx::A(h) => h.as_str(), _ => return None };
            let atom = |i: usize| -> Option<String> { match items.get(i)? { Sx::A(a) => Some(a.clone()), _ => None } };
            match head {
                "num" | "str" | "var" => format!("({} {})", head, atom(1)?),
                "hex" => {
                    let n: u64 = atom(1)?.parse().ok()?;
                    format!("(num {})", crate::model::f64_wire(n as f64))
                }
                "neg" => format!("(un neg {})", c14_expr_to_shared(items.get(1)?)?),
                "div" => format!("(bin div {} {})", c14_expr_to_shared(items.get(1)?)?, c14_expr_to_shared(items.get(2)?)?),
                "paren" => format!("(paren {})", c14_expr_to_shared(items.get(1)?)?),
                "field" => format!("(field {} {})", c14_expr_to_shared(items.get(1)?)?, atom(2)?),
                "call" => {
                    let f = c14_expr_to_shared(items.get(1)?)?;
                    let args = match items.get(2)? {
                        Sx::L(a) if matches!(a.first(), Some(Sx::A(h)) if h == "args") => a[1..].iter().map(c14_expr_to_shared).collect::<Option<Vec<_>>>()?,
                        _ => return None,
                    };
                    format!("(call {} - t{})", f, args.iter().map(|a| format!(" {}", a)).collect::<String>())
                }
                "table" => {
                    let mut out = String::from("(table");
                    for entry in &items[1..] {
                        let parts = match entry { Sx::L(p) => p, _ => return None };
                        let kind = match parts.first()? { Sx::A(k) => k.as_str(), _ => return None };
                        match kind {
                            "pos" => out.push_str(&format!(" (pos {})", c14_expr_to_shared(parts.get(1)?)?)),
                            "named" => {
                                let name = match parts.get(1)? { Sx::A(n) => n.clone(), _ => return None };
                                out.push_str(&format!(" (named {} {})", name, c14_expr_to_shared(parts.get(2)?)?))
                            }
                            "keyed" => out.push_str(&format!(" (keyed {} {})", c14_expr_to_shared(parts.get(1)?)?, c14_expr_to_shared(parts.get(2)?)?)),
                            _ => return None,
                        }
                    }
                    out.push(')');
                    out
                }
                _ => return None,
            }
        }
    })
}

fn number_expr(f: f64) -> String {
    if f < 0.0 {
        format!("(un neg (num {}))", crate::model::f64_wire(-f))
    } else {
        format!("(num {})", crate::model::f64_wire(f))
    }
}

/// The value expression the rule must inject for this JSON value, computed WITHOUT the real rule:
/// * `value:` scalars and lists of strings follow `RulePropertyValue::into_expression` (Boolean, String,
///   Usize, Float, StringList, None — written down here from the JSON value);
/// * `value:` arrays / objects and every `env_json` value go through `to_expression` on the serde data of
///   the parsed JSON: the Lean model of property C14 (`c14.ser`, `toExpr`) on the recorded data.
/// `Err("refused")`: the model's serializer refuses the data (darklua must reject the configuration).
pub fn model_value_expr(model: &mut Model, value: &Value, env_json: bool) -> Result<String, String> {
    if !env_json {
        match value {
            Value::Null => return Ok("nil".into()),
            Value::Bool(b) => return Ok(b.to_string()),
            Value::String(s) => return Ok(format!("(str {})", hex(s.as_bytes()))),
            Value::Number(n) => return Ok(number_expr(n.as_f64().ok_or("number")?)),
            Value::Array(items) if items.iter().all(|i| i.is_string()) => {
                let entries: String = items.iter().map(|i| format!(" (pos (str {}))", hex(i.as_str().unwrap().as_bytes()))).collect();
                return Ok(format!("(table{})", entries));
            }
            _ => {}
        }
    }
    let data = c14_data::record(value)?;
    let answer = model.ask(&format!("c14.ser {}", data.to_sexp()));
    if answer == "refused" {
        return Err("refused".into());
    }
    let parsed = sx_parse(&answer).ok_or_else(|| format!("c14.ser protocol error: {}", answer))?;
    c14_expr_to_shared(&parsed).ok_or_else(|| format!("cannot translate the C14 expression {}", answer))
}

/// how the configuration hands the value to the rule
#[derive(Clone, Debug)]
pub enum ValueSource {
    /// `value: <json>`
    Value,
    /// `env_json: '<NAME>'` with the environment variable set to the JSON text
    EnvJson(String),
}

/// `Ok(None)` when darklua rejects the configuration; `Err` when darklua accepts a value the model's
/// serializer refuses (a correspondence break of the JSON → expression step)
pub fn inject_cfg(model: &mut Model, name: &str, value: &Value, source: &ValueSource) -> Result<Option<Cfg>, String> {
    let (rule_json, env) = match source {
        ValueSource::Value => (format!("{{ rule: 'inject_global_value', identifier: '{}', value: {} }}", name, value), None),
        ValueSource::EnvJson(var) => {
            let text = value.to_string();
            std::env::set_var(var, &text);
            (format!("{{ rule: 'inject_global_value', identifier: '{}', env_json: '{}' }}", name, var), Some((var.clone(), text)))
        }
    };
    let is_env = env.is_some();
    let real = exec::rule_from_json(&rule_json);
    let expr = match (model_value_expr(model, value, is_env), real) {
        (Ok(e), Ok(_)) => e,
        (Err(why), Ok(_)) => return Err(format!("darklua accepts {} but the model has no value expression: {}", rule_json, why)),
        (_, Err(_)) => return Ok(None),
    };
    let lua = lua_of_json(value);
    Ok(Some(Cfg {
        rule_name: "inject_global_value",
        rule_json,
        props: format!("(inject {} {})", hex(name.as_bytes()), expr),
        prelude_in: format!("{} = {}\n_G = {{ {} = {} }}\n", name, lua, name, lua),
        prelude_out: "_G = {}\n".to_owned(),
        oracle: true,
        target: Target::Inject { name: name.to_owned(), prefix_ok: value.is_string() || value.is_array() || value.is_object(), is_string: value.is_string() },
        label: format!("inject_global_value:{}{}", json_kind(value), if is_env { ":env_json" } else { "" }),
        env,
    }))
}

/// F34: values the untagged `RulePropertyValue` decodes as a `RequireMode`
fn require_mode_region(v: &Value) -> bool {
    match v {
        Value::Array(items) => items.len() == 1 && matches!(items[0].as_u64(), Some(0) | Some(1)),
        Value::Object(map) => map.contains_key("name"),
        _ => false,
    }
}

fn value_in_require_mode_region(rule_json: &str) -> bool {
    json5::from_str::<Value>(rule_json).ok().and_then(|v| v.get("value").cloned()).map(|v| require_mode_region(&v)).unwrap_or(false)
}

fn json_kind(v: &Value) -> &'static str {
    match v {
        Value::Null => "null",
        Value::Bool(_) => "bool",
        Value::Number(n) => {
            let f = n.as_f64().unwrap_or(0.0);
            if f < 0.0 { "number-negative" } else if f.fract() != 0.0 { "number-fraction" } else { "number-integer" }
        }
        Value::String(_) => "string",
        Value::Array(_) => "array",
        Value::Object(_) => "object",
    }
}

pub fn inject_values() -> Vec<Value> {
    vec![
        json!(true), json!(false), json!(null), json!(0), json!(1), json!(42), json!(-3), json!(0.5), json!(-1.25),
        json!(1000), json!(0.001), json!(123456), json!(1e21), json!(""), json!("hello"), json!("a\"b\\c\nd"), json!("é"),
        json!([1, 2, 3]), json!(["a", "b"]), json!(["a", true, 1, 0.5, -1.35]), json!([1, null, 3]), json!([]),
        json!({"a": 1, "b": "x"}), json!({"k": [1, {"z": false}], "x": 2}), json!({}),
    ]
}

fn with_prelude(prelude: &str, block: &Block) -> Block {
    if prelude.is_empty() {
        return block.clone();
    }
    let mut pre = exec::parse(prelude).expect("prelude parses");
    let mut out = block.clone();
    for (i, st) in pre.take_statements().into_iter().enumerate() {
        out.insert_statement(i, st);
    }
    out
}

pub struct Judged {
    pub fired: bool,
    /// (outcome of prelude ++ input, outcome of output); None when the input is not error-free
    pub outcomes: Option<(String, String)>,
    pub sexp0: String,
    pub sexp1: String,
}

/// Run the real rule and both sides of the oracle. Err = unusable input / rule error; Ok(None) = panic.
fn judge(model: &mut Model, cfg: &Cfg, rules: &[Box<dyn Rule>], code: &str, want_oracle: bool) -> Result<Option<Judged>, &'static str> {
    let block0 = exec::parse(code).map_err(|_| "parse")?;
    let mut block1 = block0.clone();
    let applied = std::panic::catch_unwind(std::panic::AssertUnwindSafe(|| exec::apply_rules(&mut block1, rules, code)));
    match applied {
        Ok(Ok(())) => {}
        Ok(Err(_)) => return Err("rule-error"),
        Err(_) => return Ok(None),
    }
    let sexp0 = astsexp::block_to_sexp(&block0);
    let sexp1 = astsexp::block_to_sexp(&block1);
    let mut outcomes = None;
    if want_oracle {
        let input_side = with_prelude(&cfg.prelude_in, &block0);
        let o0 = exec::run_block(model, LEVEL, &input_side);
        if exec::outcome_ok(&o0) {
            let output_side = with_prelude(&cfg.prelude_out, &block1);
            let o1 = exec::run_block(model, LEVEL, &output_side);
            outcomes = Some((o0, o1));
        }
    }
    Ok(Some(Judged { fired: sexp0 != sexp1, outcomes, sexp0, sexp1 }))
}

fn hyp_flags(model: &mut Model, cfg: &Cfg, sexp0: &str) -> String {
    model.ask(&format!("c17.hyp {} {} {}", hex(cfg.rule_name.as_bytes()), cfg.props, sexp0))
}

fn model_rule(model: &mut Model, cfg: &Cfg, sexp0: &str) -> String {
    model.ask(&format!("c17.rule {} {} {}", hex(cfg.rule_name.as_bytes()), cfg.props, sexp0))
}

/// does the real rule break the between-environments refinement on this program, inside H?
fn oracle_fails_in_h(model: &mut Model, cfg: &Cfg, rules: &[Box<dyn Rule>], code: &str, require_h: bool) -> Option<(String, String, String)> {
    let j = judge(model, cfg, rules, code, true).ok()??;
    let (o0, o1) = j.outcomes?;
    if o0 == o1 {
        return None;
    }
    if require_h && hyp_flags(model, cfg, &j.sexp0) != "()" {
        return None;
    }
    Some((o0, o1, j.sexp1))
}

/// One program through one configured rule: correspondence + oracle.
pub fn check_program(model: &mut Model, report: &mut Report, cfg: &Cfg, code: &str) -> CaseResult {
    let rule = match exec::rule_from_json(&cfg.rule_json) {
        Ok(r) => r,
        Err(e) => panic!("bad rule configuration {}: {}", cfg.rule_json, e),
    };
    let rules = vec![rule];
    let j = match judge(model, cfg, &rules, code, cfg.oracle) {
        Err(why) => return CaseResult::Skipped(why),
        Ok(None) => {
            report.violation(Violation {
                kind: "oracle".into(),
                check: format!("{}:panic", cfg.rule_name),
                what: format!("rule {} panicked", cfg.rule_name),
                input: Value::Object(input_of(cfg, code)),
                failing_input_found: true,
            });
            return CaseResult::Skipped("panic");
        }
        Ok(Some(j)) => j,
    };
    let flags = hyp_flags(model, cfg, &j.sexp0);
    if !flags.starts_with('(') {
        panic!("c17.hyp protocol error: {}", flags);
    }
    let in_h = flags == "()";
    if !in_h {
        for f in flags.trim_matches(|c| c == '(' || c == ')').split(' ') {
            report.hist("defect_region_touched", f);
        }
    }

    // ---- which programs does the whole-rule theorem `inject_refines_whole` speak about?
    if cfg.rule_name == "inject_global_value" {
        let w = model.ask(&format!("c17.whole {} {} {}", hex(cfg.rule_name.as_bytes()), cfg.props, j.sexp0));
        let bucket = match w.as_str() {
            "(true true true)" => "inside",
            x if x.starts_with("(false") => "outside: value is not a literal (table)",
            x if x.starts_with("(true false") => "outside: program declares or assigns the name",
            x if x.starts_with("(true true false") => "outside: an unshadowed _G.NAME / _G['NAME'] is rewritten",
            _ => panic!("c17.whole protocol error: {}", w),
        };
        report.hist("inject_refines_whole_region", bucket);
    }

    if cfg.rule_name == "remove_assertions" && cfg.oracle {
        let w = model.ask(&format!("c17.wholeassert {}", j.sexp0));
        let bucket = match w.as_str() {
            "(true true true)" => "inside both (stage 3 and HeapU)",
            "(true false true)" => "inside HeapU only (dropped arguments allocate)",
            "(true true false)" => "inside stage 3 only",
            x if x.starts_with("(false") => "outside: program declares or assigns assert",
            "(true false false)" => "outside: a round without a link (zero or >= 2 arguments in expression position, mixed kept calls / non-calls, kept non-call mentioning _, dropped argument that computes, select alias)",
            _ => panic!("c17.wholeassert protocol error: {}", w),
        };
        report.hist("assert_refines_whole_region", bucket);
    }

    // ---- oracle (between environments)
    let mut oracle_failed = false;
    if cfg.oracle {
        match &j.outcomes {
            Some((o0, o1)) => {
                report.count("oracle_compared", 1);
                if !in_h {
                    report.count("oracle_compared_inside_defect_region", 1);
                    if o0 != o1 {
                        report.count("defect_region_program_fails_oracle", 1);
                    }
                } else if o0 != o1 {
                    oracle_failed = true;
                    let mut fails = |text: &str| oracle_fails_in_h(model, cfg, &rules, text, true).is_some();
                    let small = shrink_lines(code, &mut fails);
                    let detail = oracle_fails_in_h(model, cfg, &rules, &small, true);
                    report.violation(Violation {
                        kind: "oracle".into(),
                        check: format!("{}:refinement", cfg.label),
                        what: format!(
                            "output of {} in the normal environment behaves differently from the input in the modified environment (input error-free there, outside every listed defect region)",
                            cfg.rule_name
                        ),
                        input: {
                            let mut m = input_of(cfg, &small);
                            m.insert("prelude_in".into(), json!(cfg.prelude_in));
                            m.insert("prelude_out".into(), json!(cfg.prelude_out));
                            m.insert("input_outcome_modified_env".into(), json!(detail.as_ref().map(|d| d.0.clone())));
                            m.insert("output_outcome".into(), json!(detail.as_ref().map(|d| d.1.clone())));
                            m.insert("output_tree".into(), json!(detail.as_ref().map(|d| d.2.clone())));
                            Value::Object(m)
                        },
                        failing_input_found: true,
                    });
                }
            }
            None => {
                report.count("oracle_skipped_input_not_error_free", 1);
                if std::env::var("C17_DEBUG").is_ok() {
                    let b0 = exec::parse(code).unwrap();
                    let o = exec::run_block(model, LEVEL, &with_prelude(&cfg.prelude_in, &b0));
                    report.notes.push(format!("NOT-ERROR-FREE {} :: {}\n{}", cfg.label, o, code));
                }
            }
        }
    }

    // ---- correspondence with the Lean rule model
    let answer = model_rule(model, cfg, &j.sexp0);
    if answer == "unmodelled" {
        report.count("correspondence_skipped_has_side_effects_unmodelled", 1);
    } else {
        report.count("correspondence_compared", 1);
        if answer != j.sexp1 {
            let mut differs = |text: &str| -> bool {
                match judge(model, cfg, &rules, text, false) {
                    Ok(Some(jj)) => {
                        let a = model_rule(model, cfg, &jj.sexp0);
                        a != "unmodelled" && a != jj.sexp1
                    }
                    _ => false,
                }
            };
            let small = shrink_lines(code, &mut differs);
            // is there a behavioural failure on the (shrunk or original) input?
            let mut found = oracle_failed;
            if !found && cfg.oracle {
                found = oracle_fails_in_h(model, cfg, &rules, &small, true).is_some();
            }
            report.violation(Violation {
                kind: "correspondence".into(),
                check: format!("{}:model", cfg.label),
                what: format!("Lean model of {} and the real rule produce different trees; the theorems about the model no longer speak about this code", cfg.rule_name),
                input: {
                    let mut m = input_of(cfg, &small);
                    m.insert("model_answer_prefix".into(), json!(answer.chars().take(300).collect::<String>()));
                    Value::Object(m)
                },
                failing_input_found: found,
            });
        }
    }
    if j.fired { CaseResult::Fired } else { CaseResult::Trivial }
}

/// Replay the witnesses of known_findings.json: still failing → KNOWN-FINDING.
fn replay_known(model: &mut Model, report: &mut Report) {
    for entry in report::known_findings("C17") {
        let id = entry["id"].as_str().unwrap_or("?").to_owned();
        let w = &entry["witness"];
        let (rule_json, code) = match (w["rule"].as_str(), w["code"].as_str()) {
            (Some(r), Some(c)) => (r.to_owned(), c.to_owned()),
            _ => continue,
        };
        let cfg = match cfg_of_rule_json(model, &rule_json, w.get("env")) {
            Some(c) => c,
            None => continue,
        };
        let rules = vec![exec::rule_from_json(&cfg.rule_json).expect("known finding rule")];
        let fixed = entry["status"] == "fixed";
        if let Some((o0, o1, _)) = oracle_fails_in_h(model, &cfg, &rules, &code, false) {
            if fixed {
                // a fixed finding excuses nothing: its witness failing again is a violation
                report.violation(Violation {
                    kind: "oracle".into(),
                    check: format!("{}:fixed-finding-fails-again", id),
                    what: format!("the witness of the FIXED finding {} fails again: input in the modified environment {} vs output {}", id, o0, o1),
                    input: json!({"rule": rule_json, "code": code}),
                    failing_input_found: true,
                });
                continue;
            }
            let flags = match exec::parse(&code) {
                Ok(b) => hyp_flags(model, &cfg, &astsexp::block_to_sexp(&b)),
                Err(_) => "?".to_owned(),
            };
            let decided_by = entry["region_decided_by"].as_str().unwrap_or("c17.hyp");
            let outside = match decided_by {
                "configuration" => !value_in_require_mode_region(&rule_json),
                "semantic" => false,
                _ => flags == "()",
            };
            if outside {
                report.violation(Violation {
                    kind: "oracle".into(),
                    check: format!("{}:known-finding-outside-region", id),
                    what: format!("the witness of {} fails but is not inside any listed defect region", id),
                    input: json!({"rule": rule_json, "code": code}),
                    failing_input_found: true,
                });
            } else {
                report.known_finding(&id, &format!(
                    "{} — {} | input in the modified environment: {} | output: {} | regions {}",
                    entry["site"].as_str().unwrap_or(""), entry["expected_wrong"].as_str().unwrap_or(""), o0, o1, flags));
            }
        }
    }
}

/// rebuild a `Cfg` from the JSON5 rule text of a replay / known finding (`env`: the environment variable
/// an `env_json` configuration reads, `{"name": …, "value": …}`)
pub fn cfg_of_rule_json(model: &mut Model, rule_json: &str, env: Option<&Value>) -> Option<Cfg> {
    let v: Value = json5::from_str(rule_json).ok()?;
    let (name, obj) = match &v {
        Value::String(s) => (s.clone(), None),
        Value::Object(o) => (o.get("rule")?.as_str()?.to_owned(), Some(o)),
        _ => return None,
    };
    let preserve = obj.and_then(|o| o.get("preserve_arguments_side_effects")).and_then(|b| b.as_bool()).unwrap_or(true);
    match name.as_str() {
        "remove_assertions" => Some(remove_cfg("remove_assertions", preserve)),
        "remove_debug_profiling" => Some(remove_cfg("remove_debug_profiling", preserve)),
        "inject_global_value" => {
            let o = obj?;
            let ident = o.get("identifier")?.as_str()?;
            if let Some(var) = o.get("env_json").and_then(|x| x.as_str()) {
                let text = env?.get("value")?.as_str()?;
                let value: Value = json5::from_str(text).ok()?;
                inject_cfg(model, ident, &value, &ValueSource::EnvJson(var.to_owned())).ok()?
            } else {
                inject_cfg(model, ident, o.get("value").unwrap_or(&Value::Null), &ValueSource::Value).ok()?
            }
        }
        _ => None,
    }
}

fn run_replay(report: &mut Report, path: &str) {
    let text = std::fs::read_to_string(path).expect("replay file");
    let v: Value = serde_json::from_str(&text).expect("replay json");
    let input = if v.get("input").is_some() { v["input"].clone() } else { v["witness"].clone() };
    let (rule_json, code) = (input["rule"].as_str().unwrap_or("").to_owned(), input["code"].as_str().unwrap_or("").to_owned());
    let mut model = Model::spawn();
    match cfg_of_rule_json(&mut model, &rule_json, input.get("env")) {
        Some(cfg) => {
            let r = check_program(&mut model, report, &cfg, &code);
            report.notes.push(format!("replay {}: {:?}", path, r));
            report.case(Some((&cfg.label, &code)));
        }
        None => report.notes.push(format!("replay {}: cannot rebuild the rule configuration", path)),
    }
}

/// fixed values of every JSON kind, boundary integers (also nested), and documents drawn from property
/// C14's data generator (JSON flavour: nested arrays / objects, awkward strings and keys, integers up to
/// the i64 / u64 limits, decimals); each through `value:` and — any kind — through `env_json`
fn inject_value_pool(rng: &mut Rng, generated: usize) -> Vec<Value> {
    let mut vs = inject_values();
    vs.extend(vec![
        json!([-1, 2, -300]), json!({"offset": -16}), json!([i64::MIN]), json!([-1]), json!([u64::MAX]), json!(u64::MAX),
        json!([9007199254740991u64, 9007199254740993u64, -9007199254740993i64]), json!([[-5], {"a": [-7, {"b": -9}]}]),
        json!({"neg": -1, "list": [-2.5, -3, 0, 1e300, 1e-300]}), json!(-9007199254740993i64), json!([0.1, -0.1, 255, 256, 65536]),
        json!(["only", "strings"]), json!([["nested", "strings"]]), json!({"if": 1, "not an identifier": [true], "": null}),
    ]);
    let caps = c14_gen::caps(c14_gen::Fmt::Json);
    let mut tries = 0;
    let mut made = 0;
    while made < generated && tries < generated * 6 {
        tries += 1;
        let depth = 1 + rng.below(3);
        let g = c14_gen::gen_doc(rng, c14_gen::Fmt::Json, depth, &caps);
        let text = c14_gen::render(&g, c14_gen::Fmt::Json, rng);
        if text.len() > 600 {
            continue;
        }
        if let Ok(v) = json5::from_str::<Value>(&text) {
            vs.push(v);
            made += 1;
        }
    }
    vs
}

fn all_cfgs(model: &mut Model, report: &mut Report) -> Vec<Cfg> {
    let mut cfgs = vec![
        remove_cfg("remove_assertions", true),
        remove_cfg("remove_assertions", false),
        remove_cfg("remove_debug_profiling", true),
        remove_cfg("remove_debug_profiling", false),
    ];
    let names = ["DEBUG", "__DEV__", "VERSION"];
    let mut rng = Rng::new(report.seed.wrapping_mul(7919).wrapping_add(171717));
    let generated = if report.is_thorough() { 400 } else { 80 };
    for (i, v) in inject_value_pool(&mut rng, generated).iter().enumerate() {
        // every value through `env_json`; through `value:` unless it is in the F34 region
        let mut sources = vec![ValueSource::EnvJson(format!("C17_ENV_JSON_{}", i))];
        if require_mode_region(v) {
            report.hist("inject_value_source", "env_json only (value: would be decoded as a require mode, F34)");
        } else {
            sources.push(ValueSource::Value);
        }
        // the pool is large: alternate instead of doubling, except for the fixed boundary values
        let both = i < 45;
        let chosen: Vec<ValueSource> = if both || sources.len() == 1 { sources } else { vec![sources[i % 2].clone()] };
        for source in chosen {
            match inject_cfg(model, names[i % names.len()], v, &source) {
                Ok(Some(c)) => {
                    report.hist("inject_value_source", if c.env.is_some() { "env_json" } else { "value" });
                    // the JSON → expression step alone, on the smallest program that reads the global
                    let probe = format!("return {}", names[i % names.len()]);
                    let r = check_program(model, report, &c, &probe);
                    report.hist("inject_value_probe", &format!("{:?}", r));
                    report.case(Some((&c.label, &c.rule_json)));
                    cfgs.push(c);
                }
                Ok(None) => report.hist("inject_value_rejected_by_darklua", json_kind(v)),
                Err(what) => report.violation(Violation {
                    kind: "correspondence".into(),
                    check: "inject_global_value:value-conversion".into(),
                    what,
                    input: json!({"value": v}),
                    failing_input_found: false,
                }),
            }
        }
    }
    cfgs
}

pub fn run(report: &mut Report, replay: Option<&str>) {
    if let Some(path) = replay {
        run_replay(report, path);
        return;
    }
    report.rule = "targeted generator (progen_c17): calls of assert / debug.profilebegin / debug.profileend and reads of the injected \
        global (also _G.NAME, _G['NAME']) in statement, single-value, multi-value, operand, table-constructor and return position, 0..4 \
        arguments pure or effectful per darklua's evaluator — fixed lists plus arguments composed from the grammar has_side_effects \
        distinguishes (and / or / not / comparison / parentheses / table constructors over constants, variables of unknown truthiness \
        that are falsy, truthy or undefined at run time, and effectful leaves) —, multi-value last arguments, nested targeted calls, falsy first arguments, \
        under shadowing of assert/debug/select/_G/NAME at every scope kind (do, while, repeat+condition, numeric for, generic for, if, \
        function and method parameter, local function, local after use, escaping closure), as field/method of another table; x \
        preserve_arguments_side_effects on/off x injected values: every JSON kind, boundary integers (i64::MIN, u64::MAX, 2^53±1, nested \
        negatives) and documents from property C14's generator, through `value:` and `env_json`; the value expression handed to the \
        Lean model is computed from the JSON (scalars per RulePropertyValue, arrays/objects/env_json by C14's Lean toExpr), not read \
        off the real rule; plus the shared generator (Lua 5.1 and Luau). \
        Each program: real Rule::process vs Lean model (trees), and outcome(real output) vs outcome(prelude ++ input) on the reference \
        semantics when the latter is error-free and the program is outside the listed defect regions (c17.hyp). Non-trivial = the rule \
        changed the tree; distinct by (configuration, program text)."
        .to_owned();
    {
        let mut model = Model::spawn();
        let rules = model.ask("c17.rules");
        for r in ["remove_assertions", "remove_debug_profiling", "inject_global_value"] {
            if !rules.split(' ').any(|m| m == r) {
                panic!("Lean driver does not model {}", r);
            }
        }
        replay_known(&mut model, report);
        // corpus: minimised past disagreements and finding witnesses
        let dir = concat!(env!("CARGO_MANIFEST_DIR"), "/../corpus/C17");
        if let Ok(entries) = std::fs::read_dir(dir) {
            let mut paths: Vec<_> = entries.filter_map(|e| e.ok()).map(|e| e.path()).collect();
            paths.sort();
            for p in paths {
                if let Ok(text) = std::fs::read_to_string(&p) {
                    if let Ok(v) = serde_json::from_str::<Value>(&text) {
                        if let (Some(rule_json), Some(code)) = (v["rule"].as_str(), v["code"].as_str()) {
                            if let Some(cfg) = cfg_of_rule_json(&mut model, rule_json, v.get("env")) {
                                let r = check_program(&mut model, report, &cfg, code);
                                report.hist("corpus", &format!("{:?}", r));
                                report.case(Some((&cfg.label, code)));
                            }
                        }
                    }
                }
            }
        }
    }
    let cfgs = {
        let mut model = Model::spawn();
        all_cfgs(&mut model, report)
    };
    let per_thread: usize = if report.is_thorough() { 6000 } else { 600 };
    let threads = 14;
    let seed = report.seed;
    let cfgs_ref = &cfgs;
    report.parallel(threads, |tid, r| {
        let mut model = Model::spawn();
        let mut rng = Rng::new(seed.wrapping_mul(1000).wrapping_add(tid as u64).wrapping_add(17_000_000));
        for i in 0..per_thread {
            // rotate through the configurations so that every one is exercised by every thread
            let slot = (i * threads + tid) % 20;
            let cfg = match slot {
                0..=6 => &cfgs_ref[0],
                7 => &cfgs_ref[1],
                8..=12 => &cfgs_ref[2],
                13 => &cfgs_ref[3],
                _ => &cfgs_ref[4 + (i * 7 + tid) % (cfgs_ref.len() - 4)],
            };
            let (code, used, origin) = if i % 8 == 7 {
                let feat = if rng.chance(1, 2) { Features::lua51() } else { Features::luau() };
                let (code, _) = progen::generate(&mut rng.fork(), feat, 40);
                (code, Default::default(), "shared")
            } else {
                let defect_rate = if rng.chance(1, 4) { 8 } else { 0 };
                let (code, used) = progen_c17::generate(&mut rng.fork(), cfg.target.clone(), 14, defect_rate);
                (code, used, "targeted")
            };
            r.hist("generator", origin);
            r.hist("configuration", &cfg.label);
            let result = check_program(&mut model, r, cfg, &code);
            match &result {
                CaseResult::Fired => {
                    for u in &used {
                        r.hist("shapes", u);
                    }
                    r.hist("rule_fired", &cfg.label);
                    r.case(Some((&cfg.label, &code)));
                    if r.samples.len() < 2 {
                        r.sample(json!({"rule": cfg.rule_json, "code": code}));
                    }
                }
                CaseResult::Trivial => r.case(None::<u8>),
                CaseResult::Skipped(why) => {
                    r.hist("skipped", why);
                    r.case(None::<u8>);
                }
            }
        }
    });
}
