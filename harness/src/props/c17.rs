//! Property C17: removal and injection rules change exactly what they name.
//!
//! For remove_assertions, remove_debug_profiling and inject_global_value, per program:
//!  (1) correspondence: real `Rule::process` vs the Lean rule model (`c17.rule`) — trees identical;
//!  (2) oracle, a refinement BETWEEN ENVIRONMENTS: outcome(real output, normal environment) must equal
//!      outcome(prelude ++ input, normal environment) whenever the latter is error-free, where the
//!      prelude installs the modified environment (`assert = function(...) return ... end`,
//!      `debug = { profilebegin = function() end, profileend = function() end }`, `NAME = <value>`);
//!      both sides run on the Lean reference semantics (`sem.run`);
//!  (3) programs inside a listed defect region (decided by the Lean driver, `c17.hyp`, the same
//!      predicates as the hypotheses of the `_partial` theorems) are exempt from (2); the witnesses
//!      of `known_findings.json` are replayed and reported as KNOWN-FINDING while they still fail.
use crate::astsexp;
use crate::exec;
use crate::model::{hex, Model};
use crate::progen::{self, Features};
use crate::progen_c17::{self, Target};
use crate::report::{self, Report, Violation};
use crate::rng::Rng;
use crate::rulecheck::{shrink_lines, CaseResult, LEVEL};
use darklua_core::nodes::Block;
use darklua_core::rules::Rule;
use serde_json::{json, Value};

#[derive(Clone, Debug)]
pub struct Cfg {
    pub rule_name: &'static str,
    /// JSON5 text of the rule configuration
    pub rule_json: String,
    /// properties for the Lean model: `(preserve b)` / `(inject name expr)`
    pub props: String,
    /// Lua text installing the modified environment in front of the INPUT
    pub prelude_in: String,
    /// Lua text in front of the OUTPUT (only `_G = {}` for injection: the semantics has no `_G`)
    pub prelude_out: String,
    /// whether the behavioural claim applies (not with `preserve_arguments_side_effects: false`)
    pub oracle: bool,
    pub target: Target,
    pub label: String,
}

const ASSERT_PRELUDE: &str = "assert = function(...) return ... end\n";
const PROFILING_PRELUDE: &str = "debug = { profilebegin = function() end, profileend = function() end }\n";

fn lua_string(bytes: &[u8]) -> String {
    let mut s = String::from("\"");
    for b in bytes {
        if b.is_ascii_alphanumeric() || *b == b' ' || *b == b'_' {
            s.push(*b as char);
        } else {
            s.push_str(&format!("\\{:03}", b));
        }
    }
    s.push('"');
    s
}

/// Lua literal for a JSON value, written independently of darklua's conversion
pub fn lua_of_json(v: &Value) -> String {
    match v {
        Value::Null => "nil".to_owned(),
        Value::Bool(b) => b.to_string(),
        Value::Number(n) => {
            let f = n.as_f64().unwrap_or(0.0);
            if f < 0.0 { format!("(-{:?})", -f) } else { format!("{:?}", f) }
        }
        Value::String(s) => lua_string(s.as_bytes()),
        Value::Array(items) => format!("{{ {} }}", items.iter().map(lua_of_json).collect::<Vec<_>>().join(", ")),
        Value::Object(map) => format!(
            "{{ {} }}",
            map.iter().map(|(k, v)| format!("[{}] = {}", lua_string(k.as_bytes()), lua_of_json(v))).collect::<Vec<_>>().join(", ")
        ),
    }
}

pub fn remove_cfg(rule_name: &'static str, preserve: bool) -> Cfg {
    let rule_json = if preserve {
        format!("'{}'", rule_name)
    } else {
        format!("{{ rule: '{}', preserve_arguments_side_effects: false }}", rule_name)
    };
    let (prelude_in, target) = if rule_name == "remove_assertions" {
        (ASSERT_PRELUDE.to_owned(), Target::Assert)
    } else {
        (PROFILING_PRELUDE.to_owned(), Target::Profiling)
    };
    Cfg {
        rule_name,
        rule_json,
        props: format!("(preserve {})", preserve),
        prelude_in,
        prelude_out: String::new(),
        oracle: preserve,
        target,
        label: format!("{}{}", rule_name, if preserve { "" } else { ":no-preserve" }),
    }
}

/// `None` when darklua rejects the configuration
pub fn inject_cfg(name: &str, value: &Value) -> Option<Cfg> {
    let rule_json = format!("{{ rule: 'inject_global_value', identifier: '{}', value: {} }}", name, value);
    let rule = exec::rule_from_json(&rule_json).ok()?;
    // read the value expression off the real rule: apply it to `return NAME`
    let probe_code = format!("return {}", name);
    let mut probe = exec::parse(&probe_code).ok()?;
    exec::apply_rules(&mut probe, &[rule], &probe_code).ok()?;
    let sexp = astsexp::block_to_sexp(&probe);
    let expr = sexp.strip_prefix("(block () (return ")?.strip_suffix("))")?.to_owned();
    let lua = lua_of_json(value);
    Some(Cfg {
        rule_name: "inject_global_value",
        rule_json,
        props: format!("(inject {} {})", hex(name.as_bytes()), expr),
        prelude_in: format!("{} = {}\n_G = {{ {} = {} }}\n", name, lua, name, lua),
        prelude_out: "_G = {}\n".to_owned(),
        oracle: true,
        target: Target::Inject { name: name.to_owned(), prefix_ok: value.is_string() || value.is_array() || value.is_object(), is_string: value.is_string() },
        label: format!("inject_global_value:{}", json_kind(value)),
    })
}

/// F34: values the untagged `RulePropertyValue` decodes as a `RequireMode`
fn require_mode_region(v: &Value) -> bool {
    match v {
        Value::Array(items) => items.len() == 1 && matches!(items[0].as_u64(), Some(0) | Some(1)),
        Value::Object(map) => map.contains_key("name"),
        _ => false,
    }
}

fn value_in_require_mode_region(rule_json: &str) -> bool {
    json5::from_str::<Value>(rule_json).ok().and_then(|v| v.get("value").cloned()).map(|v| require_mode_region(&v)).unwrap_or(false)
}

fn json_kind(v: &Value) -> &'static str {
    match v {
        Value::Null => "null",
        Value::Bool(_) => "bool",
        Value::Number(n) => {
            let f = n.as_f64().unwrap_or(0.0);
            if f < 0.0 { "number-negative" } else if f.fract() != 0.0 { "number-fraction" } else { "number-integer" }
        }
        Value::String(_) => "string",
        Value::Array(_) => "array",
        Value::Object(_) => "object",
    }
}

pub fn inject_values() -> Vec<Value> {
    vec![
        json!(true), json!(false), json!(null), json!(0), json!(1), json!(42), json!(-3), json!(0.5), json!(-1.25),
        json!(1000), json!(0.001), json!(123456), json!(1e21), json!(""), json!("hello"), json!("a\"b\\c\nd"), json!("é"),
        json!([1, 2, 3]), json!(["a", "b"]), json!(["a", true, 1, 0.5, -1.35]), json!([1, null, 3]), json!([]),
        json!({"a": 1, "b": "x"}), json!({"k": [1, {"z": false}], "x": 2}), json!({}),
    ]
}

fn with_prelude(prelude: &str, block: &Block) -> Block {
    if prelude.is_empty() {
        return block.clone();
    }
    let mut pre = exec::parse(prelude).expect("prelude parses");
    let mut out = block.clone();
    for (i, st) in pre.take_statements().into_iter().enumerate() {
        out.insert_statement(i, st);
    }
    out
}

pub struct Judged {
    pub fired: bool,
    /// (outcome of prelude ++ input, outcome of output); None when the input is not error-free
    pub outcomes: Option<(String, String)>,
    pub sexp0: String,
    pub sexp1: String,
}

/// Run the real rule and both sides of the oracle. Err = unusable input / rule error; Ok(None) = panic.
fn judge(model: &mut Model, cfg: &Cfg, rules: &[Box<dyn Rule>], code: &str, want_oracle: bool) -> Result<Option<Judged>, &'static str> {
    let block0 = exec::parse(code).map_err(|_| "parse")?;
    let mut block1 = block0.clone();
    let applied = std::panic::catch_unwind(std::panic::AssertUnwindSafe(|| exec::apply_rules(&mut block1, rules, code)));
    match applied {
        Ok(Ok(())) => {}
        Ok(Err(_)) => return Err("rule-error"),
        Err(_) => return Ok(None),
    }
    let sexp0 = astsexp::block_to_sexp(&block0);
    let sexp1 = astsexp::block_to_sexp(&block1);
    let mut outcomes = None;
    if want_oracle {
        let input_side = with_prelude(&cfg.prelude_in, &block0);
        let o0 = exec::run_block(model, LEVEL, &input_side);
        if exec::outcome_ok(&o0) {
            let output_side = with_prelude(&cfg.prelude_out, &block1);
            let o1 = exec::run_block(model, LEVEL, &output_side);
            outcomes = Some((o0, o1));
        }
    }
    Ok(Some(Judged { fired: sexp0 != sexp1, outcomes, sexp0, sexp1 }))
}

fn hyp_flags(model: &mut Model, cfg: &Cfg, sexp0: &str) -> String {
    model.ask(&format!("c17.hyp {} {} {}", hex(cfg.rule_name.as_bytes()), cfg.props, sexp0))
}

fn model_rule(model: &mut Model, cfg: &Cfg, sexp0: &str) -> String {
    model.ask(&format!("c17.rule {} {} {}", hex(cfg.rule_name.as_bytes()), cfg.props, sexp0))
}

/// does the real rule break the between-environments refinement on this program, inside H?
fn oracle_fails_in_h(model: &mut Model, cfg: &Cfg, rules: &[Box<dyn Rule>], code: &str, require_h: bool) -> Option<(String, String, String)> {
    let j = judge(model, cfg, rules, code, true).ok()??;
    let (o0, o1) = j.outcomes?;
    if o0 == o1 {
        return None;
    }
    if require_h && hyp_flags(model, cfg, &j.sexp0) != "()" {
        return None;
    }
    Some((o0, o1, j.sexp1))
}

/// One program through one configured rule: correspondence + oracle.
pub fn check_program(model: &mut Model, report: &mut Report, cfg: &Cfg, code: &str) -> CaseResult {
    let rule = match exec::rule_from_json(&cfg.rule_json) {
        Ok(r) => r,
        Err(e) => panic!("bad rule configuration {}: {}", cfg.rule_json, e),
    };
    let rules = vec![rule];
    let j = match judge(model, cfg, &rules, code, cfg.oracle) {
        Err(why) => return CaseResult::Skipped(why),
        Ok(None) => {
            report.violation(Violation {
                kind: "oracle".into(),
                check: format!("{}:panic", cfg.rule_name),
                what: format!("rule {} panicked", cfg.rule_name),
                input: json!({"rule": cfg.rule_json, "code": code}),
                failing_input_found: true,
            });
            return CaseResult::Skipped("panic");
        }
        Ok(Some(j)) => j,
    };
    let flags = hyp_flags(model, cfg, &j.sexp0);
    if !flags.starts_with('(') {
        panic!("c17.hyp protocol error: {}", flags);
    }
    let in_h = flags == "()";
    if !in_h {
        for f in flags.trim_matches(|c| c == '(' || c == ')').split(' ') {
            report.hist("defect_region_touched", f);
        }
    }

    // ---- which programs does the whole-rule theorem `inject_refines_whole` speak about?
    if cfg.rule_name == "inject_global_value" {
        let w = model.ask(&format!("c17.whole {} {} {}", hex(cfg.rule_name.as_bytes()), cfg.props, j.sexp0));
        let bucket = match w.as_str() {
            "(true true true)" => "inside",
            x if x.starts_with("(false") => "outside: value is not a literal (table)",
            x if x.starts_with("(true false") => "outside: program declares or assigns the name",
            x if x.starts_with("(true true false") => "outside: an unshadowed _G.NAME / _G['NAME'] is rewritten",
            _ => panic!("c17.whole protocol error: {}", w),
        };
        report.hist("inject_refines_whole_region", bucket);
    }

    if cfg.rule_name == "remove_assertions" && cfg.oracle {
        let w = model.ask(&format!("c17.wholeassert {}", j.sexp0));
        let bucket = match w.as_str() {
            "(true true)" => "inside",
            "(false true)" | "(false false)" => "outside: program declares or assigns assert",
            "(true false)" => "outside: a round without a link (zero or >= 2 arguments in expression position, kept non-call or dropped non-atom argument, select alias)",
            _ => panic!("c17.wholeassert protocol error: {}", w),
        };
        report.hist("assert_refines_whole_region", bucket);
    }

    // ---- oracle (between environments)
    let mut oracle_failed = false;
    if cfg.oracle {
        match &j.outcomes {
            Some((o0, o1)) => {
                report.count("oracle_compared", 1);
                if !in_h {
                    report.count("oracle_compared_inside_defect_region", 1);
                    if o0 != o1 {
                        report.count("defect_region_program_fails_oracle", 1);
                    }
                } else if o0 != o1 {
                    oracle_failed = true;
                    let mut fails = |text: &str| oracle_fails_in_h(model, cfg, &rules, text, true).is_some();
                    let small = shrink_lines(code, &mut fails);
                    let detail = oracle_fails_in_h(model, cfg, &rules, &small, true);
                    report.violation(Violation {
                        kind: "oracle".into(),
                        check: format!("{}:refinement", cfg.label),
                        what: format!(
                            "output of {} in the normal environment behaves differently from the input in the modified environment (input error-free there, outside every listed defect region)",
                            cfg.rule_name
                        ),
                        input: json!({"rule": cfg.rule_json, "code": small, "prelude_in": cfg.prelude_in, "prelude_out": cfg.prelude_out,
                            "input_outcome_modified_env": detail.as_ref().map(|d| d.0.clone()),
                            "output_outcome": detail.as_ref().map(|d| d.1.clone()),
                            "output_tree": detail.as_ref().map(|d| d.2.clone())}),
                        failing_input_found: true,
                    });
                }
            }
            None => {
                report.count("oracle_skipped_input_not_error_free", 1);
                if std::env::var("C17_DEBUG").is_ok() {
                    let b0 = exec::parse(code).unwrap();
                    let o = exec::run_block(model, LEVEL, &with_prelude(&cfg.prelude_in, &b0));
                    report.notes.push(format!("NOT-ERROR-FREE {} :: {}\n{}", cfg.label, o, code));
                }
            }
        }
    }

    // ---- correspondence with the Lean rule model
    let answer = model_rule(model, cfg, &j.sexp0);
    if answer == "unmodelled" {
        report.count("correspondence_skipped_has_side_effects_unmodelled", 1);
    } else {
        report.count("correspondence_compared", 1);
        if answer != j.sexp1 {
            let mut differs = |text: &str| -> bool {
                match judge(model, cfg, &rules, text, false) {
                    Ok(Some(jj)) => {
                        let a = model_rule(model, cfg, &jj.sexp0);
                        a != "unmodelled" && a != jj.sexp1
                    }
                    _ => false,
                }
            };
            let small = shrink_lines(code, &mut differs);
            // is there a behavioural failure on the (shrunk or original) input?
            let mut found = oracle_failed;
            if !found && cfg.oracle {
                found = oracle_fails_in_h(model, cfg, &rules, &small, true).is_some();
            }
            report.violation(Violation {
                kind: "correspondence".into(),
                check: format!("{}:model", cfg.label),
                what: format!("Lean model of {} and the real rule produce different trees; the theorems about the model no longer speak about this code", cfg.rule_name),
                input: json!({"rule": cfg.rule_json, "code": small, "model_answer_prefix": answer.chars().take(300).collect::<String>()}),
                failing_input_found: found,
            });
        }
    }
    if j.fired { CaseResult::Fired } else { CaseResult::Trivial }
}

/// Replay the witnesses of known_findings.json: still failing → KNOWN-FINDING.
fn replay_known(model: &mut Model, report: &mut Report) {
    for entry in report::known_findings("C17") {
        let id = entry["id"].as_str().unwrap_or("?").to_owned();
        let w = &entry["witness"];
        let (rule_json, code) = match (w["rule"].as_str(), w["code"].as_str()) {
            (Some(r), Some(c)) => (r.to_owned(), c.to_owned()),
            _ => continue,
        };
        let cfg = match cfg_of_rule_json(&rule_json) {
            Some(c) => c,
            None => continue,
        };
        let rules = vec![exec::rule_from_json(&cfg.rule_json).expect("known finding rule")];
        let fixed = entry["status"] == "fixed";
        if let Some((o0, o1, _)) = oracle_fails_in_h(model, &cfg, &rules, &code, false) {
            if fixed {
                // a fixed finding excuses nothing: its witness failing again is a violation
                report.violation(Violation {
                    kind: "oracle".into(),
                    check: format!("{}:fixed-finding-fails-again", id),
                    what: format!("the witness of the FIXED finding {} fails again: input in the modified environment {} vs output {}", id, o0, o1),
                    input: json!({"rule": rule_json, "code": code}),
                    failing_input_found: true,
                });
                continue;
            }
            let flags = match exec::parse(&code) {
                Ok(b) => hyp_flags(model, &cfg, &astsexp::block_to_sexp(&b)),
                Err(_) => "?".to_owned(),
            };
            let decided_by = entry["region_decided_by"].as_str().unwrap_or("c17.hyp");
            let outside = match decided_by {
                "configuration" => !value_in_require_mode_region(&rule_json),
                "semantic" => false,
                _ => flags == "()",
            };
            if outside {
                report.violation(Violation {
                    kind: "oracle".into(),
                    check: format!("{}:known-finding-outside-region", id),
                    what: format!("the witness of {} fails but is not inside any listed defect region", id),
                    input: json!({"rule": rule_json, "code": code}),
                    failing_input_found: true,
                });
            } else {
                report.known_finding(&id, &format!(
                    "{} — {} | input in the modified environment: {} | output: {} | regions {}",
                    entry["site"].as_str().unwrap_or(""), entry["expected_wrong"].as_str().unwrap_or(""), o0, o1, flags));
            }
        }
    }
}

/// rebuild a `Cfg` from the JSON5 rule text of a replay / known finding
pub fn cfg_of_rule_json(rule_json: &str) -> Option<Cfg> {
    let v: Value = json5::from_str(rule_json).ok()?;
    let (name, obj) = match &v {
        Value::String(s) => (s.clone(), None),
        Value::Object(o) => (o.get("rule")?.as_str()?.to_owned(), Some(o)),
        _ => return None,
    };
    let preserve = obj.and_then(|o| o.get("preserve_arguments_side_effects")).and_then(|b| b.as_bool()).unwrap_or(true);
    match name.as_str() {
        "remove_assertions" => Some(remove_cfg("remove_assertions", preserve)),
        "remove_debug_profiling" => Some(remove_cfg("remove_debug_profiling", preserve)),
        "inject_global_value" => {
            let o = obj?;
            inject_cfg(o.get("identifier")?.as_str()?, o.get("value").unwrap_or(&Value::Null))
        }
        _ => None,
    }
}

fn run_replay(report: &mut Report, path: &str) {
    let text = std::fs::read_to_string(path).expect("replay file");
    let v: Value = serde_json::from_str(&text).expect("replay json");
    let input = if v.get("input").is_some() { v["input"].clone() } else { v["witness"].clone() };
    let (rule_json, code) = (input["rule"].as_str().unwrap_or("").to_owned(), input["code"].as_str().unwrap_or("").to_owned());
    let mut model = Model::spawn();
    match cfg_of_rule_json(&rule_json) {
        Some(cfg) => {
            let r = check_program(&mut model, report, &cfg, &code);
            report.notes.push(format!("replay {}: {:?}", path, r));
            report.case(Some((&cfg.label, &code)));
        }
        None => report.notes.push(format!("replay {}: cannot rebuild the rule configuration", path)),
    }
}

fn all_cfgs(report: &mut Report) -> Vec<Cfg> {
    let mut cfgs = vec![
        remove_cfg("remove_assertions", true),
        remove_cfg("remove_assertions", false),
        remove_cfg("remove_debug_profiling", true),
        remove_cfg("remove_debug_profiling", false),
    ];
    let names = ["DEBUG", "__DEV__", "VERSION"];
    for (i, v) in inject_values().iter().enumerate() {
        if require_mode_region(v) {
            continue;
        }
        match inject_cfg(names[i % names.len()], v) {
            Some(c) => cfgs.push(c),
            None => report.hist("inject_value_rejected_by_darklua", &v.to_string()),
        }
    }
    cfgs
}

pub fn run(report: &mut Report, replay: Option<&str>) {
    if let Some(path) = replay {
        run_replay(report, path);
        return;
    }
    report.rule = "targeted generator (progen_c17): calls of assert / debug.profilebegin / debug.profileend and reads of the injected \
        global (also _G.NAME, _G['NAME']) in statement, single-value, multi-value, operand, table-constructor and return position, 0..4 \
        arguments pure or effectful per darklua's evaluator, multi-value last arguments, nested targeted calls, falsy first arguments, \
        under shadowing of assert/debug/select/_G/NAME at every scope kind (do, while, repeat+condition, numeric for, generic for, if, \
        function and method parameter, local function, local after use, escaping closure), as field/method of another table; x \
        preserve_arguments_side_effects on/off x injected values of every JSON kind; plus the shared generator (Lua 5.1 and Luau). \
        Each program: real Rule::process vs Lean model (trees), and outcome(real output) vs outcome(prelude ++ input) on the reference \
        semantics when the latter is error-free and the program is outside the listed defect regions (c17.hyp). Non-trivial = the rule \
        changed the tree; distinct by (configuration, program text)."
        .to_owned();
    {
        let mut model = Model::spawn();
        let rules = model.ask("c17.rules");
        for r in ["remove_assertions", "remove_debug_profiling", "inject_global_value"] {
            if !rules.split(' ').any(|m| m == r) {
                panic!("Lean driver does not model {}", r);
            }
        }
        replay_known(&mut model, report);
        // corpus: minimised past disagreements and finding witnesses
        let dir = concat!(env!("CARGO_MANIFEST_DIR"), "/../corpus/C17");
        if let Ok(entries) = std::fs::read_dir(dir) {
            let mut paths: Vec<_> = entries.filter_map(|e| e.ok()).map(|e| e.path()).collect();
            paths.sort();
            for p in paths {
                if let Ok(text) = std::fs::read_to_string(&p) {
                    if let Ok(v) = serde_json::from_str::<Value>(&text) {
                        if let (Some(rule_json), Some(code)) = (v["rule"].as_str(), v["code"].as_str()) {
                            if let Some(cfg) = cfg_of_rule_json(rule_json) {
                                let r = check_program(&mut model, report, &cfg, code);
                                report.hist("corpus", &format!("{:?}", r));
                                report.case(Some((&cfg.label, code)));
                            }
                        }
                    }
                }
            }
        }
    }
    let cfgs = all_cfgs(report);
    let per_thread: usize = if report.is_thorough() { 6000 } else { 600 };
    let threads = 14;
    let seed = report.seed;
    let cfgs_ref = &cfgs;
    report.parallel(threads, |tid, r| {
        let mut model = Model::spawn();
        let mut rng = Rng::new(seed.wrapping_mul(1000).wrapping_add(tid as u64).wrapping_add(17_000_000));
        for i in 0..per_thread {
            // rotate through the configurations so that every one is exercised by every thread
            let slot = (i * threads + tid) % 20;
            let cfg = match slot {
                0..=6 => &cfgs_ref[0],
                7 => &cfgs_ref[1],
                8..=12 => &cfgs_ref[2],
                13 => &cfgs_ref[3],
                _ => &cfgs_ref[4 + (i * 7 + tid) % (cfgs_ref.len() - 4)],
            };
            let (code, used, origin) = if i % 8 == 7 {
                let feat = if rng.chance(1, 2) { Features::lua51() } else { Features::luau() };
                let (code, _) = progen::generate(&mut rng.fork(), feat, 40);
                (code, Default::default(), "shared")
            } else {
                let defect_rate = if rng.chance(1, 4) { 8 } else { 0 };
                let (code, used) = progen_c17::generate(&mut rng.fork(), cfg.target.clone(), 14, defect_rate);
                (code, used, "targeted")
            };
            r.hist("generator", origin);
            r.hist("configuration", &cfg.label);
            let result = check_program(&mut model, r, cfg, &code);
            match &result {
                CaseResult::Fired => {
                    for u in &used {
                        r.hist("shapes", u);
                    }
                    r.hist("rule_fired", &cfg.label);
                    r.case(Some((&cfg.label, &code)));
                    if r.samples.len() < 2 {
                        r.sample(json!({"rule": cfg.rule_json, "code": code}));
                    }
                }
                CaseResult::Trivial => r.case(None::<u8>),
                CaseResult::Skipped(why) => {
                    r.hist("skipped", why);
                    r.case(None::<u8>);
                }
            }
        }
    });
}
