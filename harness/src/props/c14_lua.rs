//! C14: (1) a small, independent reader/evaluator for the Lua text darklua emits for data
//! (`return <constructor>`), written from the Lua 5.1 manual (+ Luau string escapes `\x`, `\z`,
//! `\u{}`) — it shares no code with darklua; (2) S-expression rendering of real
//! `darklua_core::nodes::Expression` values through public accessors.
use crate::model::hex;
use darklua_core::nodes::*;

#[derive(Clone, Debug, PartialEq)]
pub enum LV {
    Nil,
    Bool(bool),
    Num(f64),
    Str(Vec<u8>),
    Table(Vec<(LK, LV)>),
}

/// table keys, normalised: numbers by bit pattern with `-0.0` folded into `0.0` (never NaN)
#[derive(Clone, Debug, PartialEq, Eq, PartialOrd, Ord, Hash)]
pub enum LK {
    Num(u64),
    Str(Vec<u8>),
    Bool(bool),
}

pub fn num_key(f: f64) -> Option<LK> {
    if f.is_nan() {
        None
    } else if f == 0.0 {
        Some(LK::Num(0f64.to_bits()))
    } else {
        Some(LK::Num(f.to_bits()))
    }
}

pub fn table_get<'a>(t: &'a [(LK, LV)], k: &LK) -> Option<&'a LV> {
    t.iter().find(|(k2, _)| k2 == k).map(|(_, v)| v)
}

fn table_set(t: &mut Vec<(LK, LV)>, k: LK, v: LV) {
    t.retain(|(k2, _)| *k2 != k);
    if v != LV::Nil {
        t.push((k, v));
    }
}

pub struct Lua<'a> {
    s: &'a [u8],
    i: usize,
}

type R<T> = Result<T, String>;

/// evaluate `return <exp>` (one expression, optional `;`)
pub fn eval_chunk(text: &[u8]) -> R<LV> {
    let mut p = Lua { s: text, i: 0 };
    p.ws();
    if !p.keyword(b"return") {
        return Err("syntax: chunk does not start with return".into());
    }
    let v = p.exp()?;
    p.ws();
    if p.peek() == Some(b';') {
        p.i += 1;
    }
    p.ws();
    if p.i != p.s.len() {
        return Err(format!("syntax: trailing input at byte {}", p.i));
    }
    Ok(v)
}

/// evaluate the `return <exp>` that starts at byte `start` of a larger text (what follows the
/// expression is not looked at): used on the body of `__modImpl` inside a bundle
pub fn eval_return_at(text: &[u8], start: usize) -> R<LV> {
    let mut p = Lua { s: text, i: start };
    // the (empty) parameter list, wherever the generator broke the line
    p.expect(b'(')?;
    p.expect(b')')?;
    p.ws();
    if !p.keyword(b"return") {
        return Err("syntax: function body does not start with return".into());
    }
    p.exp()
}

fn is_name_start(c: u8) -> bool {
    c.is_ascii_alphabetic() || c == b'_'
}
fn is_name_char(c: u8) -> bool {
    c.is_ascii_alphanumeric() || c == b'_'
}

impl<'a> Lua<'a> {
    fn peek(&self) -> Option<u8> {
        self.s.get(self.i).copied()
    }
    fn peek_at(&self, n: usize) -> Option<u8> {
        self.s.get(self.i + n).copied()
    }
    fn ws(&mut self) {
        loop {
            match self.peek() {
                Some(b' ') | Some(b'\t') | Some(b'\n') | Some(b'\r') => self.i += 1,
                Some(b'-') if self.peek_at(1) == Some(b'-') => {
                    // comment (short form only; long comments are never emitted)
                    while let Some(c) = self.peek() {
                        if c == b'\n' {
                            break;
                        }
                        self.i += 1;
                    }
                }
                _ => break,
            }
        }
    }
    fn keyword(&mut self, kw: &[u8]) -> bool {
        if self.s[self.i..].starts_with(kw) && !self.s.get(self.i + kw.len()).map_or(false, |c| is_name_char(*c)) {
            self.i += kw.len();
            true
        } else {
            false
        }
    }
    fn expect(&mut self, c: u8) -> R<()> {
        self.ws();
        if self.peek() == Some(c) {
            self.i += 1;
            Ok(())
        } else {
            Err(format!("syntax: expected '{}' at byte {}", c as char, self.i))
        }
    }
    fn name(&mut self) -> Option<Vec<u8>> {
        let c = self.peek()?;
        if !is_name_start(c) {
            return None;
        }
        let start = self.i;
        while self.peek().map_or(false, is_name_char) {
            self.i += 1;
        }
        Some(self.s[start..self.i].to_vec())
    }

    /// exp ::= unary { '/' unary }   (the only binary operator the data writer uses)
    fn exp(&mut self) -> R<LV> {
        let mut left = self.unary()?;
        loop {
            self.ws();
            if self.peek() == Some(b'/') {
                self.i += 1;
                let right = self.unary()?;
                match (&left, &right) {
                    (LV::Num(a), LV::Num(b)) => left = LV::Num(a / b),
                    _ => return Err("runtime: arithmetic on a non-number".into()),
                }
            } else {
                return Ok(left);
            }
        }
    }
    fn unary(&mut self) -> R<LV> {
        self.ws();
        if self.peek() == Some(b'-') && self.peek_at(1) != Some(b'-') {
            self.i += 1;
            match self.unary()? {
                LV::Num(a) => Ok(LV::Num(-a)),
                _ => Err("runtime: arithmetic on a non-number".into()),
            }
        } else {
            self.primary()
        }
    }
    fn primary(&mut self) -> R<LV> {
        self.ws();
        match self.peek() {
            None => Err("syntax: unexpected end".into()),
            Some(b'{') => self.table(),
            Some(b'(') => {
                self.i += 1;
                let v = self.exp()?;
                self.expect(b')')?;
                Ok(v)
            }
            Some(b'"') | Some(b'\'') => self.quoted().map(LV::Str),
            Some(b'[') => self.long_string().map(LV::Str),
            Some(c) if c.is_ascii_digit() || (c == b'.' && self.peek_at(1).map_or(false, |d| d.is_ascii_digit())) => {
                self.number().map(LV::Num)
            }
            Some(c) if is_name_start(c) => {
                let n = self.name().unwrap();
                match n.as_slice() {
                    b"nil" => Ok(LV::Nil),
                    b"true" => Ok(LV::Bool(true)),
                    b"false" => Ok(LV::Bool(false)),
                    b"string" => {
                        // string.char(b, ...) from the standard library
                        self.expect(b'.')?;
                        self.ws();
                        if self.name().as_deref() != Some(b"char") {
                            return Err("unsupported: string.<other>".into());
                        }
                        self.expect(b'(')?;
                        let mut bytes = Vec::new();
                        self.ws();
                        if self.peek() == Some(b')') {
                            self.i += 1;
                            return Ok(LV::Str(bytes));
                        }
                        loop {
                            match self.exp()? {
                                LV::Num(f) if f.fract() == 0.0 && (0.0..=255.0).contains(&f) => bytes.push(f as u8),
                                _ => return Err("runtime: bad argument to string.char".into()),
                            }
                            self.ws();
                            match self.peek() {
                                Some(b',') => self.i += 1,
                                Some(b')') => {
                                    self.i += 1;
                                    return Ok(LV::Str(bytes));
                                }
                                _ => return Err("syntax: in call arguments".into()),
                            }
                        }
                    }
                    _ => Err(format!("unsupported: free name {}", String::from_utf8_lossy(&n))),
                }
            }
            Some(c) => Err(format!("syntax: unexpected byte {:#x} at {}", c, self.i)),
        }
    }
    fn number(&mut self) -> R<f64> {
        let start = self.i;
        if self.peek() == Some(b'0') && matches!(self.peek_at(1), Some(b'x') | Some(b'X')) {
            self.i += 2;
            let d0 = self.i;
            while self.peek().map_or(false, |c| c.is_ascii_hexdigit()) {
                self.i += 1;
            }
            let digits = std::str::from_utf8(&self.s[d0..self.i]).unwrap();
            if digits.is_empty() || self.peek().map_or(false, is_name_char) {
                return Err("syntax: malformed hexadecimal number".into());
            }
            return u64::from_str_radix(digits, 16).map(|v| v as f64).map_err(|e| format!("syntax: hex {}", e));
        }
        while self.peek().map_or(false, |c| c.is_ascii_digit()) {
            self.i += 1;
        }
        if self.peek() == Some(b'.') {
            self.i += 1;
            while self.peek().map_or(false, |c| c.is_ascii_digit()) {
                self.i += 1;
            }
        }
        if matches!(self.peek(), Some(b'e') | Some(b'E')) {
            self.i += 1;
            if matches!(self.peek(), Some(b'+') | Some(b'-')) {
                self.i += 1;
            }
            let e0 = self.i;
            while self.peek().map_or(false, |c| c.is_ascii_digit()) {
                self.i += 1;
            }
            if e0 == self.i {
                return Err("syntax: malformed exponent".into());
            }
        }
        if self.peek().map_or(false, is_name_char) {
            return Err("syntax: malformed number".into());
        }
        let text = std::str::from_utf8(&self.s[start..self.i]).unwrap();
        // correctly rounded decimal -> double (what strtod does)
        text.parse::<f64>().map_err(|e| format!("syntax: number {:?}: {}", text, e))
    }
    fn quoted(&mut self) -> R<Vec<u8>> {
        let q = self.peek().unwrap();
        self.i += 1;
        let mut out = Vec::new();
        loop {
            let c = self.peek().ok_or("syntax: unfinished string")?;
            self.i += 1;
            if c == q {
                return Ok(out);
            }
            if c == b'\n' || c == b'\r' {
                return Err("syntax: unescaped line break in a quoted string".into());
            }
            if c != b'\\' {
                out.push(c);
                continue;
            }
            let e = self.peek().ok_or("syntax: unfinished escape")?;
            self.i += 1;
            match e {
                b'a' => out.push(7),
                b'b' => out.push(8),
                b'f' => out.push(12),
                b'n' => out.push(10),
                b'r' => out.push(13),
                b't' => out.push(9),
                b'v' => out.push(11),
                b'\\' => out.push(b'\\'),
                b'"' => out.push(b'"'),
                b'\'' => out.push(b'\''),
                b'\n' => out.push(b'\n'),
                b'0'..=b'9' => {
                    let mut v = (e - b'0') as u32;
                    for _ in 0..2 {
                        match self.peek() {
                            Some(d) if d.is_ascii_digit() => {
                                v = v * 10 + (d - b'0') as u32;
                                self.i += 1;
                            }
                            _ => break,
                        }
                    }
                    if v > 255 {
                        return Err("syntax: decimal escape too large".into());
                    }
                    out.push(v as u8);
                }
                b'x' => {
                    let h = self.s.get(self.i..self.i + 2).ok_or("syntax: \\x")?;
                    let v = u8::from_str_radix(std::str::from_utf8(h).map_err(|_| "syntax: \\x")?, 16)
                        .map_err(|_| "syntax: \\x needs two hexadecimal digits")?;
                    self.i += 2;
                    out.push(v);
                }
                b'z' => {
                    while self.peek().map_or(false, |c| c.is_ascii_whitespace()) {
                        self.i += 1;
                    }
                }
                b'u' => {
                    if self.peek() != Some(b'{') {
                        return Err("syntax: \\u needs {".into());
                    }
                    self.i += 1;
                    let d0 = self.i;
                    while self.peek().map_or(false, |c| c.is_ascii_hexdigit()) {
                        self.i += 1;
                    }
                    let v = u32::from_str_radix(std::str::from_utf8(&self.s[d0..self.i]).unwrap(), 16)
                        .map_err(|_| "syntax: \\u{} digits")?;
                    if self.peek() != Some(b'}') {
                        return Err("syntax: \\u needs }".into());
                    }
                    self.i += 1;
                    let ch = char::from_u32(v).ok_or("syntax: \\u{} is not a scalar value")?;
                    let mut buf = [0u8; 4];
                    out.extend_from_slice(ch.encode_utf8(&mut buf).as_bytes());
                }
                other => return Err(format!("syntax: unknown escape \\{}", other as char)),
            }
        }
    }
    fn long_string(&mut self) -> R<Vec<u8>> {
        // [ =* [ ... ] =* ]
        let mut j = self.i + 1;
        let mut level = 0;
        while self.s.get(j) == Some(&b'=') {
            level += 1;
            j += 1;
        }
        if self.s.get(j) != Some(&b'[') {
            return Err("syntax: malformed long bracket".into());
        }
        j += 1;
        // a first line break is skipped
        if (self.s.get(j) == Some(&b'\r') && self.s.get(j + 1) == Some(&b'\n'))
            || (self.s.get(j) == Some(&b'\n') && self.s.get(j + 1) == Some(&b'\r'))
        {
            j += 2;
        } else if self.s.get(j) == Some(&b'\n') || self.s.get(j) == Some(&b'\r') {
            j += 1;
        }
        let mut closer = vec![b']'];
        closer.extend(std::iter::repeat(b'=').take(level));
        closer.push(b']');
        let rest = &self.s[j..];
        match rest.windows(closer.len()).position(|w| w == closer.as_slice()) {
            Some(pos) => {
                self.i = j + pos + closer.len();
                // Lua 5.1 (llex.c read_long_string / inclinenumber): every line break inside the
                // body — LF, CR, CR LF, LF CR — is read as one LF. (Luau folds CR LF only; a text
                // that is to mean the same in both must not contain a raw CR at all, and this
                // reader takes the Lua 5.1 reading, under which any raw CR changes the value.)
                let raw = &rest[..pos];
                let mut out = Vec::with_capacity(raw.len());
                let mut k = 0;
                while k < raw.len() {
                    let c = raw[k];
                    if c == b'\n' || c == b'\r' {
                        out.push(b'\n');
                        if k + 1 < raw.len() && (raw[k + 1] == b'\n' || raw[k + 1] == b'\r') && raw[k + 1] != c {
                            k += 1;
                        }
                    } else {
                        out.push(c);
                    }
                    k += 1;
                }
                Ok(out)
            }
            None => Err("syntax: unfinished long string".into()),
        }
    }
    fn table(&mut self) -> R<LV> {
        self.expect(b'{')?;
        let mut t: Vec<(LK, LV)> = Vec::new();
        let mut next = 1u64;
        loop {
            self.ws();
            if self.peek() == Some(b'}') {
                self.i += 1;
                return Ok(LV::Table(t));
            }
            if self.peek() == Some(b'[') && !matches!(self.peek_at(1), Some(b'[') | Some(b'=')) {
                self.i += 1;
                let k = self.exp()?;
                self.expect(b']')?;
                self.expect(b'=')?;
                let v = self.exp()?;
                let key = match k {
                    LV::Nil => return Err("runtime: table index is nil".into()),
                    LV::Num(f) => num_key(f).ok_or("runtime: table index is NaN")?,
                    LV::Str(s) => LK::Str(s),
                    LV::Bool(b) => LK::Bool(b),
                    LV::Table(_) => return Err("unsupported: table used as a key".into()),
                };
                table_set(&mut t, key, v);
            } else {
                // Name '=' exp  |  exp
                let save = self.i;
                let mut done = false;
                if let Some(n) = self.name() {
                    self.ws();
                    if self.peek() == Some(b'=') && self.peek_at(1) != Some(b'=') {
                        if RESERVED.contains(&n.as_slice()) {
                            return Err(format!("syntax: reserved word {} used as a field name", String::from_utf8_lossy(&n)));
                        }
                        self.i += 1;
                        let v = self.exp()?;
                        table_set(&mut t, LK::Str(n), v);
                        done = true;
                    }
                }
                if !done {
                    self.i = save;
                    let v = self.exp()?;
                    table_set(&mut t, LK::Num((next as f64).to_bits()), v);
                    next += 1;
                }
            }
            self.ws();
            match self.peek() {
                Some(b',') | Some(b';') => self.i += 1,
                Some(b'}') => {}
                _ => return Err(format!("syntax: expected , or }} at byte {}", self.i)),
            }
        }
    }
}

pub const RESERVED: [&[u8]; 21] = [
    b"and", b"break", b"do", b"else", b"elseif", b"end", b"false", b"for", b"function", b"if", b"in", b"local",
    b"nil", b"not", b"or", b"repeat", b"return", b"then", b"true", b"until", b"while",
];

// ---------------------------------------------------------------------------------------
// real Expression -> S-expression (grammar of lean/DarkluaModel/C14/Driver.lean).
// `strict`: anything the model cannot express (exponent record, upper-case hex, …) is made
// visible as a distinct atom so that it shows up as a difference.

pub fn expr_sexp(e: &Expression, strict: bool, out: &mut String) {
    match e {
        Expression::Nil(_) => out.push_str("nil"),
        Expression::True(_) => out.push_str("true"),
        Expression::False(_) => out.push_str("false"),
        Expression::Number(NumberExpression::Decimal(d)) => {
            if strict && d.get_exponent().is_some() {
                out.push_str(&format!("(numexp f{:016x} {:?})", d.compute_value().to_bits(), d.get_exponent()));
            } else {
                out.push_str(&format!("(num f{:016x})", d.compute_value().to_bits()));
            }
        }
        Expression::Number(NumberExpression::Hex(h)) => {
            if h.get_exponent().is_some() || (strict && h.is_x_uppercase()) {
                out.push_str(&format!("(hexother {} {:?} {})", h.get_raw_integer(), h.get_exponent(), h.is_x_uppercase()));
            } else {
                out.push_str(&format!("(hex {})", h.get_raw_integer()));
            }
        }
        Expression::Number(NumberExpression::Binary(b)) => out.push_str(&format!("(binnum {})", b.get_raw_value())),
        Expression::String(s) => out.push_str(&format!("(str {})", hex(s.get_value()))),
        Expression::Table(t) => {
            out.push_str("(table");
            for entry in t.iter_entries() {
                out.push(' ');
                match entry {
                    TableEntry::Value(v) => {
                        out.push_str("(pos ");
                        expr_sexp(v, strict, out);
                        out.push(')');
                    }
                    TableEntry::Field(f) => {
                        out.push_str(&format!("(named {} ", hex(f.get_field().get_name().as_bytes())));
                        expr_sexp(f.get_value(), strict, out);
                        out.push(')');
                    }
                    TableEntry::Index(i) => {
                        out.push_str("(keyed ");
                        expr_sexp(i.get_key(), strict, out);
                        out.push(' ');
                        expr_sexp(i.get_value(), strict, out);
                        out.push(')');
                    }
                }
            }
            out.push(')');
        }
        Expression::Call(c) => call_sexp(c, strict, out),
        Expression::Field(f) => field_sexp(f, strict, out),
        Expression::Identifier(i) => out.push_str(&format!("(var {})", hex(i.get_name().as_bytes()))),
        Expression::Unary(u) if matches!(u.operator(), UnaryOperator::Minus) => {
            out.push_str("(neg ");
            expr_sexp(u.get_expression(), strict, out);
            out.push(')');
        }
        Expression::Binary(b) if matches!(b.operator(), BinaryOperator::Slash) => {
            out.push_str("(div ");
            expr_sexp(b.left(), strict, out);
            out.push(' ');
            expr_sexp(b.right(), strict, out);
            out.push(')');
        }
        Expression::Parenthese(p) => {
            out.push_str("(paren ");
            expr_sexp(p.inner_expression(), strict, out);
            out.push(')');
        }
        other => out.push_str(&format!("(other {})", hex(format!("{:?}", other).as_bytes()))),
    }
}

fn prefix_sexp(p: &Prefix, strict: bool, out: &mut String) {
    match p {
        Prefix::Call(c) => call_sexp(c, strict, out),
        Prefix::Field(f) => field_sexp(f, strict, out),
        Prefix::Identifier(i) => out.push_str(&format!("(var {})", hex(i.get_name().as_bytes()))),
        Prefix::Parenthese(p) => {
            out.push_str("(paren ");
            expr_sexp(p.inner_expression(), strict, out);
            out.push(')');
        }
        other => out.push_str(&format!("(other {})", hex(format!("{:?}", other).as_bytes()))),
    }
}

fn field_sexp(f: &FieldExpression, strict: bool, out: &mut String) {
    out.push_str("(field ");
    prefix_sexp(f.get_prefix(), strict, out);
    out.push_str(&format!(" {})", hex(f.get_field().get_name().as_bytes())));
}

fn call_sexp(c: &FunctionCall, strict: bool, out: &mut String) {
    if c.get_method().is_some() {
        out.push_str("(other x6d6574686f64)");
        return;
    }
    out.push_str("(call ");
    prefix_sexp(c.get_prefix(), strict, out);
    out.push_str(" (args");
    match c.get_arguments() {
        Arguments::Tuple(t) => {
            for a in t.iter_values() {
                out.push(' ');
                expr_sexp(a, strict, out);
            }
        }
        Arguments::String(s) => out.push_str(&format!(" (str {})", hex(s.get_value()))),
        Arguments::Table(_) => out.push_str(" (other x7461626c65617267)"),
    }
    out.push_str("))");
}
