//! Property C16: the optional refactoring rules preserve program behaviour.
//!  (1) per rule: correspondence of the Lean rule model (`c16.rule`) with the real `Rule::process`
//!      (output trees identical) + execution oracle (original vs REAL output on the reference
//!      semantics) — `rulecheck::check_program` — on the shared generator (Lua 5.1 and Luau
//!      features) and on the targeted generator `progen_c16` (the shapes the property lists);
//!  (2) end to end through `darklua_core::process` (text re-parsed, executed): each rule alone
//!      and each rule in front of / behind the 13 default rules, all three generators;
//!  (3) `FindVariables` + `DefaultVisitor` (real, public API) against the Lean `mentions` model;
//!  (4) `math.sqrt(x)` vs `x ^ 0.5` bit-exactly on boundary and random doubles through the real
//!      rule and the executable semantics (`c16.sqrtlaw` is the per-value hypothesis);
//!  (5) known findings replayed first; programs outside the decidable hypotheses of the
//!      `_partial` theorems (`c16.h`) are judged for correspondence only.
use crate::exec;
use crate::model::{hex, Model};
use crate::progen::{self, Features};
use crate::progen_c16;
use crate::props::c01::DEFAULT_RULES;
use crate::report::{self, Report, Violation};
use crate::rng::Rng;
use crate::rulecheck::{self, CaseResult, RuleCase};
use darklua_core::process::processors::FindVariables;
use darklua_core::process::{DefaultVisitor, NodeVisitor};
use serde_json::{json, Value};

pub const RULES: [&str; 5] = [
    "group_local_assignment",
    "convert_local_function_to_assign",
    "convert_function_to_assignment",
    "remove_method_call",
    "convert_square_root_call",
];

fn inside_h(model: &mut Model, rule: &str, sexp: &str) -> bool {
    match model.ask(&format!("c16.h {} {}", hex(rule.as_bytes()), sexp)).as_str() {
        "true" => true,
        "false" => false,
        other => { eprintln!("c16.h answered {:?} for rule {}", other, rule); panic!("c16.h answered {}", other) }
    }
}

/// One program through one rule. Outside the rule's hypothesis the oracle verdict is only counted.
fn check_rule(model: &mut Model, r: &mut Report, rule: &str, code: &str) -> (CaseResult, bool) {
    let block = match exec::parse(code) {
        Ok(b) => b,
        Err(_) => return (CaseResult::Skipped("parse"), true),
    };
    let sexp = crate::astsexp::block_to_sexp(&block);
    let inside = inside_h(model, rule, &sexp);
    let answer = model.ask(&format!("c16.rule {} {}", hex(rule.as_bytes()), sexp));
    let modelled = answer != "unmodelled";
    if !modelled {
        r.count("model_unmodelled_input", 1);
    }
    let json_text = format!("'{}'", rule);
    let case = RuleCase { prop: "c16", rule_name: rule, rule_json: &json_text, modelled };
    if inside {
        (rulecheck::check_program(model, r, &case, code), true)
    } else {
        let mut scratch = Report::new("C16", &r.tier, r.seed);
        let result = rulecheck::check_program(model, &mut scratch, &case, code);
        for v in scratch.violations {
            if v.kind == "oracle" && v.check.ends_with(":behaviour") {
                r.count(&format!("behaviour_differs_outside_hypothesis:{}", rule), 1);
            } else {
                r.violation(v);
            }
        }
        for (k, n) in scratch.counters {
            r.count(&k, n);
        }
        r.count(&format!("outside_hypothesis:{}", rule), 1);
        (result, false)
    }
}

enum Pipeline {
    /// process error or unusable input
    Skip,
    Panic(String),
    Reparse(String, String),
    /// original outcome, transformed outcome, output text (only when the original is error-free)
    Ran(String, String, String),
}

fn run_pipeline(model: &mut Model, code: &str, rules: &[&str], generator: &str) -> (String, Pipeline) {
    let resources = darklua_core::Resources::from_memory();
    resources.write("src/main.lua", code).unwrap();
    let rule_list: Vec<String> = rules.iter().map(|r| format!("'{}'", r)).collect();
    let config_text = format!("{{ generator: '{}', rules: [{}] }}", generator, rule_list.join(", "));
    let config: darklua_core::Configuration = json5::from_str(&config_text).expect("configuration");
    let result = std::panic::catch_unwind(std::panic::AssertUnwindSafe(|| {
        darklua_core::process(&resources, darklua_core::Options::new("src").with_configuration(config))
    }));
    match result {
        Ok(Ok(r)) => {
            if r.result().is_err() {
                return (config_text, Pipeline::Skip);
            }
        }
        Ok(Err(_)) => return (config_text, Pipeline::Skip),
        Err(_) => return (config_text, Pipeline::Panic("darklua_core::process panicked".into())),
    }
    let output = resources.get("src/main.lua").unwrap();
    let block0 = match exec::parse(code) { Ok(b) => b, Err(_) => return (config_text, Pipeline::Skip) };
    let block1 = match exec::parse(&output) {
        Ok(b) => b,
        Err(e) => return (config_text, Pipeline::Reparse(e, output)),
    };
    match rulecheck::oracle_compare(model, &block0, &block1) {
        Some((o0, o1)) => (config_text, Pipeline::Ran(o0, o1, output)),
        None => (config_text, Pipeline::Skip),
    }
}

/// end to end: real pipeline on memory resources, output text re-parsed and executed. A pipeline
/// that contains other rules than the five of C16 is charged to C16 only when the same pipeline
/// WITHOUT the C16 rules is fine (otherwise the defect belongs to the other rules: C01).
fn end_to_end(model: &mut Model, report: &mut Report, code: &str, rules: &[&str], generator: &str) {
    let (config_text, outcome) = run_pipeline(model, code, rules, generator);
    let others: Vec<&str> = rules.iter().copied().filter(|r| !RULES.contains(r)).collect();
    let mut others_alone_bad = || -> bool {
        if others.is_empty() {
            return false;
        }
        match run_pipeline(model, code, &others, generator).1 {
            Pipeline::Ran(o0, o1, _) => o0 != o1,
            Pipeline::Skip => false,
            _ => true,
        }
    };
    // Which rule of the pipeline is the first to change behaviour? Returns (index, inside its hypothesis
    // on the program it was given). `None`: no single step could be blamed (e.g. text generation).
    let culprit = |model: &mut Model| -> Option<(usize, bool)> {
        let mut previous_text = code.to_owned();
        for i in 1..=rules.len() {
            match run_pipeline(model, code, &rules[..i], "readable").1 {
                Pipeline::Ran(o0, o1, output) => {
                    if o0 != o1 {
                        let rule = rules[i - 1];
                        let inside = if RULES.contains(&rule) {
                            match exec::parse(&previous_text) {
                                Ok(block) => inside_h(model, rule, &crate::astsexp::block_to_sexp(&block)),
                                Err(_) => true,
                            }
                        } else {
                            true
                        };
                        return Some((i - 1, inside));
                    }
                    previous_text = output;
                }
                Pipeline::Skip => {}
                _ => return Some((i - 1, true)),
            }
        }
        None
    };
    let mine: Vec<&str> = rules.iter().copied().filter(|r| RULES.contains(r)).collect();
    let check = if mine.len() == 1 { format!("e2e:{}", mine[0]) } else { "e2e:all-five".to_owned() };
    match outcome {
        Pipeline::Skip => report.count("e2e_process_error_or_original_not_error_free", 1),
        Pipeline::Panic(what) => {
            if others_alone_bad() {
                report.count("e2e_other_rules_alone_already_fail", 1);
                return;
            }
            report.violation(Violation {
                kind: "oracle".into(),
                check: "e2e:panic".into(),
                what,
                input: json!({"config": config_text, "code": code}),
                failing_input_found: true,
            });
        }
        Pipeline::Reparse(e, output) => {
            if others_alone_bad() {
                report.count("e2e_other_rules_alone_already_fail", 1);
                return;
            }
            report.violation(Violation {
                kind: "oracle".into(),
                check: "e2e:reparse".into(),
                what: format!("output of the pipeline does not parse: {}", e),
                input: json!({"config": config_text, "code": code, "output": output}),
                failing_input_found: true,
            });
        }
        Pipeline::Ran(o0, o1, output) => {
            report.count("e2e_compared", 1);
            if o0 != o1 {
                if others_alone_bad() {
                    report.count("e2e_other_rules_alone_already_fail", 1);
                    return;
                }
                if rules.len() > 1 {
                    if let Some((i, inside)) = culprit(model) {
                        if !RULES.contains(&rules[i]) {
                            // a default rule breaks the (behaviour-preserving) output of the rules before it: C01's business
                            report.count(&format!("e2e_charged_to_other_rule:{}", rules[i]), 1);
                            report.sample(json!({"e2e_charged_to_other_rule": rules[i], "config": config_text, "code": code}));
                            return;
                        }
                        if !inside {
                            report.count(&format!("e2e_intermediate_program_outside_hypothesis:{}", rules[i]), 1);
                            report.sample(json!({"e2e_intermediate_program_outside_hypothesis": rules[i], "config": config_text, "code": code}));
                            return;
                        }
                    }
                }
                report.violation(Violation {
                    kind: "oracle".into(),
                    check,
                    what: "processed file behaves differently from the original".into(),
                    input: json!({"config": config_text, "code": code, "output": output, "original_outcome": o0, "transformed_outcome": o1}),
                    failing_input_found: true,
                });
            }
        }
    }
}

struct CollectFunctions {
    found: Vec<darklua_core::nodes::FunctionExpression>,
}

impl darklua_core::process::NodeProcessor for CollectFunctions {
    fn process_function_expression(&mut self, function: &mut darklua_core::nodes::FunctionExpression) {
        if self.found.len() < 8 {
            self.found.push(function.clone());
        }
    }
}

fn expression_text(expression: darklua_core::nodes::Expression) -> Option<String> {
    use darklua_core::generator::{DenseLuaGenerator, LuaGenerator};
    let block = darklua_core::nodes::Block::default()
        .with_last_statement(darklua_core::nodes::ReturnStatement::one(expression));
    let text = std::panic::catch_unwind(std::panic::AssertUnwindSafe(|| {
        let mut generator = DenseLuaGenerator::default();
        generator.write_block(&block);
        generator.into_string()
    }))
    .ok()?;
    text.trim().strip_prefix("return").map(|t| t.trim().replace('\n', " "))
}

/// After a `FindVariables` / model mismatch on `name`: `FindVariables` is the guard of
/// `group_local_assignment` (a later initialiser mentions an earlier variable) and of
/// `convert_local_function_to_assign` (the body mentions the function). Put every function expression
/// of the program (never called, so harmless) before / after a REAL use of `name` in the two contexts
/// where the verdict matters and ask the property's own oracle.
fn find_variables_failing_input(model: &mut Model, name: &str, block: &darklua_core::nodes::Block) -> Option<(String, String, String, String)> {
    let mut collector = CollectFunctions { found: Vec::new() };
    let mut copy = block.clone();
    DefaultVisitor::visit_block(&mut copy, &mut collector);
    let valid_name = !name.is_empty()
        && name.chars().all(|c| c.is_ascii_alphanumeric() || c == '_')
        && !["and", "break", "do", "else", "elseif", "end", "false", "for", "function", "if", "in", "local", "nil", "not", "or", "repeat", "return", "then", "true", "until", "while", "emit", "select"].contains(&name);
    if !valid_name {
        return None;
    }
    for function in collector.found {
        let text = match expression_text(function.into()) { Some(t) => t, None => continue };
        let candidates = [
            ("group_local_assignment", format!("local {n} = 10\nlocal v_, w_ = {f}, {n}\nemit(w_)", n = name, f = text)),
            ("group_local_assignment", format!("local {n} = 10\nlocal w_, v_ = {n}, {f}\nemit(w_)", n = name, f = text)),
            ("group_local_assignment", format!("local {n} = 10\nlocal v_ = {{{f}, {n}}}\nemit(v_[2])", n = name, f = text)),
            ("convert_local_function_to_assign", format!("local function {n}(n_)\n  local v_ = {f}\n  if n_ > 0 then return {n}(n_ - 1) + 1 end\n  return 0\nend\nemit({n}(2))", n = name, f = text)),
            ("convert_local_function_to_assign", format!("local function {n}(n_)\n  if n_ > 0 then return {n}(n_ - 1) + 1 end\n  local v_ = {f}\n  return 0\nend\nemit({n}(2))", n = name, f = text)),
        ];
        for (rule, candidate) in candidates {
            let rules = match exec::rule_from_json(&format!("'{}'", rule)) { Ok(x) => vec![x], Err(_) => continue };
            if let Some((o0, o1, _)) = rulecheck::oracle_fails(model, &rules, &candidate) {
                return Some((rule.to_owned(), candidate, o0, o1));
            }
        }
    }
    None
}

/// (3) the real `FindVariables` against the Lean `mentions`
fn check_mentions(model: &mut Model, r: &mut Report, rng: &mut Rng, code: &str) {
    let block = match exec::parse(code) { Ok(b) => b, Err(_) => return };
    let sexp = crate::astsexp::block_to_sexp(&block);
    // candidate names: identifiers occurring in the text, plus one that does not
    let mut names: Vec<String> = code
        .split(|c: char| !(c.is_ascii_alphanumeric() || c == '_'))
        .filter(|w| !w.is_empty() && !w.chars().next().unwrap().is_ascii_digit())
        .map(|w| w.to_owned())
        .collect();
    names.sort();
    names.dedup();
    names.push("never_used_name".to_owned());
    for _ in 0..4 {
        let name = rng.pick(&names).clone();
        let mut find = FindVariables::new(&name);
        let mut copy = block.clone();
        DefaultVisitor::visit_block(&mut copy, &mut find);
        let real = find.has_found_usage();
        let answer = model.ask(&format!("c16.mentions {} {}", hex(name.as_bytes()), sexp));
        r.count("mentions_compared", 1);
        r.hist("mentions", if real { "found" } else { "not-found" });
        if answer != (if real { "true" } else { "false" }) {
            // search for a program on which the two rules that rely on FindVariables break behaviour
            let found = if r.violations_for("find_variables:behaviour") < 2 {
                find_variables_failing_input(model, &name, &block)
            } else {
                None
            };
            if let Some((rule, candidate, o0, o1)) = found {
                r.violation(Violation {
                    kind: "oracle".into(),
                    check: "find_variables:behaviour".into(),
                    what: format!("FindVariables({}) disagrees with its model on a program; built around the same function expression, rule {} changes behaviour", name, rule),
                    input: json!({"rule": format!("'{}'", rule), "code": candidate, "original_outcome": o0, "transformed_outcome": o1, "derived_from": code, "searched_name": name}),
                    failing_input_found: true,
                });
            } else {
                r.violation(Violation {
                    kind: "correspondence".into(),
                    check: "find_variables:model".into(),
                    what: format!("FindVariables({}) with DefaultVisitor says {}, the Lean model says {}", name, real, answer),
                    input: json!({"name": name, "code": code}),
                    failing_input_found: false,
                });
            }
        }
    }
}

/// The shared generator can produce `b = (b .. 5) .. (b .. i)` inside nested loops: the string doubles at
/// every iteration and the reference run needs exponential memory. Such programs are skipped (counted).
fn doubles_a_string(code: &str) -> bool {
    for line in code.lines() {
        let line = line.trim();
        if let Some(eq) = line.find(" = ") {
            let target = &line[..eq];
            let rhs = &line[eq + 3..];
            if !target.is_empty() && target.chars().all(|c| c.is_ascii_alphanumeric() || c == '_') && rhs.contains("..") {
                let occurrences = rhs
                    .split(|c: char| !(c.is_ascii_alphanumeric() || c == '_'))
                    .filter(|w| *w == target)
                    .count();
                if occurrences >= 2 {
                    return true;
                }
            }
        }
    }
    false
}

fn lua_number(x: f64) -> String {
    if x.is_infinite() {
        if x > 0.0 { "(1/0)".to_owned() } else { "(-(1/0))".to_owned() }
    } else if x == 0.0 && x.is_sign_negative() {
        "(-0)".to_owned()
    } else if x < 0.0 {
        format!("(-{:e})", -x)
    } else {
        format!("{:e}", x)
    }
}

/// (4) `emit(math.sqrt(x))` through the real rule, bit-exact comparison of the traces
fn check_sqrt_value(model: &mut Model, r: &mut Report, x: f64, listed: &[String]) {
    let code = format!("emit(math.sqrt({}))", lua_number(x));
    let rules = vec![exec::rule_from_json("'convert_square_root_call'").unwrap()];
    let law = model.ask(&format!("c16.sqrtlaw {}", crate::model::f64_wire(x)));
    let fails = rulecheck::oracle_fails(model, &rules, &code);
    r.count("sqrt_values_checked", 1);
    match (law.as_str(), fails) {
        ("true", Some((o0, o1, _))) => r.violation(Violation {
            kind: "oracle".into(),
            check: "convert_square_root_call:value".into(),
            what: "math.sqrt(x) and x ^ 0.5 differ although sqrt x = pow x 0.5 holds for this double".into(),
            input: json!({"rule": "'convert_square_root_call'", "code": code, "original_outcome": o0, "transformed_outcome": o1}),
            failing_input_found: true,
        }),
        ("false", Some(_)) => {
            r.count("sqrt_law_fails_and_rule_differs", 1);
            if !listed.contains(&code) {
                r.hist("sqrt_law_fails_unlisted", if x.is_nan() { "nan" } else if x < 0.0 { "negative" } else { "positive-finite-or-inf" });
                r.sample(json!({"sqrt_law_fails_unlisted": code}));
            }
        }
        ("false", None) => r.count("sqrt_law_fails_but_program_agrees", 1),
        ("true", None) => r.case(Some(("sqrt", x.to_bits()))),
        (other, _) => panic!("c16.sqrtlaw answered {}", other),
    }
}

fn replay_known(model: &mut Model, r: &mut Report) -> Vec<String> {
    let mut sqrt_listed = Vec::new();
    for entry in report::known_findings("C16") {
        // a fixed entry excuses nothing: its witnesses live in corpus/C16 and must pass
        if entry["status"] == "fixed" {
            continue;
        }
        let id = entry["id"].as_str().unwrap_or("?").to_owned();
        let witnesses: Vec<Value> = match &entry["witness"] {
            Value::Array(a) => a.clone(),
            other => vec![other.clone()],
        };
        for w in witnesses {
            let (rule, code) = match (w["rule"].as_str(), w["code"].as_str()) {
                (Some(a), Some(b)) => (a.to_owned(), b.to_owned()),
                _ => continue,
            };
            if rule.contains("convert_square_root_call") {
                sqrt_listed.push(code.clone());
            }
            let rules = match exec::rule_from_json(&rule) { Ok(x) => vec![x], Err(_) => continue };
            if let Some((o0, o1, _)) = rulecheck::oracle_fails(model, &rules, &code) {
                r.known_finding(&id, &format!("{} on `{}`: original {} transformed {}", entry["expected_wrong"].as_str().unwrap_or(""), code.replace('\n', " "), o0, o1));
            }
        }
    }
    sqrt_listed
}

/// corpus/C16/*.json: minimised past disagreements and witnesses of fixed findings — judged like any program
fn replay_corpus(model: &mut Model, r: &mut Report) {
    let dir = concat!(env!("CARGO_MANIFEST_DIR"), "/../corpus/C16");
    let mut files: Vec<_> = match std::fs::read_dir(dir) {
        Ok(d) => d.filter_map(|e| e.ok()).map(|e| e.path()).collect(),
        Err(_) => return,
    };
    files.sort();
    for f in files {
        let v: Value = match std::fs::read_to_string(&f).ok().and_then(|t| serde_json::from_str(&t).ok()) {
            Some(v) => v,
            None => continue,
        };
        if let (Some(rule), Some(code)) = (v["rule"].as_str(), v["code"].as_str()) {
            check_rule(model, r, rule.trim_matches('\''), code);
            r.count("corpus_replayed", 1);
        }
    }
}

fn run_replay(r: &mut Report, path: &str) {
    let text = std::fs::read_to_string(path).expect("replay file");
    let v: Value = serde_json::from_str(&text).expect("replay JSON");
    let input = &v["input"];
    let mut model = Model::spawn();
    let code = input["code"].as_str().unwrap_or("").to_owned();
    if let Some(config) = input["config"].as_str() {
        // end-to-end replay
        let cfg: Value = json5::from_str(config).unwrap_or(Value::Null);
        let generator = cfg["generator"].as_str().unwrap_or("dense").to_owned();
        let rules: Vec<String> = cfg["rules"].as_array().map(|a| a.iter().filter_map(|x| x.as_str().map(|s| s.to_owned())).collect()).unwrap_or_default();
        let refs: Vec<&str> = rules.iter().map(|s| s.as_str()).collect();
        end_to_end(&mut model, r, &code, &refs, &generator);
    } else if let Some(name) = input["name"].as_str() {
        let _ = name;
        let mut rng = Rng::new(r.seed);
        check_mentions(&mut model, r, &mut rng, &code);
    } else if let Some(rule) = input["rule"].as_str() {
        let name = rule.trim_matches('\'');
        check_rule(&mut model, r, name, &code);
    }
    r.case(None::<u8>);
}

pub fn run(report: &mut Report, replay: Option<&str>) {
    if let Some(path) = replay {
        run_replay(report, path);
        return;
    }
    report.rule = "programs from (a) the shared type-directed generator with Lua 5.1 and with Luau features and (b) the \
        targeted generator progen_c16 (consecutive locals whose later initialisers read/capture/shadow earlier names, \
        multi-value initialisers (calls, varargs), directly and mutually recursive local functions, methods on nested \
        fields, method calls on shadowed/parenthesised/effectful receivers, math.sqrt with shadowed `math`), nested in \
        do/function/loop/if/repeat; each program through each of the 5 rules (real Rule::process: tree compared with the \
        Lean model, original and output executed on the reference semantics) and end-to-end through darklua_core::process \
        (rule alone, rule before and after the 13 default rules, the three generators). Non-trivial = the rule changed \
        the tree; distinct by (rule, program text). Programs outside a rule's decidable hypothesis (c16.h) are compared \
        for correspondence only."
        .to_owned();
    let thorough = report.is_thorough();
    let seed = report.seed;

    // ---- known findings first; sqrt boundary values
    {
        let mut model = Model::spawn();
        replay_corpus(&mut model, report);
        let listed = replay_known(&mut model, report);
        let boundary: [f64; 16] = [
            0.0, -0.0, 1.0, 2.0, 0.25, 1e-320, f64::MIN_POSITIVE, f64::MAX, f64::INFINITY, f64::NEG_INFINITY,
            -1.0, 4.0, 1e300, 3.0, 10.0, 0.1,
        ];
        for x in boundary {
            check_sqrt_value(&mut model, report, x, &listed);
        }
        let mut rng = Rng::new(seed ^ 0x5157);
        let n = if thorough { 12000 } else { 1200 };
        for i in 0..n {
            // random positive doubles: uniform exponent and mantissa, and small integers
            let x = if i % 3 == 0 {
                rng.range(0, 100000) as f64
            } else {
                let bits = ((rng.range(1, 2045) as u64) << 52) | (rng.next_u64() & ((1u64 << 52) - 1));
                f64::from_bits(bits)
            };
            check_sqrt_value(&mut model, report, x, &listed);
        }
    }

    // development aid (mutation testing): C16_PROGRAMS=<n> overrides the number of programs per thread
    let programs_per_thread: usize = std::env::var("C16_PROGRAMS")
        .ok()
        .and_then(|v| v.parse().ok())
        .unwrap_or(if thorough { 3000 } else { 450 });
    let threads = 12;
    report.parallel(threads, |tid, r| {
        let mut model = Model::spawn();
        let mut rng = Rng::new(seed.wrapping_mul(1000).wrapping_add(tid as u64).wrapping_add(16_000_000));
        for n in 0..programs_per_thread {
            // two thirds targeted, one third shared (alternating Lua 5.1 / Luau)
            let (code, source) = match n % 6 {
                0 => (progen::generate(&mut rng.fork(), Features::lua51(), 60).0, "shared-lua51"),
                1 => (progen::generate(&mut rng.fork(), Features::luau(), 60).0, "shared-luau"),
                2 => {
                    let focus: &[&str] = *rng.pick(&[&["gl", "f17"][..], &["lf"][..], &["fa"][..], &["mc", "receiver"][..], &["sq"][..]]);
                    let (c, tags) = progen_c16::generate(&mut rng.fork(), false, focus);
                    for t in tags { r.hist("targeted_shapes", t); }
                    (c, "targeted-focus")
                }
                3 => {
                    let (c, tags) = progen_c16::generate(&mut rng.fork(), true, &[]);
                    for t in tags { r.hist("targeted_shapes", t); }
                    (c, "targeted-luau")
                }
                _ => {
                    let (c, tags) = progen_c16::generate(&mut rng.fork(), false, &[]);
                    for t in tags { r.hist("targeted_shapes", t); }
                    (c, "targeted-lua51")
                }
            };
            r.hist("program_source", source);
            // generator health: which source produces programs whose original run is not error-free
            if source.starts_with("targeted") {
                if let Ok(block) = exec::parse(&code) {
                    let outcome = exec::run_block(&mut model, rulecheck::LEVEL, &block);
                    if !exec::outcome_ok(&outcome) {
                        r.hist("targeted_program_not_error_free", source);
                        if let Ok(dir) = std::env::var("C16_TRACE_DIR") {
                            let _ = std::fs::write(format!("{}/bad-{}-{}.lua", dir, tid, n), format!("{}\n-- {}", code, outcome));
                        }
                    }
                }
            }
            if doubles_a_string(&code) {
                r.count("skipped_program_doubling_a_string_in_a_loop", 1);
                continue;
            }
            if let Ok(dir) = std::env::var("C16_TRACE_DIR") {
                // development aid: the program each thread is working on
                let _ = std::fs::write(format!("{}/cur-{}.lua", dir, tid), &code);
            }
            let mut inside_all = Vec::new();
            for rule in RULES.iter() {
                // a systematic break: stop shrinking the same failure over and over
                if r.violations.iter().filter(|v| v.check.starts_with(rule)).count() >= 4 {
                    r.count("rule_checks_skipped_after_repeated_violations", 1);
                    inside_all.push(false);
                    continue;
                }
                let (result, inside) = check_rule(&mut model, r, rule, &code);
                inside_all.push(inside);
                match &result {
                    CaseResult::Fired => {
                        r.hist("rule_fired", rule);
                        r.case(Some((rule, &code)));
                        if r.samples.len() < 6 && rng.chance(1, 20) {
                            r.sample(json!({"rule": rule, "code": code}));
                        }
                    }
                    CaseResult::Trivial => r.case(None::<u8>),
                    CaseResult::Skipped(why) => {
                        r.hist("skipped", why);
                        r.case(None::<u8>);
                    }
                }
            }
            // how much of the generated population lies inside the hypotheses of the WHOLE-RULE theorems
            if let Ok(block) = exec::parse(&code) {
                let sexp = crate::astsexp::block_to_sexp(&block);
                for rule in ["convert_local_function_to_assign", "convert_function_to_assignment"] {
                    let a = model.ask(&format!("c16.good {} {}", hex(rule.as_bytes()), sexp));
                    r.hist(&format!("whole_rule_hypothesis:{}", rule), &a);
                }
            }
            check_mentions(&mut model, r, &mut rng, &code);
            // ---- end to end: one rule alone, the same rule with the default rules, all five together
            let idx = rng.below(RULES.len());
            let rule = RULES[idx];
            if inside_all[idx] {
                let generator = *rng.pick(&["retain_lines", "dense", "readable"]);
                end_to_end(&mut model, r, &code, &[rule], generator);
                let mut pipeline: Vec<&str> = DEFAULT_RULES.to_vec();
                if rng.chance(1, 2) {
                    pipeline.insert(0, rule);
                } else {
                    pipeline.push(rule);
                }
                let generator = *rng.pick(&["retain_lines", "dense", "readable"]);
                end_to_end(&mut model, r, &code, &pipeline, generator);
                r.hist("e2e_rule", rule);
            } else {
                r.count("e2e_skipped_outside_hypothesis", 1);
            }
            if inside_all.iter().all(|b| *b) && rng.chance(1, 2) {
                let mut all: Vec<&str> = RULES.to_vec();
                rng.shuffle(&mut all);
                if rng.chance(1, 2) {
                    all.extend(DEFAULT_RULES.iter().copied());
                }
                let generator = *rng.pick(&["retain_lines", "dense", "readable"]);
                end_to_end(&mut model, r, &code, &all, generator);
                r.count("e2e_all_five", 1);
            }
        }
    });
}
