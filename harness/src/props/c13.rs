//! Property C13 (stub with a probe)
use crate::report::Report;

pub fn run(report: &mut Report, _replay: Option<&str>) {
    report.notes.push(format!("probe: {:?}", darklua_core::verif_hooks::write_string(b"")));
}
