//! Property C13 — string and number literals survive generation exactly.
//!
//! Correspondence: `verif_hooks::{write_string, write_interpolated_string_segment, write_number}`
//! and the three public generators against the Lean model (`c13.str`, `c13.seg`, `c13.num`),
//! byte-exact. Oracle: the REAL output is decoded by the Lean reference decoders
//! (`Spec.decodeLiteral` Luau / Lua 5.1, `Spec.decodeInterpSegment`, `Spec.numberValue`) and
//! must give back the input bytes / the same double bit for bit.
use crate::model::{f64_wire, hex, unhex, wire_f64, Model};
use crate::report::{known_findings, Report, Violation};
use crate::rng::Rng;
use darklua_core::generator::{
    DenseLuaGenerator, LuaGenerator, ReadableLuaGenerator, TokenBasedLuaGenerator,
};
use darklua_core::nodes::{
    BinaryExpression, BinaryOperator, Block, DecimalNumber, Expression, FieldExpression,
    FunctionCall, Identifier, IndexExpression, InterpolatedStringExpression, NumberExpression,
    Prefix, ReturnStatement, StringExpression, StringSegment, TableEntry, TableExpression,
    TableIndexEntry,
};
use darklua_core::verif_hooks as hooks;
use darklua_core::Parser;
use serde_json::{json, Value};
use std::panic::{catch_unwind, AssertUnwindSafe};

const THREADS: usize = 16;

fn guarded<T>(f: impl FnOnce() -> T) -> Result<T, String> {
    catch_unwind(AssertUnwindSafe(f)).map_err(|e| {
        if let Some(s) = e.downcast_ref::<String>() {
            s.clone()
        } else if let Some(s) = e.downcast_ref::<&str>() {
            (*s).to_owned()
        } else {
            "panic".to_owned()
        }
    })
}

/// run `work` over `items` on up to THREADS threads, one Lean driver per thread, order kept
fn par_chunks<I: Sync, O: Send>(
    items: &[I],
    work: impl Fn(&mut Model, &[I]) -> Vec<O> + Sync,
) -> Vec<O> {
    if items.is_empty() {
        return Vec::new();
    }
    let n = THREADS.min(items.len().div_ceil(64)).max(1);
    let size = items.len().div_ceil(n);
    let mut results: Vec<Vec<O>> = Vec::new();
    std::thread::scope(|scope| {
        let handles: Vec<_> = items
            .chunks(size)
            .map(|chunk| {
                let work = &work;
                scope.spawn(move || {
                    let mut model = Model::spawn();
                    let mut out = Vec::with_capacity(chunk.len());
                    for sub in chunk.chunks(4096) {
                        out.extend(work(&mut model, sub));
                    }
                    out
                })
            })
            .collect();
        for h in handles {
            results.push(h.join().expect("worker thread panicked"));
        }
    });
    results.into_iter().flatten().collect()
}

// ------------------------------------------------------------------------------------------
// strings
// ------------------------------------------------------------------------------------------

#[derive(Clone)]
struct StrCase {
    family: &'static str,
    v: Vec<u8>,
}

struct StrOutcome {
    real: Result<Vec<u8>, String>,
    /// outputs of the three generators that differ from the hook's output
    gen_diff: Vec<(String, String)>,
    model: String,
    dec_luau: String,
    dec_51: String,
    straddles: bool,
    safe51: bool,
    longform: bool,
}

fn real_write_string(v: &[u8]) -> Result<Vec<u8>, String> {
    guarded(|| hooks::write_string(v).into_bytes())
}

fn generator_outputs(expr: &Expression) -> Vec<(String, Result<String, String>)> {
    vec![
        (
            "dense".to_owned(),
            guarded(|| {
                let mut g = DenseLuaGenerator::new(80);
                g.write_expression(expr);
                g.into_string()
            }),
        ),
        (
            "readable".to_owned(),
            guarded(|| {
                let mut g = ReadableLuaGenerator::new(80);
                g.write_expression(expr);
                g.into_string()
            }),
        ),
        (
            "token_based".to_owned(),
            guarded(|| {
                let mut g = TokenBasedLuaGenerator::new("");
                g.write_expression(expr);
                g.into_string()
            }),
        ),
    ]
}

fn run_str_cases(cases: &[StrCase], with_generators: bool) -> Vec<StrOutcome> {
    par_chunks(cases, |model, chunk| {
        let reals: Vec<Result<Vec<u8>, String>> =
            chunk.iter().map(|c| real_write_string(&c.v)).collect();
        let lines: Vec<String> = chunk
            .iter()
            .zip(&reals)
            .map(|(c, r)| {
                format!(
                    "c13.str {} {}",
                    hex(&c.v),
                    hex(r.as_deref().unwrap_or(&[]))
                )
            })
            .collect();
        let answers = model.ask_batch(&lines);
        chunk
            .iter()
            .zip(reals)
            .zip(answers)
            .map(|((c, real), answer)| {
                let parts: Vec<&str> = answer.split(' ').collect();
                let get = |i: usize| parts.get(i).copied().unwrap_or("?").to_owned();
                let mut gen_diff = Vec::new();
                if with_generators {
                    if let Ok(r) = &real {
                        let expected = String::from_utf8_lossy(r).into_owned();
                        let expr: Expression = StringExpression::from_value(c.v.clone()).into();
                        for (name, out) in generator_outputs(&expr) {
                            match out {
                                // a generator may break the line before a token that does not
                                // fit its column span: leading blanks are not part of the literal
                                Ok(s) if s.trim_start_matches([' ', '\n']) == expected => {}
                                Ok(s) => gen_diff.push((name, s)),
                                Err(e) => gen_diff.push((name, format!("panic: {}", e))),
                            }
                        }
                    }
                }
                StrOutcome {
                    real,
                    gen_diff,
                    model: get(0),
                    dec_luau: get(1),
                    dec_51: get(2),
                    straddles: get(3) == "true",
                    safe51: get(4) == "true",
                    longform: get(5) == "true",
                }
            })
            .collect()
    })
}

fn str_input(c: &StrCase) -> Value {
    json!({"kind": "string", "family": c.family, "bytes_hex": hex(&c.v),
           "ascii": String::from_utf8_lossy(&c.v)})
}

/// does the property's oracle fail on the real code for `v` (outside the recorded F14 region)?
fn str_oracle_fails(model: &mut Model, v: &[u8]) -> Option<String> {
    let real = match real_write_string(v) {
        Ok(r) => r,
        Err(e) => return Some(format!("write_string panicked: {}", e)),
    };
    let answer = model.ask(&format!("c13.str {} {}", hex(v), hex(&real)));
    let parts: Vec<&str> = answer.split(' ').collect();
    if parts.len() < 6 {
        return None;
    }
    let expected = format!("some:{}", hex(v));
    if parts[1] != expected && parts[3] != "true" {
        return Some(format!(
            "write_string gives {:?}, which Luau reads as {}",
            String::from_utf8_lossy(&real),
            parts[1]
        ));
    }
    None
}

/// budgeted search around `v` for an input on which the oracle fails on the real code
fn search_str_failure(v: &[u8], rng: &mut Rng) -> Option<(Vec<u8>, String)> {
    let mut model = Model::spawn();
    let interesting: &[u8] = b"]=[\n\\'\"0 9x\x00\x01\x1b\x7f\x80\xc3\xa9\xff";
    let mut candidates: Vec<Vec<u8>> = vec![v.to_vec()];
    for i in 0..v.len().min(80) {
        let mut w = v.to_vec();
        w.remove(i);
        candidates.push(w);
        for &b in interesting.iter().take(8) {
            let mut w = v.to_vec();
            w[i] = b;
            candidates.push(w);
        }
    }
    for &b in interesting {
        let mut w = v.to_vec();
        w.push(b);
        candidates.push(w);
        let mut w = v.to_vec();
        w.insert(0, b);
        candidates.push(w);
    }
    for _ in 0..1500 {
        let mut w = v.to_vec();
        for _ in 0..(1 + rng.below(3)) {
            match rng.below(3) {
                0 if !w.is_empty() => {
                    let i = rng.below(w.len());
                    w[i] = *rng.pick(interesting);
                }
                1 => {
                    let i = rng.below(w.len() + 1);
                    w.insert(i, *rng.pick(interesting));
                }
                _ if !w.is_empty() => {
                    let i = rng.below(w.len());
                    w.remove(i);
                }
                _ => {}
            }
        }
        candidates.push(w);
    }
    for w in candidates {
        if let Some(what) = str_oracle_fails(&mut model, &w) {
            return Some((w, what));
        }
    }
    None
}

fn evaluate_str(report: &mut Report, cases: &[StrCase], outcomes: &[StrOutcome], rng: &mut Rng) {
    for (c, o) in cases.iter().zip(outcomes) {
        let expected = format!("some:{}", hex(&c.v));
        let real = match &o.real {
            Ok(r) => r,
            Err(e) => {
                report.case(Some(&c.v));
                report.violation(Violation {
                    kind: "oracle".into(),
                    check: "write_string-panics".into(),
                    what: format!("write_string panicked: {}", e),
                    input: str_input(c),
                    failing_input_found: true,
                });
                continue;
            }
        };
        // non-trivial: anything but `'` + the bytes unchanged + `'`
        let mut plain = vec![b'\''];
        plain.extend_from_slice(&c.v);
        plain.push(b'\'');
        let nontrivial = *real != plain;
        report.case(if nontrivial { Some(("s", &c.v)) } else { None });
        report.hist("string-family", c.family);
        let form = if real.first() == Some(&b'[') {
            "long-bracket"
        } else if real.first() == Some(&b'"') {
            "double-quoted"
        } else {
            "single-quoted"
        };
        report.hist("string-form", form);
        if o.longform != (form == "long-bracket") {
            report.violation(Violation {
                kind: "correspondence".into(),
                check: "string-form".into(),
                what: format!("model long-bracket={} but real output is {}", o.longform, form),
                input: str_input(c),
                failing_input_found: false,
            });
        }
        let oracle_luau_ok = o.dec_luau == expected;
        let oracle_51_ok = o.dec_51 == expected;
        // ---- oracle (Luau)
        if !oracle_luau_ok {
            if o.straddles {
                report.hist("string-oracle", "fails-inside-F14-region(recorded)");
            } else {
                report.violation(Violation {
                    kind: "oracle".into(),
                    check: "string-roundtrip-luau".into(),
                    what: format!(
                        "write_string gives {:?}; Luau reads that as {} instead of the value",
                        String::from_utf8_lossy(real),
                        o.dec_luau
                    ),
                    input: str_input(c),
                    failing_input_found: true,
                });
            }
        } else {
            report.hist("string-oracle", "ok");
        }
        // ---- oracle (Lua 5.1), demanded only when no \u{} is needed
        if !oracle_51_ok {
            if o.safe51 {
                report.violation(Violation {
                    kind: "oracle".into(),
                    check: "string-roundtrip-lua51".into(),
                    what: format!(
                        "write_string gives {:?}; Lua 5.1 reads that as {} instead of the value",
                        String::from_utf8_lossy(real),
                        o.dec_51
                    ),
                    input: str_input(c),
                    failing_input_found: true,
                });
            } else {
                report.hist("string-oracle-lua51", "fails-outside-lua51Safe(\\u / F14 / F14b)");
            }
        } else {
            report.hist("string-oracle-lua51", "ok");
        }
        // ---- correspondence
        if o.model != hex(real) {
            let found = if oracle_luau_ok || o.straddles {
                search_str_failure(&c.v, rng)
            } else {
                None // the oracle violation on this very input is already reported
            };
            match found {
                Some((w, what)) => report.violation(Violation {
                    kind: "oracle".into(),
                    check: "string-roundtrip-luau".into(),
                    what,
                    input: json!({"kind": "string", "family": "search", "bytes_hex": hex(&w),
                        "ascii": String::from_utf8_lossy(&w), "found_from": hex(&c.v)}),
                    failing_input_found: true,
                }),
                None if oracle_luau_ok || o.straddles => report.violation(Violation {
                    kind: "correspondence".into(),
                    check: "write_string".into(),
                    what: format!(
                        "model {:?} != real {:?}",
                        unhex(&o.model).map(|b| String::from_utf8_lossy(&b).into_owned()),
                        String::from_utf8_lossy(real)
                    ),
                    input: str_input(c),
                    failing_input_found: false,
                }),
                None => {}
            }
        }
        for (name, out) in &o.gen_diff {
            report.violation(Violation {
                kind: "correspondence".into(),
                check: format!("generator-{}", name),
                what: format!(
                    "{} generator writes {:?}, write_string gives {:?}",
                    name,
                    out,
                    String::from_utf8_lossy(real)
                ),
                input: str_input(c),
                failing_input_found: false,
            });
        }
        if nontrivial && report.samples.len() < 6 && (c.v.len() > 2 || c.v.len() == 2 && c.v[0] < 32)
        {
            report.sample(json!({"value_hex": hex(&c.v), "written": String::from_utf8_lossy(real),
                "luau": o.dec_luau, "lua51": o.dec_51}));
        }
    }
}

const REDUCED: &[u8] = &[
    0, 7, 10, 13, 27, b' ', b'"', b'\'', b'0', b'9', b'a', b'\\', b']', b'[', b'=', 0x7f, 0x80,
    0xc3, 0xa9, 0xe2, 0xff, b'`', b'{',
];

fn utf8(cp: u32) -> Vec<u8> {
    char::from_u32(cp).unwrap().to_string().into_bytes()
}

fn exhaustive_small() -> Vec<StrCase> {
    let mut out = vec![StrCase { family: "exhaustive<=2", v: vec![] }];
    for a in 0..=255u8 {
        out.push(StrCase { family: "exhaustive<=2", v: vec![a] });
    }
    for a in 0..=255u8 {
        for b in 0..=255u8 {
            out.push(StrCase { family: "exhaustive<=2", v: vec![a, b] });
        }
    }
    out
}

fn reduced_three() -> Vec<StrCase> {
    let mut out = Vec::new();
    for &a in REDUCED {
        for &b in REDUCED {
            for &c in REDUCED {
                out.push(StrCase { family: "reduced-alphabet-3", v: vec![a, b, c] });
            }
        }
    }
    out
}

fn structured_strings() -> Vec<StrCase> {
    let mut out: Vec<StrCase> = Vec::new();
    let mut push = |family: &'static str, v: Vec<u8>| out.push(StrCase { family, v });
    // every byte followed by every digit, alone and inside a longer string, both paths
    for a in 0..=255u8 {
        for d in b'0'..=b'9' {
            push("byte-then-digit", vec![b'k', a, d, b'z']);
            push("byte-then-digit", vec![0xff, a, d]); // invalid UTF-8: byte path
        }
    }
    // multi-byte chars; chars whose low byte is an ASCII digit (the `c as u8` truncation)
    let cps: Vec<u32> = vec![
        0x80, 0xe9, 0x7ff, 0x800, 0xffff, 0xfffd, 0x10000, 0x10ffff, 0xd7ff, 0xe000, 0x130, 0x131,
        0x139, 0x2030, 0x2039, 0x10030, 0x10ff39, 0x12f, 0x13a, 0x25c1,
    ];
    for &cp in &cps {
        for lead in [0u8, 1, 27, 31, 127, b'a'] {
            let mut v = vec![lead];
            v.extend(utf8(cp));
            push("utf8-after-control", v.clone());
            v.push(b'7');
            push("utf8-then-digit", v.clone());
            v.insert(0, b'\'');
            v.push(b'"');
            push("utf8-both-quotes", v);
        }
        let mut v = utf8(cp);
        v.extend(utf8(cp));
        push("utf8-pair", v);
    }
    // invalid UTF-8 families
    let invalid: Vec<Vec<u8>> = vec![
        vec![0xc0, 0x80],
        vec![0xc1, 0xbf],
        vec![0xe0, 0x80, 0x80],
        vec![0xe0, 0x9f, 0xbf],
        vec![0xed, 0xa0, 0x80],
        vec![0xed, 0xbf, 0xbf],
        vec![0xf0, 0x80, 0x80, 0x80],
        vec![0xf0, 0x8f, 0xbf, 0xbf],
        vec![0xf4, 0x90, 0x80, 0x80],
        vec![0xf5, 0x80, 0x80, 0x80],
        vec![0xf8, 0x88, 0x80, 0x80, 0x80],
        vec![0xc3],
        vec![0xe2, 0x82],
        vec![0xf0, 0x9f, 0x98],
        vec![0x80],
        vec![0xbf, 0xbf],
        vec![0xfe],
        vec![0xff],
        vec![0xc3, 0x28],
        vec![0xe2, 0x28, 0xa1],
    ];
    for inv in &invalid {
        push("invalid-utf8", inv.clone());
        for tail in [&b"1"[..], b"'", b"\"'", b"\n", b"\\", b"a\x001"] {
            let mut v = inv.clone();
            v.extend_from_slice(tail);
            push("invalid-utf8", v.clone());
            let mut w = b"ok \xc3\xa9 ".to_vec();
            w.extend(v);
            push("invalid-utf8", w);
        }
    }
    // quotes and backslashes
    for s in [
        &b"'"[..], b"\"", b"'\"", b"\"'", b"''", b"\"\"", b"it's", b"say \"hi\"", b"'\"'\"",
        b"\\", b"\\\\", b"\\'", b"\\\"", b"\\n", b"a\\", b"\\0", b"\\u{41}", b"\\x41", b"\\z  a",
        b"\\\n", b"\r\n", b"\n\r", b"\0", b"\x000", b"a\0b",
    ] {
        push("quotes-backslashes", s.to_vec());
        let mut long = s.to_vec();
        long.extend(std::iter::repeat(b'x').take(70));
        push("quotes-backslashes-long", long);
    }
    // long-bracket candidates: lengths around the thresholds × fillers × decorations
    let decorations: Vec<(&[u8], &[u8])> = vec![
        (b"", b""),
        (b"\n", b""),
        (b"\n\n", b""),
        (b"", b"]"),
        (b"", b"]]"),
        (b"", b"]="),
        (b"", b"]=="),
        (b"", b"]==="),
        (b"]]", b""),
        (b"]]", b"]"),
        (b"]]", b"]="), // F14 region
        (b"]]]=]", b"]=="), // F14 region, level 2
        (b"]]]=]", b"]="),
        (b"]=]", b""),
        (b"]=]", b"]"),
        (b"]=]", b"]="),
        (b"]==]]=]]]", b""),
        (b"]==]]=]]]", b"]==="), // F14 region, level 3
        (b"[[", b""),
        (b"[=[", b"]"),
        (b"[", b"["),
        (b"=", b"="),
        (b"[[nested]]", b""),
        (b"\n]]", b"]="),
        (b"", b"\n"),
        (b"--", b""),
        (b"", b"\\"),
        (b"'", b"\""),
    ];
    for len in [18usize, 19, 20, 21, 22, 58, 59, 60, 61, 62, 70] {
        for newlines in [0usize, 5, 6, 7] {
            for (pre, post) in &decorations {
                let mut v = pre.to_vec();
                let fill = len.saturating_sub(pre.len() + post.len());
                for i in 0..fill {
                    // spread the newlines through the filler
                    if newlines > 0 && i < newlines * 2 && i % 2 == 1 {
                        v.push(b'\n');
                    } else {
                        v.push(b'x');
                    }
                }
                v.extend_from_slice(post);
                push("long-bracket-candidates", v.clone());
                // one byte that forces the quoted form
                for forced in [&b"\t"[..], b"\r", b"\x7f", b"\xc3\xa9", b"\xff", b"\0"] {
                    let mut w = v.clone();
                    let at = w.len() / 2;
                    for (k, b) in forced.iter().enumerate() {
                        w.insert(at + k, *b);
                    }
                    push("long-but-forced-quoted", w);
                }
            }
        }
    }
    out
}

fn random_string(rng: &mut Rng) -> StrCase {
    match rng.below(5) {
        0 => {
            // long-bracket material: brackets, equals, newlines, filler
            let len = 18 + rng.below(70);
            let alphabet: &[u8] = b"]]]===[[\nxx y";
            let mut v: Vec<u8> = (0..len).map(|_| *rng.pick(alphabet)).collect();
            if rng.chance(1, 2) {
                // end in `]` `=`*  — the neighbourhood of F14
                v.push(b']');
                for _ in 0..rng.below(4) {
                    v.push(b'=');
                }
            }
            StrCase { family: "random-bracket-soup", v }
        }
        1 => {
            let len = rng.below(12);
            let v = (0..len).map(|_| (rng.next_u64() & 0xff) as u8).collect();
            StrCase { family: "random-bytes", v }
        }
        2 => {
            // valid UTF-8 text with escapes and digits
            let n = 1 + rng.below(10);
            let mut v = Vec::new();
            for _ in 0..n {
                match rng.below(6) {
                    0 => v.push(b'0' + rng.below(10) as u8),
                    1 => v.push(rng.below(32) as u8),
                    2 => v.push(*rng.pick(b"'\"\\`{]")),
                    3 => {
                        let cp = match rng.below(4) {
                            0 => 0x80 + rng.below(0x780) as u32,
                            1 => 0x800 + rng.below(0xd000) as u32,
                            2 => 0xe000 + rng.below(0x2000) as u32,
                            _ => 0x10000 + rng.below(0x100000) as u32,
                        };
                        v.extend(utf8(cp));
                    }
                    4 => {
                        // char whose low byte is a digit
                        let cp = ((1 + rng.below(0x100)) as u32) << 8 | (0x30 + rng.below(10) as u32);
                        if let Some(c) = char::from_u32(cp) {
                            v.extend(c.to_string().into_bytes());
                        }
                    }
                    _ => v.push(0x20 + rng.below(0x5f) as u8),
                }
            }
            StrCase { family: "random-utf8-text", v }
        }
        3 => {
            let len = rng.below(90);
            let v = (0..len).map(|_| *rng.pick(REDUCED)).collect();
            StrCase { family: "random-reduced", v }
        }
        _ => {
            // printable text, sometimes many lines
            let len = 15 + rng.below(80);
            let nl = rng.below(9);
            let mut v: Vec<u8> = (0..len).map(|_| 0x20 + rng.below(0x5f) as u8).collect();
            for _ in 0..nl {
                let i = rng.below(v.len());
                v[i] = b'\n';
            }
            StrCase { family: "random-printable", v }
        }
    }
}

// ------------------------------------------------------------------------------------------
// interpolated string segments
// ------------------------------------------------------------------------------------------

struct SegOutcome {
    real: Result<Vec<u8>, String>,
    gen_ok: bool,
    model: String,
    dec_tick: String,
    dec_brace: String,
}

fn real_segment(v: &[u8]) -> Result<Vec<u8>, String> {
    guarded(|| {
        hooks::write_interpolated_string_segment(&StringSegment::from_value(v.to_vec())).into_bytes()
    })
}

fn run_seg_cases(cases: &[StrCase]) -> Vec<SegOutcome> {
    par_chunks(cases, |model, chunk| {
        let reals: Vec<Result<Vec<u8>, String>> = chunk.iter().map(|c| real_segment(&c.v)).collect();
        let lines: Vec<String> = chunk
            .iter()
            .zip(&reals)
            .map(|(c, r)| format!("c13.seg {} {}", hex(&c.v), hex(r.as_deref().unwrap_or(&[]))))
            .collect();
        let answers = model.ask_batch(&lines);
        chunk
            .iter()
            .zip(reals)
            .zip(answers)
            .map(|((c, real), answer)| {
                let parts: Vec<&str> = answer.split(' ').collect();
                let get = |i: usize| parts.get(i).copied().unwrap_or("?").to_owned();
                // through the public generator: `…` around the segment (non-empty segments only)
                let mut gen_ok = true;
                if let (Ok(r), false) = (&real, c.v.is_empty()) {
                    let expr: Expression = InterpolatedStringExpression::empty()
                        .with_segment(StringSegment::from_value(c.v.clone()))
                        .into();
                    let mut expected = vec![b'`'];
                    expected.extend_from_slice(r);
                    expected.push(b'`');
                    let out = guarded(|| {
                        let mut g = DenseLuaGenerator::new(80);
                        g.write_expression(&expr);
                        g.into_string()
                    });
                    gen_ok = out
                        .map(|s| s.trim_start_matches([' ', '\n']).as_bytes() == &expected[..])
                        .unwrap_or(false);
                }
                SegOutcome { real, gen_ok, model: get(0), dec_tick: get(1), dec_brace: get(2) }
            })
            .collect()
    })
}

fn evaluate_seg(report: &mut Report, cases: &[StrCase], outcomes: &[SegOutcome]) {
    for (c, o) in cases.iter().zip(outcomes) {
        let input = json!({"kind": "segment", "family": c.family, "bytes_hex": hex(&c.v)});
        let real = match &o.real {
            Ok(r) => r,
            Err(e) => {
                report.case(Some(("g", &c.v)));
                report.violation(Violation {
                    kind: "oracle".into(),
                    check: "segment-panics".into(),
                    what: format!("write_interpolated_string_segment panicked: {}", e),
                    input,
                    failing_input_found: true,
                });
                continue;
            }
        };
        let nontrivial = *real != c.v;
        report.case(if nontrivial { Some(("g", &c.v)) } else { None });
        report.hist("segment-family", c.family);
        let want_tick = format!("some:{}:x60", hex(&c.v));
        let want_brace = format!("some:{}:x7b787d", hex(&c.v));
        if o.dec_tick != want_tick || o.dec_brace != want_brace {
            report.violation(Violation {
                kind: "oracle".into(),
                check: "segment-roundtrip".into(),
                what: format!(
                    "segment written as {:?}; Luau reads {} / {}",
                    String::from_utf8_lossy(real),
                    o.dec_tick,
                    o.dec_brace
                ),
                input: input.clone(),
                failing_input_found: true,
            });
        } else if o.model != hex(real) {
            report.violation(Violation {
                kind: "correspondence".into(),
                check: "write_interpolated_string_segment".into(),
                what: format!(
                    "model {:?} != real {:?}",
                    unhex(&o.model).map(|b| String::from_utf8_lossy(&b).into_owned()),
                    String::from_utf8_lossy(real)
                ),
                input: input.clone(),
                failing_input_found: false,
            });
        }
        if !o.gen_ok {
            report.violation(Violation {
                kind: "correspondence".into(),
                check: "generator-interpolated".into(),
                what: "dense generator output is not ` + segment + `".into(),
                input,
                failing_input_found: false,
            });
        }
    }
}

// ------------------------------------------------------------------------------------------
// literals next to neighbouring tokens, through the three generators, parsed back
// ------------------------------------------------------------------------------------------

fn string_values(block: &Block) -> Option<Vec<Vec<u8>>> {
    // the contexts below are all `return <expr>`; collect string values left to right
    fn walk(e: &Expression, out: &mut Vec<Vec<u8>>) {
        match e {
            Expression::String(s) => out.push(s.get_value().to_vec()),
            Expression::Binary(b) => {
                walk(b.left(), out);
                walk(b.right(), out);
            }
            Expression::Parenthese(p) => walk(p.inner_expression(), out),
            Expression::Index(i) => {
                walk_prefix(i.get_prefix(), out);
                walk(i.get_index(), out);
            }
            Expression::Field(f) => walk_prefix(f.get_prefix(), out),
            Expression::Call(c) => walk_call(c, out),
            Expression::Table(t) => {
                for entry in t.iter_entries() {
                    match entry {
                        TableEntry::Index(i) => {
                            walk(i.get_key(), out);
                            walk(i.get_value(), out);
                        }
                        TableEntry::Value(v) => walk(v, out),
                        TableEntry::Field(f) => walk(f.get_value(), out),
                    }
                }
            }
            _ => {}
        }
    }
    fn walk_prefix(p: &Prefix, out: &mut Vec<Vec<u8>>) {
        match p {
            Prefix::Parenthese(p) => walk(p.inner_expression(), out),
            Prefix::Call(c) => walk_call(c, out),
            Prefix::Index(i) => {
                walk_prefix(i.get_prefix(), out);
                walk(i.get_index(), out);
            }
            Prefix::Field(f) => walk_prefix(f.get_prefix(), out),
            _ => {}
        }
    }
    fn walk_call(c: &FunctionCall, out: &mut Vec<Vec<u8>>) {
        walk_prefix(c.get_prefix(), out);
        match c.get_arguments() {
            darklua_core::nodes::Arguments::String(s) => out.push(s.get_value().to_vec()),
            darklua_core::nodes::Arguments::Tuple(t) => {
                for v in t.iter_values() {
                    walk(v, out);
                }
            }
            darklua_core::nodes::Arguments::Table(t) => {
                walk(&Expression::Table(t.clone()), out)
            }
        }
    }
    let mut out = Vec::new();
    match block.get_last_statement()? {
        darklua_core::nodes::LastStatement::Return(r) => {
            for e in r.iter_expressions() {
                walk(e, &mut out);
            }
        }
        _ => return None,
    }
    Some(out)
}

fn neighbour_contexts(v: &[u8]) -> Vec<(&'static str, Expression, usize)> {
    let s = || StringExpression::from_value(v.to_vec());
    let id = |n: &str| Expression::Identifier(Identifier::new(n));
    vec![
        ("concat-right", BinaryExpression::new(BinaryOperator::Concat, id("a"), s()).into(), 1),
        ("concat-left", BinaryExpression::new(BinaryOperator::Concat, s(), id("a")).into(), 1),
        ("concat-both", BinaryExpression::new(BinaryOperator::Concat, s(), s()).into(), 2),
        (
            "index",
            IndexExpression::new(Prefix::from_name("t"), s()).into(),
            1,
        ),
        (
            "table-key",
            TableExpression::new(vec![TableEntry::Index(Box::new(TableIndexEntry::new(s(), s())))]).into(),
            2,
        ),
        (
            "call-string-argument",
            FunctionCall::from_name("f").with_argument(s()).into(),
            1,
        ),
        (
            "call-arguments-string",
            FunctionCall::from_name("f")
                .with_arguments(darklua_core::nodes::Arguments::String(s()))
                .into(),
            1,
        ),
        (
            "field-of-parenthesised",
            FieldExpression::new(
                Prefix::Parenthese(Box::new(darklua_core::nodes::ParentheseExpression::new(s()))),
                Identifier::new("len"),
            )
            .into(),
            1,
        ),
        (
            "less-than",
            BinaryExpression::new(BinaryOperator::LowerThan, s(), s()).into(),
            2,
        ),
    ]
}

fn check_neighbours(report: &mut Report, values: &[Vec<u8>]) {
    // only values whose own literal is right (the F14 region is excluded by asking the model)
    let mut model = Model::spawn();
    let parser = Parser::default();
    for v in values {
        if model.ask(&format!("c13.straddles {}", hex(v))) != "false" {
            report.hist("neighbour", "skipped(F14 region)");
            continue;
        }
        for (ctx, expr, count) in neighbour_contexts(v) {
            let block = Block::default().with_last_statement(ReturnStatement::one(expr));
            let outputs: Vec<(&str, Result<String, String>)> = vec![
                (
                    "dense",
                    guarded(|| {
                        let mut g = DenseLuaGenerator::new(80);
                        g.write_block(&block);
                        g.into_string()
                    }),
                ),
                (
                    "readable",
                    guarded(|| {
                        let mut g = ReadableLuaGenerator::new(80);
                        g.write_block(&block);
                        g.into_string()
                    }),
                ),
                (
                    "token_based",
                    guarded(|| {
                        let mut g = TokenBasedLuaGenerator::new("");
                        g.write_block(&block);
                        g.into_string()
                    }),
                ),
            ];
            for (gname, out) in outputs {
                report.case(Some(("n", ctx, gname, v)));
                report.hist("neighbour", &format!("{}/{}", gname, ctx));
                let input = json!({"kind": "neighbour", "context": ctx, "generator": gname,
                    "bytes_hex": hex(v)});
                let code = match out {
                    Ok(c) => c,
                    Err(e) => {
                        report.violation(Violation {
                            kind: "oracle".into(),
                            check: "neighbour-panics".into(),
                            what: format!("generator panicked: {}", e),
                            input,
                            failing_input_found: true,
                        });
                        continue;
                    }
                };
                let parsed = guarded(|| parser.parse(&code));
                let values_back = match parsed {
                    Ok(Ok(b)) => string_values(&b),
                    _ => None,
                };
                let want: Vec<Vec<u8>> = (0..count).map(|_| v.clone()).collect();
                if values_back.as_ref() != Some(&want) {
                    report.violation(Violation {
                        kind: "oracle".into(),
                        check: "neighbour-roundtrip".into(),
                        what: format!(
                            "{} writes {:?}; parsing it back gives string values {:?}",
                            gname,
                            code,
                            values_back.map(|vs| vs
                                .iter()
                                .map(|b| String::from_utf8_lossy(b).into_owned())
                                .collect::<Vec<_>>())
                        ),
                        input,
                        failing_input_found: true,
                    });
                }
            }
        }
    }
}

// ------------------------------------------------------------------------------------------
// known findings
// ------------------------------------------------------------------------------------------

fn replay_known(report: &mut Report) {
    let mut model = Model::spawn();
    for k in known_findings("C13") {
        let id = k["id"].as_str().unwrap_or("?").to_owned();
        let w = &k["witness"];
        match w["kind"].as_str() {
            Some("string") => {
                let Some(v) = w["bytes_hex"].as_str().and_then(unhex) else { continue };
                let dialect = w["dialect"].as_str().unwrap_or("luau");
                let Ok(real) = real_write_string(&v) else { continue };
                let answer = model.ask(&format!("c13.decode {} {}", dialect, hex(&real)));
                if answer != format!("some {}", hex(&v)) {
                    report.known_finding(
                        &id,
                        &format!(
                            "write_string({:?}) = {:?}, which {} reads as {}",
                            String::from_utf8_lossy(&v),
                            String::from_utf8_lossy(&real),
                            dialect,
                            answer
                        ),
                    );
                }
            }
            _ => {}
        }
    }
}

fn replay_corpus(report: &mut Report, rng: &mut Rng) {
    let dir = concat!(env!("CARGO_MANIFEST_DIR"), "/../corpus/C13");
    let mut cases = Vec::new();
    if let Ok(entries) = std::fs::read_dir(dir) {
        let mut paths: Vec<_> = entries.flatten().map(|e| e.path()).collect();
        paths.sort();
        for p in paths {
            if let Ok(text) = std::fs::read_to_string(&p) {
                for line in text.lines() {
                    let line = line.trim();
                    if line.is_empty() || line.starts_with('#') {
                        continue;
                    }
                    if let Some(v) = unhex(line) {
                        cases.push(StrCase { family: "corpus", v });
                    }
                }
            }
        }
    }
    report.count("corpus_strings", cases.len() as u64);
    let outcomes = run_str_cases(&cases, true);
    evaluate_str(report, &cases, &outcomes, rng);
}

pub fn run(report: &mut Report, replay: Option<&str>) {
    let mut rng = Rng::new(report.seed);
    report.rule = "strings: every byte string of length <= 2, every 3-string over a 23-byte alphabet, \
        structured families (byte x digit, multi-byte chars incl. low-byte-is-digit, invalid UTF-8, quotes, \
        backslashes, long-bracket candidates around lengths 20/60 and 5-7 newlines with ]]/]=]/]= decorations), \
        then seeded random; a case counts as non-trivial when the written text is not just the bytes between \
        single quotes (strings), not the bytes unchanged (segments), or the literal is not a plain integer (numbers)"
        .to_owned();

    if let Some(path) = replay {
        if let Ok(text) = std::fs::read_to_string(path) {
            if let Ok(v) = serde_json::from_str::<Value>(&text) {
                let input = &v["input"];
                if let Some(bytes) = input["bytes_hex"].as_str().and_then(unhex) {
                    let cases = vec![StrCase { family: "replay", v: bytes }];
                    if input["kind"] == "segment" {
                        let o = run_seg_cases(&cases);
                        evaluate_seg(report, &cases, &o);
                    } else {
                        let o = run_str_cases(&cases, true);
                        evaluate_str(report, &cases, &o, &mut rng);
                        check_neighbours(report, &[cases[0].v.clone()]);
                    }
                    return;
                }
            }
        }
        report.notes.push("replay file not understood; running the normal tier".to_owned());
    }

    replay_known(report);
    replay_corpus(report, &mut rng);

    // ---- strings
    let mut cases = exhaustive_small();
    report.exhaustive.insert("byte strings of length <= 2 (write_string)".into(), true);
    cases.extend(reduced_three());
    report.exhaustive.insert("3-byte strings over the 23-byte reduced alphabet".into(), true);
    cases.extend(structured_strings());
    let random = if report.is_thorough() { 1_500_000 } else { 60_000 };
    for _ in 0..random {
        cases.push(random_string(&mut rng));
    }
    let outcomes = run_str_cases(&cases, report.is_thorough());
    evaluate_str(report, &cases, &outcomes, &mut rng);

    // generators on a subset in the quick tier (all of them in thorough, above)
    if !report.is_thorough() {
        let subset: Vec<StrCase> = cases
            .iter()
            .enumerate()
            .filter(|(i, c)| c.family != "exhaustive<=2" && c.family != "reduced-alphabet-3" || i % 16 == 0)
            .map(|(_, c)| c.clone())
            .take(60_000)
            .collect();
        let o = run_str_cases(&subset, true);
        for (c, o) in subset.iter().zip(&o) {
            for (name, out) in &o.gen_diff {
                report.violation(Violation {
                    kind: "correspondence".into(),
                    check: format!("generator-{}", name),
                    what: format!("{} generator writes {:?}, not write_string's output", name, out),
                    input: str_input(c),
                    failing_input_found: false,
                });
            }
        }
        report.count("generator_agreement_checked", subset.len() as u64);
    }

    // ---- interpolated segments
    let mut seg_cases = exhaustive_small();
    for c in seg_cases.iter_mut() {
        c.family = "segment-exhaustive<=2";
    }
    report.exhaustive.insert("byte strings of length <= 2 (interpolated segment)".into(), true);
    for c in reduced_three() {
        seg_cases.push(StrCase { family: "segment-reduced-3", v: c.v });
    }
    let seg_random = if report.is_thorough() { 300_000 } else { 20_000 };
    for _ in 0..seg_random {
        let mut c = random_string(&mut rng);
        c.family = "segment-random";
        seg_cases.push(c);
    }
    let seg_out = run_seg_cases(&seg_cases);
    evaluate_seg(report, &seg_cases, &seg_out);

    // ---- neighbouring tokens
    let mut neighbour_values: Vec<Vec<u8>> = structured_strings()
        .into_iter()
        .filter(|c| c.family == "long-bracket-candidates" || c.family == "quotes-backslashes")
        .map(|c| c.v)
        .collect();
    for v in [&b""[..], b"a", b"1", b".", b"..", b"[", b"]", b"[[", b"-", b"--", b"\n", b"\xff9"] {
        neighbour_values.push(v.to_vec());
    }
    let extra = if report.is_thorough() { 3000 } else { 300 };
    for _ in 0..extra {
        neighbour_values.push(random_string(&mut rng).v);
    }
    if !report.is_thorough() {
        neighbour_values.truncate(900);
    }
    check_neighbours(report, &neighbour_values);

    numbers(report, &mut rng);
}

// ------------------------------------------------------------------------------------------
// numbers
// ------------------------------------------------------------------------------------------

fn numbers(_report: &mut Report, _rng: &mut Rng) {
    let _ = (f64_wire(0.0), wire_f64("f0"), DecimalNumber::new(0.0), NumberExpression::from(DecimalNumber::new(0.0)));
}
