//! Property C13 — string and number literals survive generation exactly.
//!
//! Correspondence: `verif_hooks::{write_string, write_interpolated_string_segment, write_number}`
//! and the three public generators against the Lean model (`c13.str`, `c13.seg`, `c13.num`),
//! byte-exact. Oracle: the REAL output is decoded by the Lean reference decoders
//! (`Spec.decodeLiteral` Luau / Lua 5.1, `Spec.decodeInterpSegment`, `Spec.numberValue`) and
//! must give back the input bytes / the same double bit for bit.
use crate::model::{f64_wire, hex, unhex, wire_f64, Model};
use crate::report::{known_findings, Report, Violation};
use crate::rng::Rng;
use darklua_core::generator::{
    DenseLuaGenerator, LuaGenerator, ReadableLuaGenerator, TokenBasedLuaGenerator,
};
use darklua_core::nodes::{
    BinaryExpression, BinaryOperator, Block, DecimalNumber, Expression, FieldExpression,
    FunctionCall, Identifier, IndexExpression, InterpolatedStringExpression, NumberExpression,
    Prefix, ReturnStatement, StringExpression, StringSegment, TableEntry, TableExpression,
    TableIndexEntry,
};
use darklua_core::verif_hooks as hooks;
use darklua_core::Parser;
use serde_json::{json, Value};
use std::panic::{catch_unwind, AssertUnwindSafe};

const THREADS: usize = 16;

fn guarded<T>(f: impl FnOnce() -> T) -> Result<T, String> {
    catch_unwind(AssertUnwindSafe(f)).map_err(|e| {
        if let Some(s) = e.downcast_ref::<String>() {
            s.clone()
        } else if let Some(s) = e.downcast_ref::<&str>() {
            (*s).to_owned()
        } else {
            "panic".to_owned()
        }
    })
}

/// run `work` over `items` on up to THREADS threads, one Lean driver per thread, order kept
fn par_chunks<I: Sync, O: Send>(
    items: &[I],
    work: impl Fn(&mut Model, &[I]) -> Vec<O> + Sync,
) -> Vec<O> {
    if items.is_empty() {
        return Vec::new();
    }
    let n = THREADS.min(items.len().div_ceil(64)).max(1);
    let size = items.len().div_ceil(n);
    let mut results: Vec<Vec<O>> = Vec::new();
    std::thread::scope(|scope| {
        let handles: Vec<_> = items
            .chunks(size)
            .map(|chunk| {
                let work = &work;
                scope.spawn(move || {
                    let mut model = Model::spawn();
                    let mut out = Vec::with_capacity(chunk.len());
                    for sub in chunk.chunks(4096) {
                        out.extend(work(&mut model, sub));
                    }
                    out
                })
            })
            .collect();
        for h in handles {
            results.push(h.join().expect("worker thread panicked"));
        }
    });
    results.into_iter().flatten().collect()
}

// ------------------------------------------------------------------------------------------
// strings
// ------------------------------------------------------------------------------------------

#[derive(Clone)]
struct StrCase {
    family: &'static str,
    v: Vec<u8>,
}

struct StrOutcome {
    real: Result<Vec<u8>, String>,
    /// outputs of the three generators that differ from the hook's output
    gen_diff: Vec<(String, String, bool, String)>,
    model: String,
    dec_luau: String,
    dec_51: String,
    safe51: bool,
    longform: bool,
}

fn real_write_string(v: &[u8]) -> Result<Vec<u8>, String> {
    guarded(|| hooks::write_string(v).into_bytes())
}

/// the column spans the generators are exercised at (the first one is used for every case,
/// the others on a sample): wide, narrower than most literals, and degenerate
const SPANS: [usize; 3] = [80, 20, 3];

fn generator_outputs_at(expr: &Expression, span: usize) -> Vec<(String, Result<String, String>)> {
    let mut out = vec![
        (
            format!("dense@{}", span),
            guarded(|| {
                let mut g = DenseLuaGenerator::new(span);
                g.write_expression(expr);
                g.into_string()
            }),
        ),
        (
            format!("readable@{}", span),
            guarded(|| {
                let mut g = ReadableLuaGenerator::new(span);
                g.write_expression(expr);
                g.into_string()
            }),
        ),
    ];
    if span == SPANS[0] {
        out.push((
            "token_based".to_owned(),
            guarded(|| {
                let mut g = TokenBasedLuaGenerator::new("");
                g.write_expression(expr);
                g.into_string()
            }),
        ));
    }
    out
}

fn generator_outputs(expr: &Expression) -> Vec<(String, Result<String, String>)> {
    generator_outputs_at(expr, SPANS[0])
        .into_iter()
        .map(|(name, out)| (name.split('@').next().unwrap().to_owned(), out))
        .collect()
}

/// blanks a generator may put before/inside a piece for layout
fn strip_layout(s: &str) -> String {
    s.chars().filter(|c| *c != ' ' && *c != '\n').collect()
}

fn run_str_cases(cases: &[StrCase], with_generators: bool) -> Vec<StrOutcome> {
    par_chunks(cases, |model, chunk| {
        let reals: Vec<Result<Vec<u8>, String>> =
            chunk.iter().map(|c| real_write_string(&c.v)).collect();
        let lines: Vec<String> = chunk
            .iter()
            .zip(&reals)
            .map(|(c, r)| {
                format!(
                    "c13.str {} {}",
                    hex(&c.v),
                    hex(r.as_deref().unwrap_or(&[]))
                )
            })
            .collect();
        let answers = model.ask_batch(&lines);
        chunk
            .iter()
            .zip(reals)
            .zip(answers)
            .map(|((c, real), answer)| {
                let parts: Vec<&str> = answer.split(' ').collect();
                let get = |i: usize| parts.get(i).copied().unwrap_or("?").to_owned();
                let mut gen_diff = Vec::new();
                if with_generators {
                    if let Ok(r) = &real {
                        let expected = String::from_utf8_lossy(r).into_owned();
                        let expr: Expression = StringExpression::from_value(c.v.clone()).into();
                        let mut outs = generator_outputs(&expr);
                        if c.v.len() % 8 == 3 || c.family == "corpus" {
                            outs.extend(generator_outputs_at(&expr, SPANS[1]));
                            outs.extend(generator_outputs_at(&expr, SPANS[2]));
                        }
                        for (name, out) in outs {
                            match out {
                                // a generator may break the line before a token that does not
                                // fit its column span: leading blanks are not part of the literal
                                Ok(s) if s.trim_start_matches([' ', '\n']) == expected => {}
                                Ok(s) => {
                                    // the generator's own entry point wrote something else: does
                                    // it still denote the value? (oracle on ITS text)
                                    let text = s.trim_start_matches([' ', '\n']).as_bytes().to_vec();
                                    let decoded = model.ask(&format!("c13.decode luau {}", hex(&text)));
                                    let ok = decoded == format!("some {}", hex(&c.v));
                                    gen_diff.push((name, s, ok, decoded));
                                }
                                Err(e) => gen_diff.push((name, format!("panic: {}", e), false, "panic".into())),
                            }
                        }
                    }
                }
                StrOutcome {
                    real,
                    gen_diff,
                    model: get(0),
                    dec_luau: get(1),
                    dec_51: get(2),
                    safe51: get(3) == "true",
                    longform: get(4) == "true",
                }
            })
            .collect()
    })
}

/// a generator wrote, for a string node, something else than `utils::write_string`
fn report_generator_string(report: &mut Report, c: &StrCase, name: &str, out: &str, denotes_value: bool, decoded: &str, real: &[u8]) {
    let gname = name.split('@').next().unwrap_or(name);
    if denotes_value {
        report.violation(Violation {
            kind: "correspondence".into(),
            check: format!("generator-{}", gname),
            what: format!("{} writes {:?}, write_string gives {:?} (both denote the value)", name, out, String::from_utf8_lossy(real)),
            input: str_input(c),
            failing_input_found: false,
        });
    } else {
        report.violation(Violation {
            kind: "oracle".into(),
            check: format!("generator-string-roundtrip-{}", gname),
            what: format!("{} writes the string as {:?}, which Luau reads as {}", name, out, decoded),
            input: str_input(c),
            failing_input_found: true,
        });
    }
}

fn str_input(c: &StrCase) -> Value {
    json!({"kind": "string", "family": c.family, "bytes_hex": hex(&c.v),
           "ascii": String::from_utf8_lossy(&c.v)})
}

/// does the property's oracle fail on the real code for `v`?
fn str_oracle_fails(model: &mut Model, v: &[u8]) -> Option<String> {
    let real = match real_write_string(v) {
        Ok(r) => r,
        Err(e) => return Some(format!("write_string panicked: {}", e)),
    };
    let answer = model.ask(&format!("c13.str {} {}", hex(v), hex(&real)));
    let parts: Vec<&str> = answer.split(' ').collect();
    if parts.len() < 5 {
        return None;
    }
    let expected = format!("some:{}", hex(v));
    if parts[1] != expected {
        return Some(format!(
            "write_string gives {:?}, which Luau reads as {}",
            String::from_utf8_lossy(&real),
            parts[1]
        ));
    }
    None
}

/// budgeted search around `v` for an input on which the oracle fails on the real code
fn search_str_failure(v: &[u8], rng: &mut Rng) -> Option<(Vec<u8>, String)> {
    let mut model = Model::spawn();
    let interesting: &[u8] = b"]=[\n\\'\"0 9x\x00\x01\x1b\x7f\x80\xc3\xa9\xff";
    let mut candidates: Vec<Vec<u8>> = vec![v.to_vec()];
    for i in 0..v.len().min(80) {
        let mut w = v.to_vec();
        w.remove(i);
        candidates.push(w);
        for &b in interesting.iter().take(8) {
            let mut w = v.to_vec();
            w[i] = b;
            candidates.push(w);
        }
    }
    for &b in interesting {
        let mut w = v.to_vec();
        w.push(b);
        candidates.push(w);
        let mut w = v.to_vec();
        w.insert(0, b);
        candidates.push(w);
    }
    for _ in 0..1500 {
        let mut w = v.to_vec();
        for _ in 0..(1 + rng.below(3)) {
            match rng.below(3) {
                0 if !w.is_empty() => {
                    let i = rng.below(w.len());
                    w[i] = *rng.pick(interesting);
                }
                1 => {
                    let i = rng.below(w.len() + 1);
                    w.insert(i, *rng.pick(interesting));
                }
                _ if !w.is_empty() => {
                    let i = rng.below(w.len());
                    w.remove(i);
                }
                _ => {}
            }
        }
        candidates.push(w);
    }
    for w in candidates {
        if let Some(what) = str_oracle_fails(&mut model, &w) {
            return Some((w, what));
        }
    }
    None
}

fn evaluate_str(report: &mut Report, cases: &[StrCase], outcomes: &[StrOutcome], rng: &mut Rng) {
    for (c, o) in cases.iter().zip(outcomes) {
        let expected = format!("some:{}", hex(&c.v));
        let real = match &o.real {
            Ok(r) => r,
            Err(e) => {
                report.case(Some(&c.v));
                report.violation(Violation {
                    kind: "oracle".into(),
                    check: "write_string-panics".into(),
                    what: format!("write_string panicked: {}", e),
                    input: str_input(c),
                    failing_input_found: true,
                });
                continue;
            }
        };
        // non-trivial: anything but `'` + the bytes unchanged + `'`
        let mut plain = vec![b'\''];
        plain.extend_from_slice(&c.v);
        plain.push(b'\'');
        let nontrivial = *real != plain;
        report.case(if nontrivial { Some(("s", &c.v)) } else { None });
        report.hist("string-family", c.family);
        let form = if real.first() == Some(&b'[') {
            "long-bracket"
        } else if real.first() == Some(&b'"') {
            "double-quoted"
        } else {
            "single-quoted"
        };
        report.hist("string-form", form);
        if o.longform != (form == "long-bracket") {
            report.violation(Violation {
                kind: "correspondence".into(),
                check: "string-form".into(),
                what: format!("model long-bracket={} but real output is {}", o.longform, form),
                input: str_input(c),
                failing_input_found: false,
            });
        }
        let oracle_luau_ok = o.dec_luau == expected;
        let oracle_51_ok = o.dec_51 == expected;
        // ---- oracle (Luau)
        if !oracle_luau_ok {
            {
                report.violation(Violation {
                    kind: "oracle".into(),
                    check: "string-roundtrip-luau".into(),
                    what: format!(
                        "write_string gives {:?}; Luau reads that as {} instead of the value",
                        String::from_utf8_lossy(real),
                        o.dec_luau
                    ),
                    input: str_input(c),
                    failing_input_found: true,
                });
            }
        } else {
            report.hist("string-oracle", "ok");
        }
        // ---- oracle (Lua 5.1), demanded only when no \u{} is needed
        if !oracle_51_ok {
            if o.safe51 {
                report.violation(Violation {
                    kind: "oracle".into(),
                    check: "string-roundtrip-lua51".into(),
                    what: format!(
                        "write_string gives {:?}; Lua 5.1 reads that as {} instead of the value",
                        String::from_utf8_lossy(real),
                        o.dec_51
                    ),
                    input: str_input(c),
                    failing_input_found: true,
                });
            } else {
                report.hist("string-oracle-lua51", "fails-outside-lua51Safe(needs \\u{})");
            }
        } else {
            report.hist("string-oracle-lua51", "ok");
        }
        // ---- correspondence
        if o.model != hex(real) {
            // budgeted: a systematic break shows up on thousands of inputs; search around the
            // first few only
            let searches = report.counters.get("correspondence_searches").copied().unwrap_or(0);
            let found = if oracle_luau_ok && searches < 4 {
                report.count("correspondence_searches", 1);
                search_str_failure(&c.v, rng)
            } else {
                None // the oracle violation on this very input is already reported
            };
            match found {
                Some((w, what)) => report.violation(Violation {
                    kind: "oracle".into(),
                    check: "string-roundtrip-luau".into(),
                    what,
                    input: json!({"kind": "string", "family": "search", "bytes_hex": hex(&w),
                        "ascii": String::from_utf8_lossy(&w), "found_from": hex(&c.v)}),
                    failing_input_found: true,
                }),
                None if oracle_luau_ok => report.violation(Violation {
                    kind: "correspondence".into(),
                    check: "write_string".into(),
                    what: format!(
                        "model {:?} != real {:?}",
                        unhex(&o.model).map(|b| String::from_utf8_lossy(&b).into_owned()),
                        String::from_utf8_lossy(real)
                    ),
                    input: str_input(c),
                    failing_input_found: false,
                }),
                None => {}
            }
        }
        for (name, out, denotes_value, decoded) in &o.gen_diff {
            report_generator_string(report, c, name, out, *denotes_value, decoded, real);
        }
        if nontrivial && report.samples.len() < 6 && (c.v.len() > 2 || c.v.len() == 2 && c.v[0] < 32)
        {
            report.sample(json!({"value_hex": hex(&c.v), "written": String::from_utf8_lossy(real),
                "luau": o.dec_luau, "lua51": o.dec_51}));
        }
    }
}

const REDUCED: &[u8] = &[
    0, 7, 10, 13, 27, b' ', b'"', b'\'', b'0', b'9', b'a', b'\\', b']', b'[', b'=', 0x7f, 0x80,
    0xc3, 0xa9, 0xe2, 0xff, b'`', b'{',
];

fn utf8(cp: u32) -> Vec<u8> {
    char::from_u32(cp).unwrap().to_string().into_bytes()
}

fn exhaustive_small() -> Vec<StrCase> {
    let mut out = vec![StrCase { family: "exhaustive<=2", v: vec![] }];
    for a in 0..=255u8 {
        out.push(StrCase { family: "exhaustive<=2", v: vec![a] });
    }
    for a in 0..=255u8 {
        for b in 0..=255u8 {
            out.push(StrCase { family: "exhaustive<=2", v: vec![a, b] });
        }
    }
    out
}

fn reduced_three() -> Vec<StrCase> {
    let mut out = Vec::new();
    for &a in REDUCED {
        for &b in REDUCED {
            for &c in REDUCED {
                out.push(StrCase { family: "reduced-alphabet-3", v: vec![a, b, c] });
            }
        }
    }
    out
}

fn structured_strings() -> Vec<StrCase> {
    let mut out: Vec<StrCase> = Vec::new();
    let mut push = |family: &'static str, v: Vec<u8>| out.push(StrCase { family, v });
    // every byte followed by every digit, alone and inside a longer string, both paths
    for a in 0..=255u8 {
        for d in b'0'..=b'9' {
            push("byte-then-digit", vec![b'k', a, d, b'z']);
            push("byte-then-digit", vec![0xff, a, d]); // invalid UTF-8: byte path
        }
    }
    // multi-byte chars; chars whose low byte is an ASCII digit (the `c as u8` truncation)
    let cps: Vec<u32> = vec![
        0x80, 0xe9, 0x7ff, 0x800, 0xffff, 0xfffd, 0x10000, 0x10ffff, 0xd7ff, 0xe000, 0x130, 0x131,
        0x139, 0x2030, 0x2039, 0x10030, 0x10ff39, 0x12f, 0x13a, 0x25c1,
    ];
    for &cp in &cps {
        for lead in [0u8, 1, 27, 31, 127, b'a'] {
            let mut v = vec![lead];
            v.extend(utf8(cp));
            push("utf8-after-control", v.clone());
            v.push(b'7');
            push("utf8-then-digit", v.clone());
            v.insert(0, b'\'');
            v.push(b'"');
            push("utf8-both-quotes", v);
        }
        let mut v = utf8(cp);
        v.extend(utf8(cp));
        push("utf8-pair", v);
    }
    // invalid UTF-8 families
    let invalid: Vec<Vec<u8>> = vec![
        vec![0xc0, 0x80],
        vec![0xc1, 0xbf],
        vec![0xe0, 0x80, 0x80],
        vec![0xe0, 0x9f, 0xbf],
        vec![0xed, 0xa0, 0x80],
        vec![0xed, 0xbf, 0xbf],
        vec![0xf0, 0x80, 0x80, 0x80],
        vec![0xf0, 0x8f, 0xbf, 0xbf],
        vec![0xf4, 0x90, 0x80, 0x80],
        vec![0xf5, 0x80, 0x80, 0x80],
        vec![0xf8, 0x88, 0x80, 0x80, 0x80],
        vec![0xc3],
        vec![0xe2, 0x82],
        vec![0xf0, 0x9f, 0x98],
        vec![0x80],
        vec![0xbf, 0xbf],
        vec![0xfe],
        vec![0xff],
        vec![0xc3, 0x28],
        vec![0xe2, 0x28, 0xa1],
    ];
    for inv in &invalid {
        push("invalid-utf8", inv.clone());
        for tail in [&b"1"[..], b"'", b"\"'", b"\n", b"\\", b"a\x001"] {
            let mut v = inv.clone();
            v.extend_from_slice(tail);
            push("invalid-utf8", v.clone());
            let mut w = b"ok \xc3\xa9 ".to_vec();
            w.extend(v);
            push("invalid-utf8", w);
        }
    }
    // quotes and backslashes
    for s in [
        &b"'"[..], b"\"", b"'\"", b"\"'", b"''", b"\"\"", b"it's", b"say \"hi\"", b"'\"'\"",
        b"\\", b"\\\\", b"\\'", b"\\\"", b"\\n", b"a\\", b"\\0", b"\\u{41}", b"\\x41", b"\\z  a",
        b"\\\n", b"\r\n", b"\n\r", b"\0", b"\x000", b"a\0b",
    ] {
        push("quotes-backslashes", s.to_vec());
        let mut long = s.to_vec();
        long.extend(std::iter::repeat(b'x').take(70));
        push("quotes-backslashes-long", long);
    }
    // long-bracket candidates: lengths around the thresholds × fillers × decorations
    let decorations: Vec<(&[u8], &[u8])> = vec![
        (b"", b""),
        (b"\n", b""),
        (b"\n\n", b""),
        (b"", b"]"),
        (b"", b"]]"),
        (b"", b"]="),
        (b"", b"]=="),
        (b"", b"]==="),
        (b"]]", b""),
        (b"]]", b"]"),
        (b"]]", b"]="), // F14 region
        (b"]]]=]", b"]=="), // F14 region, level 2
        (b"]]]=]", b"]="),
        (b"]=]", b""),
        (b"]=]", b"]"),
        (b"]=]", b"]="),
        (b"]==]]=]]]", b""),
        (b"]==]]=]]]", b"]==="), // F14 region, level 3
        (b"[[", b""),
        (b"[=[", b"]"),
        (b"[", b"["),
        (b"=", b"="),
        (b"[[nested]]", b""),
        (b"\n]]", b"]="),
        (b"", b"\n"),
        (b"--", b""),
        (b"", b"\\"),
        (b"'", b"\""),
    ];
    for len in [18usize, 19, 20, 21, 22, 58, 59, 60, 61, 62, 70] {
        for newlines in [0usize, 5, 6, 7] {
            for (pre, post) in &decorations {
                let mut v = pre.to_vec();
                let fill = len.saturating_sub(pre.len() + post.len());
                for i in 0..fill {
                    // spread the newlines through the filler
                    if newlines > 0 && i < newlines * 2 && i % 2 == 1 {
                        v.push(b'\n');
                    } else {
                        v.push(b'x');
                    }
                }
                v.extend_from_slice(post);
                push("long-bracket-candidates", v.clone());
                // the same with a leading line break (the lexers drop the first one, the writer
                // must emit an extra one — on every path, with and without `]` in the value)
                let mut nl = vec![b'\n'];
                nl.extend_from_slice(&v);
                push("long-bracket-leading-newline", nl.clone());
                nl.insert(0, b'\n');
                push("long-bracket-leading-newline", nl);
                // one byte that forces the quoted form
                for forced in [&b"\t"[..], b"\r", b"\x7f", b"\xc3\xa9", b"\xff", b"\0"] {
                    let mut w = v.clone();
                    let at = w.len() / 2;
                    for (k, b) in forced.iter().enumerate() {
                        w.insert(at + k, *b);
                    }
                    push("long-but-forced-quoted", w);
                }
            }
        }
    }
    out
}

fn random_string(rng: &mut Rng) -> StrCase {
    match rng.below(5) {
        0 => {
            // long-bracket material: brackets, equals, newlines, filler
            let len = 18 + rng.below(70);
            let alphabet: &[u8] = b"]]]===[[\nxx y";
            let mut v: Vec<u8> = (0..len).map(|_| *rng.pick(alphabet)).collect();
            if rng.chance(1, 2) {
                // end in `]` `=`*  — the neighbourhood of F14
                v.push(b']');
                for _ in 0..rng.below(4) {
                    v.push(b'=');
                }
            }
            StrCase { family: "random-bracket-soup", v }
        }
        1 => {
            let len = rng.below(12);
            let v = (0..len).map(|_| (rng.next_u64() & 0xff) as u8).collect();
            StrCase { family: "random-bytes", v }
        }
        2 => {
            // valid UTF-8 text with escapes and digits
            let n = 1 + rng.below(10);
            let mut v = Vec::new();
            for _ in 0..n {
                match rng.below(6) {
                    0 => v.push(b'0' + rng.below(10) as u8),
                    1 => v.push(rng.below(32) as u8),
                    2 => v.push(*rng.pick(b"'\"\\`{]")),
                    3 => {
                        let cp = match rng.below(4) {
                            0 => 0x80 + rng.below(0x780) as u32,
                            1 => 0x800 + rng.below(0xd000) as u32,
                            2 => 0xe000 + rng.below(0x2000) as u32,
                            _ => 0x10000 + rng.below(0x100000) as u32,
                        };
                        v.extend(utf8(cp));
                    }
                    4 => {
                        // char whose low byte is a digit
                        let cp = ((1 + rng.below(0x100)) as u32) << 8 | (0x30 + rng.below(10) as u32);
                        if let Some(c) = char::from_u32(cp) {
                            v.extend(c.to_string().into_bytes());
                        }
                    }
                    _ => v.push(0x20 + rng.below(0x5f) as u8),
                }
            }
            StrCase { family: "random-utf8-text", v }
        }
        3 => {
            let len = rng.below(90);
            let v = (0..len).map(|_| *rng.pick(REDUCED)).collect();
            StrCase { family: "random-reduced", v }
        }
        _ => {
            // printable text, sometimes many lines
            let len = 15 + rng.below(80);
            let nl = rng.below(9);
            let mut v: Vec<u8> = (0..len).map(|_| 0x20 + rng.below(0x5f) as u8).collect();
            for _ in 0..nl {
                let i = rng.below(v.len());
                v[i] = b'\n';
            }
            StrCase { family: "random-printable", v }
        }
    }
}

// ------------------------------------------------------------------------------------------
// interpolated string segments
// ------------------------------------------------------------------------------------------

/// one whole interpolated string through one generator
struct InterpResult {
    shape: &'static str,
    generator: String,
    /// real text (leading layout stripped) or panic message
    text: Result<String, String>,
    /// the pieces the reference reads in the real text, `V` texts without blanks
    pieces: String,
    expected: String,
    /// model text, when the expression texts are known in advance
    model_text: Option<String>,
}

struct SegOutcome {
    real: Result<Vec<u8>, String>,
    interp: Vec<InterpResult>,
    model: String,
    dec_tick: String,
    dec_brace: String,
}

fn real_segment(v: &[u8]) -> Result<Vec<u8>, String> {
    guarded(|| {
        hooks::write_interpolated_string_segment(&StringSegment::from_value(v.to_vec())).into_bytes()
    })
}

fn run_seg_cases(cases: &[StrCase]) -> Vec<SegOutcome> {
    par_chunks(cases, |model, chunk| {
        let reals: Vec<Result<Vec<u8>, String>> = chunk.iter().map(|c| real_segment(&c.v)).collect();
        let lines: Vec<String> = chunk
            .iter()
            .zip(&reals)
            .map(|(c, r)| format!("c13.seg {} {}", hex(&c.v), hex(r.as_deref().unwrap_or(&[]))))
            .collect();
        let answers = model.ask_batch(&lines);
        chunk
            .iter()
            .zip(reals)
            .zip(answers)
            .map(|((c, real), answer)| {
                let parts: Vec<&str> = answer.split(' ').collect();
                let get = |i: usize| parts.get(i).copied().unwrap_or("?").to_owned();
                // whole interpolated strings through the three generators' own entry points
                let mut interp = Vec::new();
                if real.is_ok() {
                    let seg = || StringSegment::from_value(c.v.clone());
                    let x = || darklua_core::nodes::ValueSegment::new(Expression::Identifier(Identifier::new("x")));
                    let tbl = || darklua_core::nodes::ValueSegment::new(Expression::Table(TableExpression::new(vec![])));
                    let s_part = if c.v.is_empty() { None } else { Some(format!("S{}", hex(&c.v))) };
                    let join = |items: Vec<Option<String>>| -> String {
                        let v: Vec<String> = items.into_iter().flatten().collect();
                        if v.is_empty() { "-".to_owned() } else { v.join(",") }
                    };
                    let mut shapes: Vec<(&'static str, Expression, String, bool)> = vec![(
                        "segment",
                        InterpolatedStringExpression::empty().with_segment(seg()).into(),
                        join(vec![s_part.clone()]),
                        true,
                    )];
                    let sample = c.v.len() % 4 == 1 || (c.family == "segment-reduced-3" && c.v[0] % 4 == 0);
                    if sample {
                        shapes.push((
                            "segment-value-segment",
                            InterpolatedStringExpression::empty().with_segment(seg()).with_segment(x()).with_segment(seg()).into(),
                            join(vec![s_part.clone(), Some("Vx78".to_owned()), s_part.clone()]),
                            true,
                        ));
                        shapes.push((
                            "table-value-segment",
                            InterpolatedStringExpression::empty().with_segment(tbl()).with_segment(seg()).into(),
                            join(vec![Some("Vx7b7d".to_owned()), s_part.clone()]),
                            false,
                        ));
                    }
                    for (shape, expr, expected, text_known) in shapes {
                        let mut outs = generator_outputs_at(&expr, SPANS[0]);
                        if sample {
                            outs.extend(generator_outputs_at(&expr, SPANS[2]));
                        }
                        for (generator, out) in outs {
                            let text = out.map(|t| t.trim_start_matches([' ', '\n']).to_owned());
                            // the model text is compared at the wide span only (no layout inside `{}`)
                            let compare_text = text_known && generator.ends_with("@80") || generator == "token_based" && text_known;
                            interp.push(InterpResult {
                                shape,
                                generator,
                                text,
                                pieces: String::new(),
                                expected: expected.clone(),
                                model_text: if compare_text { Some(String::new()) } else { None },
                            });
                        }
                    }
                }
                let lines: Vec<String> = interp
                    .iter()
                    .filter_map(|r| r.text.as_ref().ok().map(|t| format!("c13.istr {} {}", r.expected, hex(t.as_bytes()))))
                    .collect();
                let mut answers = model.ask_batch(&lines).into_iter();
                for r in interp.iter_mut() {
                    if r.text.is_err() {
                        r.pieces = "panic".to_owned();
                        r.expected = format!("some:{}", r.expected);
                        continue;
                    }
                    let answer = answers.next().unwrap_or_default();
                    let mut it = answer.split(' ');
                    let m = it.next().unwrap_or("?").to_owned();
                    let p = it.next().unwrap_or("?").to_owned();
                    // blanks inside `{ … }` are layout
                    r.pieces = p
                        .split(',')
                        .map(|item| {
                            if let Some(h) = item.strip_prefix("some:V").or_else(|| item.strip_prefix("V")) {
                                let bytes: Vec<u8> = unhex(h).unwrap_or_default().into_iter().filter(|b| *b != b' ' && *b != b'\n').collect();
                                format!("{}V{}", if item.starts_with("some:") { "some:" } else { "" }, hex(&bytes))
                            } else {
                                item.to_owned()
                            }
                        })
                        .collect::<Vec<_>>()
                        .join(",");
                    if r.model_text.is_some() {
                        r.model_text = Some(m);
                    }
                    r.expected = format!("some:{}", r.expected);
                }
                SegOutcome { real, interp, model: get(0), dec_tick: get(1), dec_brace: get(2) }
            })
            .collect()
    })
}

fn evaluate_seg(report: &mut Report, cases: &[StrCase], outcomes: &[SegOutcome]) {
    for (c, o) in cases.iter().zip(outcomes) {
        let input = json!({"kind": "segment", "family": c.family, "bytes_hex": hex(&c.v)});
        let real = match &o.real {
            Ok(r) => r,
            Err(e) => {
                report.case(Some(("g", &c.v)));
                report.violation(Violation {
                    kind: "oracle".into(),
                    check: "segment-panics".into(),
                    what: format!("write_interpolated_string_segment panicked: {}", e),
                    input,
                    failing_input_found: true,
                });
                continue;
            }
        };
        let nontrivial = *real != c.v;
        report.case(if nontrivial { Some(("g", &c.v)) } else { None });
        report.hist("segment-family", c.family);
        let want_tick = format!("some:{}:x60", hex(&c.v));
        let want_brace = format!("some:{}:x7b787d", hex(&c.v));
        if o.dec_tick != want_tick || o.dec_brace != want_brace {
            report.violation(Violation {
                kind: "oracle".into(),
                check: "segment-roundtrip".into(),
                what: format!(
                    "segment written as {:?}; Luau reads {} / {}",
                    String::from_utf8_lossy(real),
                    o.dec_tick,
                    o.dec_brace
                ),
                input: input.clone(),
                failing_input_found: true,
            });
        } else if o.model != hex(real) {
            report.violation(Violation {
                kind: "correspondence".into(),
                check: "write_interpolated_string_segment".into(),
                what: format!(
                    "model {:?} != real {:?}",
                    unhex(&o.model).map(|b| String::from_utf8_lossy(&b).into_owned()),
                    String::from_utf8_lossy(real)
                ),
                input: input.clone(),
                failing_input_found: false,
            });
        }
        for r in &o.interp {
            let gname = r.generator.split('@').next().unwrap_or(&r.generator);
            report.case(Some(("interp", r.shape, r.generator.as_str(), &c.v)));
            report.hist("interpolated-shape", r.shape);
            let ginput = json!({"kind": "segment", "family": c.family, "bytes_hex": hex(&c.v),
                "shape": r.shape, "generator": r.generator});
            match &r.text {
                Err(e) => report.violation(Violation {
                    kind: "oracle".into(),
                    check: format!("generator-interpolated-panics-{}", gname),
                    what: format!("{} panicked on the interpolated string ({}): {}", r.generator, r.shape, e),
                    input: ginput,
                    failing_input_found: true,
                }),
                Ok(text) if r.pieces != r.expected => report.violation(Violation {
                    kind: "oracle".into(),
                    check: format!("generator-interpolated-roundtrip-{}", gname),
                    what: format!("{} writes {:?}; Luau reads the pieces {} instead of {}", r.generator, text, r.pieces, r.expected),
                    input: ginput,
                    failing_input_found: true,
                }),
                Ok(text) => {
                    if let Some(m) = &r.model_text {
                        // a raw line break is never part of a segment's text: inside `{ }` it is layout
                        if m != &hex(text.replace('\n', "").as_bytes()) {
                            report.violation(Violation {
                                kind: "correspondence".into(),
                                check: format!("generator-interpolated-text-{}", gname),
                                what: format!("{} writes {:?}, model {:?}", r.generator, text, unhex(m).map(|b| String::from_utf8_lossy(&b).into_owned())),
                                input: ginput,
                                failing_input_found: false,
                            });
                        }
                    }
                }
            }
        }
    }
}

// ------------------------------------------------------------------------------------------
// literals next to neighbouring tokens, through the three generators, parsed back
// ------------------------------------------------------------------------------------------

fn string_values(block: &Block) -> Option<Vec<Vec<u8>>> {
    // the contexts below are all `return <expr>`; collect string values left to right
    fn walk(e: &Expression, out: &mut Vec<Vec<u8>>) {
        match e {
            Expression::String(s) => out.push(s.get_value().to_vec()),
            Expression::Binary(b) => {
                walk(b.left(), out);
                walk(b.right(), out);
            }
            Expression::Parenthese(p) => walk(p.inner_expression(), out),
            Expression::Index(i) => {
                walk_prefix(i.get_prefix(), out);
                walk(i.get_index(), out);
            }
            Expression::Field(f) => walk_prefix(f.get_prefix(), out),
            Expression::Call(c) => walk_call(c, out),
            Expression::Table(t) => {
                for entry in t.iter_entries() {
                    match entry {
                        TableEntry::Index(i) => {
                            walk(i.get_key(), out);
                            walk(i.get_value(), out);
                        }
                        TableEntry::Value(v) => walk(v, out),
                        TableEntry::Field(f) => walk(f.get_value(), out),
                    }
                }
            }
            _ => {}
        }
    }
    fn walk_prefix(p: &Prefix, out: &mut Vec<Vec<u8>>) {
        match p {
            Prefix::Parenthese(p) => walk(p.inner_expression(), out),
            Prefix::Call(c) => walk_call(c, out),
            Prefix::Index(i) => {
                walk_prefix(i.get_prefix(), out);
                walk(i.get_index(), out);
            }
            Prefix::Field(f) => walk_prefix(f.get_prefix(), out),
            _ => {}
        }
    }
    fn walk_call(c: &FunctionCall, out: &mut Vec<Vec<u8>>) {
        walk_prefix(c.get_prefix(), out);
        match c.get_arguments() {
            darklua_core::nodes::Arguments::String(s) => out.push(s.get_value().to_vec()),
            darklua_core::nodes::Arguments::Tuple(t) => {
                for v in t.iter_values() {
                    walk(v, out);
                }
            }
            darklua_core::nodes::Arguments::Table(t) => {
                walk(&Expression::Table(t.clone()), out)
            }
        }
    }
    let mut out = Vec::new();
    match block.get_last_statement()? {
        darklua_core::nodes::LastStatement::Return(r) => {
            for e in r.iter_expressions() {
                walk(e, &mut out);
            }
        }
        _ => return None,
    }
    Some(out)
}

fn neighbour_contexts(v: &[u8]) -> Vec<(&'static str, Expression, usize)> {
    let s = || StringExpression::from_value(v.to_vec());
    let id = |n: &str| Expression::Identifier(Identifier::new(n));
    vec![
        ("concat-right", BinaryExpression::new(BinaryOperator::Concat, id("a"), s()).into(), 1),
        ("concat-left", BinaryExpression::new(BinaryOperator::Concat, s(), id("a")).into(), 1),
        ("concat-both", BinaryExpression::new(BinaryOperator::Concat, s(), s()).into(), 2),
        (
            "index",
            IndexExpression::new(Prefix::from_name("t"), s()).into(),
            1,
        ),
        (
            "table-key",
            TableExpression::new(vec![TableEntry::Index(Box::new(TableIndexEntry::new(s(), s())))]).into(),
            2,
        ),
        (
            "call-string-argument",
            FunctionCall::from_name("f").with_argument(s()).into(),
            1,
        ),
        (
            "call-arguments-string",
            FunctionCall::from_name("f")
                .with_arguments(darklua_core::nodes::Arguments::String(s()))
                .into(),
            1,
        ),
        (
            "field-of-parenthesised",
            FieldExpression::new(
                Prefix::Parenthese(Box::new(darklua_core::nodes::ParentheseExpression::new(s()))),
                Identifier::new("len"),
            )
            .into(),
            1,
        ),
        (
            "less-than",
            BinaryExpression::new(BinaryOperator::LowerThan, s(), s()).into(),
            2,
        ),
    ]
}

fn check_neighbours(report: &mut Report, values: &[Vec<u8>]) {
    let parser = Parser::default();
    for v in values {
        for (ctx, expr, count) in neighbour_contexts(v) {
            let block = Block::default().with_last_statement(ReturnStatement::one(expr));
            let outputs: Vec<(&str, Result<String, String>)> = vec![
                (
                    "dense",
                    guarded(|| {
                        let mut g = DenseLuaGenerator::new(80);
                        g.write_block(&block);
                        g.into_string()
                    }),
                ),
                (
                    "readable",
                    guarded(|| {
                        let mut g = ReadableLuaGenerator::new(80);
                        g.write_block(&block);
                        g.into_string()
                    }),
                ),
                (
                    "token_based",
                    guarded(|| {
                        let mut g = TokenBasedLuaGenerator::new("");
                        g.write_block(&block);
                        g.into_string()
                    }),
                ),
            ];
            for (gname, out) in outputs {
                report.case(Some(("n", ctx, gname, v)));
                report.hist("neighbour", &format!("{}/{}", gname, ctx));
                let input = json!({"kind": "neighbour", "context": ctx, "generator": gname,
                    "bytes_hex": hex(v)});
                let code = match out {
                    Ok(c) => c,
                    Err(e) => {
                        report.violation(Violation {
                            kind: "oracle".into(),
                            check: "neighbour-panics".into(),
                            what: format!("generator panicked: {}", e),
                            input,
                            failing_input_found: true,
                        });
                        continue;
                    }
                };
                let parsed = guarded(|| parser.parse(&code));
                let values_back = match parsed {
                    Ok(Ok(b)) => string_values(&b),
                    _ => None,
                };
                let want: Vec<Vec<u8>> = (0..count).map(|_| v.clone()).collect();
                if values_back.as_ref() != Some(&want) {
                    report.violation(Violation {
                        kind: "oracle".into(),
                        check: "neighbour-roundtrip".into(),
                        what: format!(
                            "{} writes {:?}; parsing it back gives string values {:?}",
                            gname,
                            code,
                            values_back.map(|vs| vs
                                .iter()
                                .map(|b| String::from_utf8_lossy(b).into_owned())
                                .collect::<Vec<_>>())
                        ),
                        input,
                        failing_input_found: true,
                    });
                }
            }
        }
    }
}

// ------------------------------------------------------------------------------------------
// known findings
// ------------------------------------------------------------------------------------------

fn replay_known(report: &mut Report) {
    let mut model = Model::spawn();
    for k in known_findings("C13") {
        // a fixed entry excuses nothing: its witness is in corpus/C13 and must pass
        if k["status"] != "known" {
            continue;
        }
        let id = k["id"].as_str().unwrap_or("?").to_owned();
        let w = &k["witness"];
        match w["kind"].as_str() {
            Some("string") => {
                let Some(v) = w["bytes_hex"].as_str().and_then(unhex) else { continue };
                let dialect = w["dialect"].as_str().unwrap_or("luau");
                let Ok(real) = real_write_string(&v) else { continue };
                let answer = model.ask(&format!("c13.decode {} {}", dialect, hex(&real)));
                if answer != format!("some {}", hex(&v)) {
                    report.known_finding(
                        &id,
                        &format!(
                            "write_string({:?}) = {:?}, which {} reads as {}",
                            String::from_utf8_lossy(&v),
                            String::from_utf8_lossy(&real),
                            dialect,
                            answer
                        ),
                    );
                }
            }
            _ => {}
        }
    }
}

fn replay_corpus(report: &mut Report, rng: &mut Rng) {
    let dir = concat!(env!("CARGO_MANIFEST_DIR"), "/../corpus/C13");
    let mut cases = Vec::new();
    if let Ok(entries) = std::fs::read_dir(dir) {
        let mut paths: Vec<_> = entries.flatten().map(|e| e.path()).collect();
        paths.sort();
        for p in paths {
            if let Ok(text) = std::fs::read_to_string(&p) {
                for line in text.lines() {
                    let line = line.trim();
                    if line.is_empty() || line.starts_with('#') {
                        continue;
                    }
                    if let Some(v) = unhex(line) {
                        cases.push(StrCase { family: "corpus", v });
                    }
                }
            }
        }
    }
    report.count("corpus_strings", cases.len() as u64);
    let outcomes = run_str_cases(&cases, true);
    evaluate_str(report, &cases, &outcomes, rng);
}

pub fn run(report: &mut Report, replay: Option<&str>) {
    let mut rng = Rng::new(report.seed);
    report.rule = "strings: every byte string of length <= 2, every 3-string over a 23-byte alphabet, \
        structured families (byte x digit, multi-byte chars incl. low-byte-is-digit, invalid UTF-8, quotes, \
        backslashes, long-bracket candidates around lengths 20/60 and 5-7 newlines with ]]/]=]/]= decorations), \
        then seeded random; a case counts as non-trivial when the written text is not just the bytes between \
        single quotes (strings), not the bytes unchanged (segments), or the literal is not a plain integer (numbers)"
        .to_owned();

    if let Some(path) = replay {
        if let Ok(text) = std::fs::read_to_string(path) {
            if let Ok(v) = serde_json::from_str::<Value>(&text) {
                let input = &v["input"];
                if let Some(bytes) = input["bytes_hex"].as_str().and_then(unhex) {
                    let cases = vec![StrCase { family: "replay", v: bytes }];
                    if input["kind"] == "segment" {
                        let o = run_seg_cases(&cases);
                        evaluate_seg(report, &cases, &o);
                    } else {
                        let o = run_str_cases(&cases, true);
                        evaluate_str(report, &cases, &o, &mut rng);
                        check_neighbours(report, &[cases[0].v.clone()]);
                    }
                    return;
                }
            }
        }
        report.notes.push("replay file not understood; running the normal tier".to_owned());
    }

    replay_known(report);
    replay_corpus(report, &mut rng);

    // ---- strings
    let mut cases = exhaustive_small();
    report.exhaustive.insert("byte strings of length <= 2 (write_string)".into(), true);
    cases.extend(reduced_three());
    report.exhaustive.insert("3-byte strings over the 23-byte reduced alphabet".into(), true);
    cases.extend(structured_strings());
    let random = if report.is_thorough() { 1_500_000 } else { 60_000 };
    for _ in 0..random {
        cases.push(random_string(&mut rng));
    }
    let outcomes = run_str_cases(&cases, report.is_thorough());
    evaluate_str(report, &cases, &outcomes, &mut rng);

    // generators on a subset in the quick tier (all of them in thorough, above)
    if !report.is_thorough() {
        let subset: Vec<StrCase> = cases
            .iter()
            .enumerate()
            .filter(|(i, c)| c.family != "exhaustive<=2" && c.family != "reduced-alphabet-3" || i % 16 == 0)
            .map(|(_, c)| c.clone())
            .take(60_000)
            .collect();
        let o = run_str_cases(&subset, true);
        for (c, o) in subset.iter().zip(&o) {
            if let Ok(real) = &o.real {
                for (name, out, denotes_value, decoded) in &o.gen_diff {
                    report_generator_string(report, c, name, out, *denotes_value, decoded, real);
                }
            }
        }
        report.count("generator_agreement_checked", subset.len() as u64);
    }

    // ---- interpolated segments
    let mut seg_cases = exhaustive_small();
    for c in seg_cases.iter_mut() {
        c.family = "segment-exhaustive<=2";
    }
    report.exhaustive.insert("byte strings of length <= 2 (interpolated segment)".into(), true);
    for c in reduced_three() {
        seg_cases.push(StrCase { family: "segment-reduced-3", v: c.v });
    }
    let seg_random = if report.is_thorough() { 300_000 } else { 20_000 };
    for _ in 0..seg_random {
        let mut c = random_string(&mut rng);
        c.family = "segment-random";
        seg_cases.push(c);
    }
    let seg_out = run_seg_cases(&seg_cases);
    evaluate_seg(report, &seg_cases, &seg_out);

    // ---- an empty literal piece built directly (`push_segment` drops them, `new` does not)
    {
        let expr: Expression = InterpolatedStringExpression::new(vec![
            StringSegment::from_value(Vec::<u8>::new()).into(),
            darklua_core::nodes::ValueSegment::new(Expression::Identifier(Identifier::new("x"))).into(),
        ])
        .into();
        for (name, out) in generator_outputs(&expr) {
            match out {
                Ok(t) if strip_layout(&t) == "`{x}`" => {}
                Ok(t) => report.notes.push(format!("{} writes an interpolated string with an empty literal piece as {:?}", name, t)),
                Err(e) => report.notes.push(format!("observation: {} panics on an interpolated string holding an EMPTY literal piece (only constructible through InterpolatedStringExpression::new, not by the parser or push_segment): {}", name, e)),
            }
        }
    }

    // ---- neighbouring tokens
    let mut neighbour_values: Vec<Vec<u8>> = structured_strings()
        .into_iter()
        .filter(|c| c.family == "long-bracket-candidates" || c.family == "quotes-backslashes")
        .map(|c| c.v)
        .collect();
    for v in [&b""[..], b"a", b"1", b".", b"..", b"[", b"]", b"[[", b"-", b"--", b"\n", b"\xff9"] {
        neighbour_values.push(v.to_vec());
    }
    let extra = if report.is_thorough() { 3000 } else { 300 };
    for _ in 0..extra {
        neighbour_values.push(random_string(&mut rng).v);
    }
    if !report.is_thorough() {
        neighbour_values.truncate(900);
    }
    check_neighbours(report, &neighbour_values);

    numbers(report, &mut rng);
}

// ------------------------------------------------------------------------------------------
// numbers
// ------------------------------------------------------------------------------------------

#[derive(Clone, Debug)]
struct NumCase {
    family: &'static str,
    lit: NumberExpression,
}

fn ul(b: bool) -> &'static str {
    if b { "u" } else { "l" }
}

fn lit_wire(n: &NumberExpression) -> String {
    match n {
        NumberExpression::Decimal(d) => match (d.get_exponent(), d.is_uppercase()) {
            (Some(e), Some(u)) => format!("d:{}:{}:{}", f64_wire(d.compute_value()), e, ul(u)),
            _ => format!("d:{}:n:l", f64_wire(d.compute_value())),
        },
        NumberExpression::Hex(h) => match (h.get_exponent(), h.is_exponent_uppercase()) {
            (Some(e), Some(u)) => {
                format!("h:{}:{}:{}:{}", h.get_raw_integer(), e, ul(u), ul(h.is_x_uppercase()))
            }
            _ => format!("h:{}:n:l:{}", h.get_raw_integer(), ul(h.is_x_uppercase())),
        },
        NumberExpression::Binary(b) => format!("b:{}:{}", b.get_raw_value(), ul(b.is_b_uppercase())),
    }
}

fn same_double(a: f64, b: f64) -> bool {
    if a.is_nan() || b.is_nan() {
        a.is_nan() && b.is_nan()
    } else {
        a.to_bits() == b.to_bits()
    }
}

fn decimal_cases(x: f64, family: &'static str, out: &mut Vec<NumCase>, exps: &[i64]) {
    out.push(NumCase { family, lit: DecimalNumber::new(x).into() });
    for &e in exps {
        out.push(NumCase { family, lit: DecimalNumber::new(x).with_exponent(e, e % 2 == 0).into() });
    }
}

fn boundary_doubles(rng: &mut Rng, thorough: bool) -> Vec<(f64, &'static str)> {
    let mut v: Vec<(f64, &'static str)> = Vec::new();
    for bits in [0u64, 1 << 63] {
        v.push((f64::from_bits(bits), "zero"));
    }
    v.push((f64::INFINITY, "inf"));
    v.push((f64::NEG_INFINITY, "inf"));
    for bits in [0x7ff8000000000000u64, 0xfff8000000000000, 0x7ff0000000000001, 0x7fffffffffffffff] {
        v.push((f64::from_bits(bits), "nan"));
    }
    // subnormals and the normal boundary
    for bits in [1u64, 2, 3, 4, 5, 9, 10, 0xfffff, 0x8000000000000 - 1, 0x8000000000000, 0xfffffffffffff,
        0x10000000000000, 0x10000000000001, 0x1fffffffffffff, 0x20000000000000] {
        v.push((f64::from_bits(bits), "subnormal-boundary"));
        v.push((-f64::from_bits(bits), "subnormal-boundary"));
    }
    for _ in 0..(if thorough { 3000 } else { 200 }) {
        v.push((f64::from_bits(rng.next_u64() & 0xfffffffffffff), "subnormal-random"));
    }
    // powers of two and neighbours
    for k in -1074..=1023i32 {
        let p = 2f64.powi(k);
        let b = p.to_bits();
        v.push((p, "power-of-two"));
        if !thorough && k % 7 != 0 {
            continue;
        }
        if b > 1 {
            v.push((f64::from_bits(b - 1), "power-of-two-neighbour"));
        }
        v.push((f64::from_bits(b + 1), "power-of-two-neighbour"));
    }
    // powers of ten and neighbours
    for k in -324..=308i32 {
        let p: f64 = format!("1e{}", k).parse().unwrap();
        let b = p.to_bits();
        v.push((p, "power-of-ten"));
        if b > 1 {
            v.push((f64::from_bits(b - 1), "power-of-ten-neighbour"));
        }
        v.push((f64::from_bits(b + 1), "power-of-ten-neighbour"));
        for m in [2.0, 5.0, 9.0, 1.5, 12.0, 999.0, 1001.0] {
            if thorough || k % 5 == 0 {
                v.push((p * m, "power-of-ten-multiple"));
            }
        }
    }
    // 2^53 and integer-conversion neighbourhoods
    for base in [52u32, 53, 54, 63, 64, 31, 32] {
        let p = 2f64.powi(base as i32);
        let b = p.to_bits();
        for d in 0..6u64 {
            v.push((f64::from_bits(b - d), "2^53-neighbourhood"));
            v.push((f64::from_bits(b + d), "2^53-neighbourhood"));
            v.push((-f64::from_bits(b + d), "2^53-neighbourhood"));
        }
    }
    // shortest-representation hard cases
    for s in [
        "5e-324", "1.7976931348623157e308", "2.2250738585072014e-308", "2.2250738585072011e-308",
        "2.225073858507201e-308", "4.9406564584124654e-324", "9007199254740993", "0.1", "0.2", "0.3",
        "0.30000000000000004", "1e23", "9.999999999999999e22", "1e22", "1e21", "1e-7", "9.5367431640625e-7",
        "123456789012345680", "1.2345678901234567e123", "8.41e21", "2.0e-3", "3.141592653589793",
        "2.718281828459045", "0.000001", "0.0000001", "1e15", "1e16", "1e17", "999", "999.5", "1000",
        "1100", "1234500", "100000", "123456", "0.09999999999999999", "0.1000000000000000055",
        "4.35", "4.350000000000001", "5.0e-1", "1.0000000000000002", "0.9999999999999999",
        "72057594037927928", "72057594037927936", "7.2057594037927945e16", "1.8446744073709552e19",
        "3.5844466002796428e298", "1.7800590868057611e-307", "2.9802322387695312e-8",
        "5.764607523034235e39", "1.152921504606847e40", "2.305843009213694e40", "4.4501477170144023e-308",
        "6.631236871469758e-316", "3.237883913302901e-319", "5.687589e-320", "1.0e-320", "9.88e-324",
    ] {
        let x: f64 = s.parse().unwrap();
        v.push((x, "shortest-hard-case"));
        v.push((-x, "shortest-hard-case"));
    }
    for i in 0..1200u32 {
        v.push((i as f64, "small-integer"));
    }
    for i in [1u32, 3, 7, 15, 25, 33, 99, 101, 250, 999, 1001] {
        v.push((i as f64 / 8.0, "small-fraction"));
        v.push((i as f64 / 10.0, "small-fraction"));
        v.push((i as f64 / 1000.0, "small-fraction"));
        v.push((i as f64 * 100.0, "round-hundreds"));
        v.push((i as f64 * 1e5, "round-hundreds"));
    }
    for _ in 0..(if thorough { 400_000 } else { 20_000 }) {
        let bits = rng.next_u64();
        let x = f64::from_bits(bits);
        if x.is_finite() {
            v.push((x, "random-bits"));
        }
    }
    for _ in 0..(if thorough { 100_000 } else { 5_000 }) {
        // random decimal with few digits: short shortest representations
        let digits = rng.below(100_000) as f64;
        let e = rng.range(-30, 30) as i32;
        let x: f64 = format!("{}e{}", digits, e).parse().unwrap();
        v.push((x, "random-short-decimal"));
    }
    v
}

struct NumOutcome {
    real: Result<Vec<u8>, String>,
    reparsed_same: Option<bool>,
    model: String,
    value: String,
    /// per generator (and span): name, real text (layout stripped) or panic, model text, value of the real text
    gens: Vec<(String, Result<String, String>, String, String)>,
}

fn run_num_cases(cases: &[NumCase]) -> Vec<NumOutcome> {
    par_chunks(cases, |model, chunk| {
        let reals: Vec<Result<Vec<u8>, String>> = chunk
            .iter()
            .map(|c| guarded(|| hooks::write_number(&c.lit).into_bytes()))
            .collect();
        let lines: Vec<String> = chunk
            .iter()
            .zip(&reals)
            .map(|(c, r)| format!("c13.num {} {}", lit_wire(&c.lit), hex(r.as_deref().unwrap_or(&[]))))
            .collect();
        let answers = model.ask_batch(&lines);
        chunk
            .iter()
            .zip(reals)
            .zip(answers)
            .map(|((c, real), answer)| {
                let parts: Vec<&str> = answer.split(' ').collect();
                let get = |i: usize| parts.get(i).copied().unwrap_or("?").to_owned();
                // hex / binary: darklua must read its own output back as the same node
                let reparsed_same = match (&c.lit, &real) {
                    (NumberExpression::Decimal(_), _) | (_, Err(_)) => None,
                    (_, Ok(r)) => Some(
                        guarded(|| String::from_utf8_lossy(r).parse::<NumberExpression>())
                            .ok()
                            .and_then(|x| x.ok())
                            .map(|x| x == c.lit)
                            .unwrap_or(false),
                    ),
                };
                NumOutcome { real, reparsed_same, model: get(0), value: get(1), gens: Vec::new() }
            })
            .collect::<Vec<_>>()
            .into_iter()
            .zip(chunk.iter().enumerate())
            .map(|(mut outcome, (index, c))| {
                // the generators' OWN write_number entry points, on the node itself
                let expr = Expression::Number(c.lit.clone());
                let mut spans = vec![SPANS[0]];
                if index % 8 == 0 {
                    spans.extend([SPANS[1], SPANS[2]]);
                }
                for span in spans {
                    let outs = generator_outputs_at(&expr, span);
                    let text_of = |i: usize| -> Vec<u8> {
                        outs.get(i)
                            .and_then(|(_, r)| r.as_ref().ok())
                            .map(|t| strip_layout(t).into_bytes())
                            .unwrap_or_default()
                    };
                    // token_based has no column span: the third slot repeats dense at other spans
                    let third = if outs.len() > 2 { text_of(2) } else { text_of(0) };
                    let answer = model.ask(&format!(
                        "c13.numg {} {} {} {}",
                        lit_wire(&c.lit), hex(&text_of(0)), hex(&text_of(1)), hex(&third)
                    ));
                    let parts: Vec<&str> = answer.split(' ').collect();
                    for (i, (name, out)) in outs.iter().enumerate() {
                        let model_text = parts.get(i).copied().unwrap_or("?").to_owned();
                        let value = parts.get(3 + i).copied().unwrap_or("?").to_owned();
                        outcome.gens.push((
                            name.clone(),
                            out.as_ref().map(|t| strip_layout(t)).map_err(|e| e.clone()),
                            model_text,
                            value,
                        ));
                    }
                }
                outcome
            })
            .collect()
    })
}

fn lit_value(n: &NumberExpression) -> Option<f64> {
    match n {
        NumberExpression::Decimal(d) => Some(d.compute_value()),
        NumberExpression::Hex(h) if h.get_exponent().is_none() => Some(h.get_raw_integer() as f64),
        NumberExpression::Hex(_) => None, // `0x…p…` is not a Luau literal
        NumberExpression::Binary(b) => Some(b.get_raw_value() as f64),
    }
}

fn evaluate_num(report: &mut Report, cases: &[NumCase], outcomes: &[NumOutcome]) {
    for (c, o) in cases.iter().zip(outcomes) {
        let wire = lit_wire(&c.lit);
        let input = json!({"kind": "number", "family": c.family, "literal": wire});
        report.hist("number-family", c.family);
        let real = match &o.real {
            Ok(r) => r,
            Err(e) => {
                report.case(Some(("num", &wire)));
                report.violation(Violation {
                    kind: "oracle".into(),
                    check: "write_number-panics".into(),
                    what: format!("write_number panicked: {}", e),
                    input,
                    failing_input_found: true,
                });
                continue;
            }
        };
        let text = String::from_utf8_lossy(real).into_owned();
        let plain_integer = text.bytes().all(|b| b.is_ascii_digit());
        report.case(if plain_integer { None } else { Some(("num", &wire)) });
        let shape = if text.starts_with('(') {
            "(a/b)"
        } else if text.contains(['e', 'E']) && !text.starts_with("0x") && !text.starts_with("0X") {
            "exponent"
        } else if text.starts_with("0x") || text.starts_with("0X") {
            "hex"
        } else if text.starts_with("0b") || text.starts_with("0B") {
            "binary"
        } else if text.contains('.') {
            "fraction"
        } else {
            "integer"
        };
        report.hist("number-written-shape", shape);
        let mut oracle_failed = false;
        match lit_value(&c.lit) {
            Some(x) => {
                let got = o.value.strip_prefix("some:").and_then(wire_f64);
                if !got.map(|g| same_double(g, x)).unwrap_or(false) {
                    oracle_failed = true;
                    report.violation(Violation {
                        kind: "oracle".into(),
                        check: "number-roundtrip".into(),
                        what: format!(
                            "write_number gives {:?}, which denotes {} instead of {} ({})",
                            text, o.value, f64_wire(x), x
                        ),
                        input: input.clone(),
                        failing_input_found: true,
                    });
                }
            }
            None => report.hist("number-oracle", "hex-float(not a Luau literal; self-reparse only)"),
        }
        if o.reparsed_same == Some(false) {
            oracle_failed = true;
            report.violation(Violation {
                kind: "oracle".into(),
                check: "number-self-reparse".into(),
                what: format!("darklua does not read its own {:?} back as the same number node", text),
                input: input.clone(),
                failing_input_found: true,
            });
        }
        if o.model != hex(real) && !oracle_failed {
            report.violation(Violation {
                kind: "correspondence".into(),
                check: "write_number".into(),
                what: format!(
                    "model {:?} != real {:?}",
                    unhex(&o.model).map(|b| String::from_utf8_lossy(&b).into_owned()),
                    text
                ),
                input,
                failing_input_found: false,
            });
        }
        // ---- the generators' own entry points
        for (gname, out, model_text, value) in &o.gens {
            let short = gname.split('@').next().unwrap_or(gname);
            report.case(Some(("numg", gname.as_str(), &wire)));
            let ginput = json!({"kind": "number", "family": c.family, "literal": wire, "generator": gname});
            let text = match out {
                Ok(t) => t,
                Err(e) => {
                    report.violation(Violation {
                        kind: "oracle".into(),
                        check: format!("generator-number-panics-{}", short),
                        what: format!("{} panicked on the number node: {}", gname, e),
                        input: ginput,
                        failing_input_found: true,
                    });
                    continue;
                }
            };
            let mut generator_oracle_failed = false;
            if let Some(x) = lit_value(&c.lit) {
                let got = value.strip_prefix("some:").and_then(wire_f64);
                if !got.map(|g| same_double(g, x)).unwrap_or(false) {
                    generator_oracle_failed = true;
                    report.violation(Violation {
                        kind: "oracle".into(),
                        check: format!("generator-number-roundtrip-{}", short),
                        what: format!(
                            "{} writes the node as {:?}, which denotes {} instead of {} ({:e})",
                            gname, text, value, f64_wire(x), x
                        ),
                        input: ginput.clone(),
                        failing_input_found: true,
                    });
                }
            }
            if !generator_oracle_failed && unhex(model_text).map(|b| String::from_utf8_lossy(&b).into_owned()).as_deref() != Some(text.as_str()) {
                report.violation(Violation {
                    kind: "correspondence".into(),
                    check: format!("generator-number-text-{}", short),
                    what: format!("{} writes {:?}, model {:?}", gname, text, unhex(model_text).map(|b| String::from_utf8_lossy(&b).into_owned())),
                    input: ginput,
                    failing_input_found: false,
                });
            }
        }
        if shape == "exponent" && report.samples.len() < 10 {
            report.sample(json!({"literal": wire, "written": text, "denotes": o.value}));
        }
    }
}

/// `Expression::from(f64)` through the three generators: the text must denote the double
fn check_from_f64(report: &mut Report, doubles: &[(f64, &'static str)]) {
    struct Out {
        texts: Vec<(String, Result<String, String>)>,
        inner: Option<(bool, NumberExpression)>,
        tree: String,
    }
    fn tree_of(e: &Expression) -> String {
        match e {
            Expression::Number(n) => format!("L({})", lit_wire(n)),
            Expression::Unary(u) if u.operator() == darklua_core::nodes::UnaryOperator::Minus => {
                format!("N({})", tree_of(u.get_expression()))
            }
            Expression::Binary(b) if b.operator() == BinaryOperator::Slash => {
                format!("D({},{})", tree_of(b.left()), tree_of(b.right()))
            }
            _ => "?".to_owned(),
        }
    }
    let outs: Vec<(Out, Vec<String>)> = par_chunks(doubles, |model, chunk| {
        let mut res = Vec::new();
        for (x, _) in chunk {
            let expr = guarded(|| Expression::from(*x));
            let tree = expr.as_ref().map(tree_of).unwrap_or_else(|_| "panic".to_owned());
            let (texts, inner) = match &expr {
                Ok(e) => {
                    let inner = match e {
                        Expression::Number(n) => Some((false, n.clone())),
                        Expression::Unary(u) => match u.get_expression() {
                            Expression::Number(n) => Some((true, n.clone())),
                            _ => None,
                        },
                        _ => None,
                    };
                    (generator_outputs(e), inner)
                }
                Err(e) => (vec![("from".to_owned(), Err(e.clone()))], None),
            };
            let mut lines = Vec::new();
            for (_, t) in &texts {
                let stripped: String = t.as_deref().unwrap_or("").chars().filter(|c| *c != ' ' && *c != '\n').collect();
                lines.push(format!("c13.nval {}", hex(stripped.as_bytes())));
            }
            if let Some((_, n)) = &inner {
                lines.push(format!("c13.wnum {}", lit_wire(n)));
            }
            lines.push(format!("c13.fromf64 {}", f64_wire(*x)));
            let answers = model.ask_batch(&lines);
            res.push((Out { texts, inner, tree }, answers));
        }
        res
    });
    for ((x, family), (out, answers)) in doubles.iter().zip(outs) {
        report.hist("from-f64-family", family);
        // the tree itself against the model of `From<f64>` (decision structure, recorded exponent)
        let model_tree = answers.last().cloned().unwrap_or_default();
        report.hist("from-f64-tree", if out.tree.starts_with('D') { "division" } else if out.tree.starts_with('N') { "negation" } else if out.tree.contains(":n:") { "plain" } else { "with-exponent" });
        if model_tree != out.tree {
            report.violation(Violation {
                kind: "correspondence".into(),
                check: "from-f64-tree".into(),
                what: format!("Expression::from({:e}) builds {}, model {}", x, out.tree, model_tree),
                input: json!({"kind": "from-f64", "double": f64_wire(*x)}),
                failing_input_found: false,
            });
        }
        for (i, (gname, text)) in out.texts.iter().enumerate() {
            report.case(Some(("from", gname.as_str(), x.to_bits())));
            let input = json!({"kind": "from-f64", "generator": gname, "double": f64_wire(*x)});
            let text = match text {
                Ok(t) => t,
                Err(e) => {
                    report.violation(Violation {
                        kind: "oracle".into(),
                        check: "from-f64-panics".into(),
                        what: format!("Expression::from({}) / generator panicked: {}", x, e),
                        input,
                        failing_input_found: true,
                    });
                    continue;
                }
            };
            let got = answers[i].strip_prefix("some:").and_then(wire_f64);
            if !got.map(|g| same_double(g, *x)).unwrap_or(false) {
                report.violation(Violation {
                    kind: "oracle".into(),
                    check: "from-f64-roundtrip".into(),
                    what: format!("{} writes Expression::from({:e}) as {:?}, which denotes {}", gname, x, text, answers[i]),
                    input,
                    failing_input_found: true,
                });
                continue;
            }
            if let Some((negated, _)) = &out.inner {
                let model_text = answers
                    .get(answers.len().wrapping_sub(2))
                    .and_then(|m| unhex(m))
                    .map(|b| format!("{}{}", if *negated { "-" } else { "" }, String::from_utf8_lossy(&b)));
                let stripped: String = text.chars().filter(|c| *c != ' ' && *c != '\n').collect();
                if model_text.as_deref() != Some(stripped.as_str()) {
                    report.violation(Violation {
                        kind: "correspondence".into(),
                        check: "from-f64-text".into(),
                        what: format!("{} writes {:?}, model {:?}", gname, text, model_text),
                        input,
                        failing_input_found: false,
                    });
                }
            }
        }
    }
}

// ---- parsing ------------------------------------------------------------------------------

fn sprinkle_underscores(s: &str, rng: &mut Rng) -> String {
    let mut out = String::new();
    for (i, ch) in s.chars().enumerate() {
        out.push(ch);
        if i + 1 < s.len() + 1 && rng.chance(1, 5) {
            out.push('_');
            if rng.chance(1, 6) {
                out.push('_');
            }
        }
    }
    out
}

fn literal_texts(rng: &mut Rng, thorough: bool) -> Vec<(String, &'static str)> {
    let mut v: Vec<(String, &'static str)> = Vec::new();
    for s in [
        "0", "1", "123", "123_456", "123.24", "123.245_6", "0._24", "123.", ".123", "1e10", "1e_10",
        "123e101", "123e+121", "123e-456", "123E4", "123E-456", "10.12e8", "10_0.12_e_8",
        "4.6982573308436185e159", "10.e8", "0x12", "0_x12", "0_x_12", "0x12_13", "0X12", "0_X13", "0x12a",
        "0x12A", "0x1bF2A", "0x12p4", "0xABP3", "0b0", "0_b1", "0b1010_1100", "0B0", "0_B1", "", "1e", "1E",
        "._1", "1e-", "1E-", "1e_-1", "1e_+1", "1E_-1", "1E_+1", "0x1p", "0x1p-3", "0x1P", "0x1p1Z", "0x1P1Z",
        "0x1P-3", "0b190", "0B190", "1_e+5", "1e-_5", "1__2", "1._", "1_._5", "5_.2", "1e5e6", "1.2.3", "1..2",
        "0x", "0b", "0x_", "0b_", "0xg", "0b2", "00x1", "0x1e5", "0xe", "0xE1", "0b1e1", "0e0", "0e5", "00", "007",
        "0.0", ".0", "0.", "1e+0", "1e-0", "1e0000005", "9007199254740993", "9007199254740992.5",
        "9007199254740992.500000000000000000000000000001", "18446744073709551615", "18446744073709551616",
        "0xffffffffffffffff", "0x10000000000000000", "0xfffffffffffff801", "0xfffffffffffffbff",
        "0xfffffffffffffc00", "0x20000000000001", "0x20000000000002", "0x20000000000003",
        "0b1111111111111111111111111111111111111111111111111111111111111111",
        "0b10000000000000000000000000000000000000000000000000000000000000000",
        "1e309", "1.7976931348623159e308", "1.797693134862315807e308", "4.9e-324", "2.4703282292062327e-324",
        "2.4703282292062328e-324", "2.47032822920623272e-324", "1e-400", "1e400", "1e99999999999999999999",
        "1e-99999999999999999999", "1e9223372036854775807", "1e9223372036854775808", "0e99999999999999999999",
        "123456789012345678901234567890", "0.000000000000000000000000000001", "1e5_", "1_", "1.e5", ".5e5",
        "5.e", "0x1.8p1", "0x.8", "0xp1", "0x1p+1", "0x1p4294967295", "0x1p4294967296", "0x1_0p1", "0x10p60",
        "inf", "nan", "infinity", "NaN", "+1", "-1", "1f", "1d", "0b101b", "0x12h", " 1", "1 ", "1e 5", "١",
        "0X_A_b", "0xA_P1", "0xe+1", "1E5e", "1ee5", "e5", ".e5", "._", ".", "_1", "1_e5", "1e5_0", "1e+_5",
    ] {
        v.push((s.to_owned(), "curated"));
    }
    let n = if thorough { 300_000 } else { 25_000 };
    for _ in 0..n {
        let int: String = (0..rng.below(6)).map(|_| (b'0' + rng.below(10) as u8) as char).collect();
        let frac: String = (0..rng.below(6)).map(|_| (b'0' + rng.below(10) as u8) as char).collect();
        let kind = rng.below(10);
        let mut s = match kind {
            0 | 1 => {
                // hex
                let digits: String = (0..1 + rng.below(16))
                    .map(|_| *rng.pick(b"0123456789abcdefABCDEF") as char)
                    .collect();
                format!("0{}{}", rng.pick(&["x", "X"]), digits)
            }
            2 => {
                let digits: String = (0..1 + rng.below(66)).map(|_| *rng.pick(b"01") as char).collect();
                format!("0{}{}", rng.pick(&["b", "B"]), digits)
            }
            3 => int.clone(),
            4 => format!("{}.{}", int, frac),
            5 | 6 => {
                let e: String = (0..1 + rng.below(3)).map(|_| (b'0' + rng.below(10) as u8) as char).collect();
                format!("{}.{}{}{}{}", int, frac, rng.pick(&["e", "E"]), rng.pick(&["", "+", "-"]), e)
            }
            7 => {
                let e: String = (0..1 + rng.below(3)).map(|_| (b'0' + rng.below(10) as u8) as char).collect();
                format!("{}{}{}{}", if int.is_empty() { "7" } else { &int }, rng.pick(&["e", "E"]), rng.pick(&["", "+", "-"]), e)
            }
            8 => {
                // long digit strings around halfway points
                let base = (1u64 << 53) + rng.below(64) as u64;
                format!("{}.{}{}", base, rng.pick(&["5", "49999999999999999999", "50000000000000000001", "5000"]), frac)
            }
            _ => {
                // soup of token characters
                (0..1 + rng.below(8)).map(|_| *rng.pick(b"0123456789._eExXbBpP+-aF") as char).collect()
            }
        };
        if rng.chance(1, 2) {
            s = sprinkle_underscores(&s, rng);
        }
        v.push((s, match kind { 0 | 1 => "random-hex", 2 => "random-binary", 9 => "random-soup", 8 => "random-halfway", _ => "random-decimal" }));
    }
    v
}

fn check_parsing(report: &mut Report, texts: &[(String, &'static str)]) {
    let parser = Parser::default();
    struct P {
        real: Result<Result<NumberExpression, String>, String>,
        via_parser: Option<Option<NumberExpression>>,
        answer: String,
    }
    let outs: Vec<P> = par_chunks(texts, |model, chunk| {
        let lines: Vec<String> = chunk.iter().map(|(t, _)| format!("c13.pnum {}", hex(t.as_bytes()))).collect();
        let answers = model.ask_batch(&lines);
        chunk
            .iter()
            .zip(answers)
            .map(|((t, _), answer)| {
                let real = guarded(|| t.parse::<NumberExpression>().map_err(|e| format!("{:?}", e)));
                P { real, via_parser: None, answer }
            })
            .collect()
    });
    let mut outs = outs;
    // the full parser on `return <literal>` for token-shaped texts (sequential: it is cheap)
    for ((t, _), o) in texts.iter().zip(outs.iter_mut()) {
        let token_shaped = o.answer.split(' ').nth(1).map(|d| d != "none").unwrap_or(false);
        if token_shaped {
            let code = format!("return {}", t);
            let parsed = guarded(|| parser.parse(&code)).ok().and_then(|r| r.ok());
            o.via_parser = Some(parsed.and_then(|b| match b.get_last_statement() {
                Some(darklua_core::nodes::LastStatement::Return(r)) => match r.iter_expressions().next() {
                    Some(Expression::Number(n)) => Some(n.clone()),
                    _ => None,
                },
                _ => None,
            }));
        }
    }
    for ((t, family), o) in texts.iter().zip(&outs) {
        let parts: Vec<&str> = o.answer.split(' ').collect();
        let (model, desc, refval) = (parts.first().copied().unwrap_or("?"), parts.get(1).copied().unwrap_or("?"), parts.get(2).copied().unwrap_or("?"));
        let input = json!({"kind": "number-text", "family": family, "text": t, "text_hex": hex(t.as_bytes())});
        report.case(Some(("parse", t)));
        report.hist("number-text-family", family);
        let real = match &o.real {
            Ok(r) => r,
            Err(e) => {
                report.violation(Violation {
                    kind: "oracle".into(),
                    check: "from_str-panics".into(),
                    what: format!("NumberExpression::from_str({:?}) panicked: {}", t, e),
                    input,
                    failing_input_found: true,
                });
                continue;
            }
        };
        let real_wire = match real {
            Ok(n) => format!("ok:{}", lit_wire(n)),
            Err(e) => format!("err:{}", e),
        };
        let refbits = refval.strip_prefix("some:").and_then(wire_f64);
        let mut oracle_failed = false;
        match (real, refbits) {
            (Ok(n), Some(want)) => {
                report.hist("number-parse", "accepted-by-both");
                let got = n.compute_value();
                if !same_double(got, want) {
                    oracle_failed = true;
                    report.violation(Violation {
                        kind: "oracle".into(),
                        check: "number-parse-value".into(),
                        what: format!("{:?} parses to {} ({}), Luau gives {}", t, f64_wire(got), got, refval),
                        input: input.clone(),
                        failing_input_found: true,
                    });
                }
            }
            (Ok(_), None) => report.hist(
                "number-parse",
                if desc == "none" && t.to_ascii_lowercase().contains('p') {
                    "accepted-by-darklua-only(hex float, Lua 5.2 syntax)"
                } else {
                    "accepted-by-darklua-only(not a Luau number token)"
                },
            ),
            (Err(_), Some(_)) => {
                report.hist("number-parse", "rejected-by-darklua-only(valid Luau)");
                if report.notes.len() < 12 {
                    report.notes.push(format!("darklua rejects the valid Luau literal {:?} ({})", t, real_wire));
                }
            }
            (Err(_), None) => report.hist("number-parse", "rejected-by-both"),
        }
        if let (Some(via), Ok(n)) = (&o.via_parser, real) {
            // the parser must agree with FromStr on the value of token-shaped literals; a literal
            // the parser's own lexer refuses is a robustness matter, not a wrong value
            match via {
                None => {
                    report.hist("number-parse", "Parser::parse refuses a literal from_str accepts");
                    if report.notes.len() < 20 {
                        report.notes.push(format!("Parser::parse refuses `return {}` (valid Luau; from_str accepts it)", t));
                    }
                }
                Some(p) if !same_double(p.compute_value(), n.compute_value()) && !oracle_failed => {
                    report.violation(Violation {
                        kind: "oracle".into(),
                        check: "parser-vs-from_str".into(),
                        what: format!("Parser::parse(\"return {}\") gives {}, from_str gives {}", t, lit_wire(p), real_wire),
                        input: input.clone(),
                        failing_input_found: true,
                    });
                    oracle_failed = true;
                }
                Some(_) => {}
            }
        }
        if model != real_wire && !oracle_failed {
            report.violation(Violation {
                kind: "correspondence".into(),
                check: "from_str".into(),
                what: format!("{:?}: model {} != real {}", t, model, real_wire),
                input,
                failing_input_found: false,
            });
        }
    }
}

fn numbers(report: &mut Report, rng: &mut Rng) {
    let thorough = report.is_thorough();
    let doubles = boundary_doubles(rng, thorough);
    let mut cases: Vec<NumCase> = Vec::new();
    for (x, family) in &doubles {
        let mut exps: Vec<i64> = Vec::new();
        if x.is_finite() && *x != 0.0 {
            let l = x.abs().log10().floor() as i64;
            exps.extend([l, l - 1, l + 1]);
        }
        if *family != "random-bits" && *family != "small-integer" {
            exps.extend([0, 1, -1, 5, -5, 22, 23, -23, 308, -308, 309, -324, -400, 400, 2147483647, -2147483648, 2147483648, -2147483649, i64::MAX, i64::MIN]);
        } else if rng.chance(1, 4) {
            exps.push(rng.range(-330, 330));
        }
        decimal_cases(*x, family, &mut cases, &exps);
    }
    // hex and binary nodes
    let mut ints: Vec<u64> = vec![0, 1, 9, 10, 15, 16, 255, 256, 0xdead_beef, u32::MAX as u64, 1 << 52, (1 << 53) - 1, 1 << 53, (1 << 53) + 1, (1 << 53) + 2, u64::MAX - 1, u64::MAX, 0xfffffffffffff800, 0xfffffffffffffbff, 0xfffffffffffffc00];
    for _ in 0..(if thorough { 20_000 } else { 2_000 }) {
        ints.push(rng.next_u64() >> rng.below(64));
    }
    for &n in &ints {
        for up in [false, true] {
            cases.push(NumCase { family: "hex", lit: darklua_core::nodes::HexNumber::new(n, up).into() });
            cases.push(NumCase { family: "binary", lit: darklua_core::nodes::BinaryNumber::new(n, up).into() });
        }
        let e = *rng.pick(&[0u32, 1, 4, 10, 63, 64, 1000, u32::MAX]);
        cases.push(NumCase { family: "hex-exponent", lit: darklua_core::nodes::HexNumber::new(n, false).with_exponent(e, rng.chance(1, 2)).into() });
    }
    let outcomes = run_num_cases(&cases);
    evaluate_num(report, &cases, &outcomes);

    check_from_f64(report, &doubles);

    let texts = literal_texts(rng, thorough);
    check_parsing(report, &texts);
}
