//! Property C05: a bundle behaves like the program with its modules required normally.
//!  (1) CORRESPONDENCE: the Lean model `C05.inlineAll` on the module graph (as an S-expression) vs
//!      the real bundler through `darklua_core::process` on memory resources: same error list
//!      (kinds, named files, order) or — on success — the re-parsed real output is exactly
//!      `C05.assemble` (the Lean accessor template) applied to the module bodies with the call
//!      sites rewritten as the model decided (definition count, order, names, every rewrite).
//!  (2) ORACLE (independent of the model): the REAL bundled text is parsed and executed on the
//!      reference semantics and compared with a reference program the harness builds from the
//!      module sources with a textbook `require` (package.loaded-style cache, own resolver).
//!      Cyclic / missing / malformed graphs must yield an error naming the files, under a watchdog.
use crate::astsexp::{self, Sexp};
use crate::exec;
use crate::model::{hex, unhex, Model};
use crate::progen::{self, Features};
use crate::progen_c05::{self as g, Case, FileKind, GenOptions, Item, Mode, Rendered, SiteInfo};
use crate::report::{Report, Violation};
use crate::rng::Rng;
use serde_json::{json, Value};
use std::collections::{BTreeMap, BTreeSet};

pub const DEFAULT_RULES: [&str; 13] = crate::props::c01::DEFAULT_RULES;
const LEVEL: u32 = 300;

// ------------------------------------------------------------------ running the real bundler

#[derive(Clone, Debug, PartialEq)]
pub enum Real {
    Ok(String),
    Errors(String),
    Panic(String),
    Timeout,
}

fn config_text(r: &Rendered, generator: &str, rules: &[&str]) -> String {
    let rule_list: Vec<String> = rules.iter().map(|x| format!("'{}'", x)).collect();
    let excludes: Vec<String> = r.excludes.iter().map(|x| format!("'{}'", x)).collect();
    let ident = match &r.modules_identifier {
        Some(m) => format!(", modules_identifier: '{}'", m),
        None => String::new(),
    };
    let mode = if r.aliases.is_empty() || r.batch.is_some() {
        format!("'{}'", r.mode)
    } else {
        let entries: Vec<String> = r.aliases.iter().map(|(k, v)| format!("'{}': '{}'", k, v)).collect();
        format!("{{ name: '{}', use_luau_configuration: false, aliases: {{ {} }} }}", r.mode, entries.join(", "))
    };
    format!(
        "{{ generator: '{}', rules: [{}], bundle: {{ require_mode: {}, excludes: [{}]{} }} }}",
        generator,
        rule_list.join(", "),
        mode,
        excludes.join(", "),
        ident
    )
}

fn process_files(files: Vec<(String, String)>, entry: String, config: String) -> Real {
    let (tx, rx) = std::sync::mpsc::channel();
    std::thread::spawn(move || {
        let result = std::panic::catch_unwind(std::panic::AssertUnwindSafe(|| {
            let resources = darklua_core::Resources::from_memory();
            for (path, content) in &files {
                resources.write(path, content).unwrap();
            }
            let configuration: darklua_core::Configuration = match json5::from_str(&config) {
                Ok(c) => c,
                Err(e) => return Real::Panic(format!("harness: bad configuration {}: {}", config, e)),
            };
            let options = darklua_core::Options::new(&entry).with_output("out/bundle.lua").with_configuration(configuration);
            match darklua_core::process(&resources, options) {
                Err(e) => Real::Errors(e.to_string()),
                Ok(tree) => match tree.result() {
                    Ok(()) => match resources.get("out/bundle.lua") {
                        Ok(text) => Real::Ok(text),
                        Err(_) => Real::Errors("no output written".to_owned()),
                    },
                    Err(errors) => Real::Errors(errors.iter().map(|e| e.to_string()).collect::<Vec<_>>().join("\n")),
                },
            }
        }));
        let _ = tx.send(match result {
            Ok(r) => r,
            Err(p) => Real::Panic(
                p.downcast_ref::<String>().cloned().or_else(|| p.downcast_ref::<&str>().map(|s| (*s).to_owned())).unwrap_or_default(),
            ),
        });
    });
    // watchdog: 20 s is far beyond any real bundling (milliseconds); on a heavily loaded machine the
    // thread may simply not have been scheduled, so a first expiry only extends the wait
    match rx.recv_timeout(std::time::Duration::from_secs(20)) {
        Ok(r) => r,
        Err(_) => match rx.recv_timeout(std::time::Duration::from_secs(280)) {
            Ok(r) => r,
            Err(_) => Real::Timeout,
        },
    }
}

/// several entries in ONE darklua run (`WorkerTree` with one source per entry, in the given order); the result is
/// the bundle of `entry`
fn process_batch(files: Vec<(String, String)>, entries: Vec<String>, entry: String, config: String) -> Real {
    let (tx, rx) = std::sync::mpsc::channel();
    std::thread::spawn(move || {
        let result = std::panic::catch_unwind(std::panic::AssertUnwindSafe(|| {
            let resources = darklua_core::Resources::from_memory();
            for (path, content) in &files {
                resources.write(path, content).unwrap();
            }
            let configuration: darklua_core::Configuration = match json5::from_str(&config) {
                Ok(c) => c,
                Err(e) => return Real::Panic(format!("harness: bad configuration {}: {}", config, e)),
            };
            let mut tree = darklua_core::WorkerTree::default();
            let mut wanted = String::new();
            for (i, e) in entries.iter().enumerate() {
                let output = format!("out/e{}.lua", i);
                if *e == entry { wanted = output.clone(); }
                tree.add_source(e, Some(std::path::PathBuf::from(output)));
            }
            let options = darklua_core::Options::new(&entries[0]).with_output("out").with_configuration(configuration);
            match tree.process(&resources, options) {
                Err(e) => Real::Errors(e.to_string()),
                Ok(()) => match tree.result() {
                    Ok(()) => match resources.get(&wanted) {
                        Ok(text) => Real::Ok(text),
                        Err(_) => Real::Errors("no output written".to_owned()),
                    },
                    Err(errors) => Real::Errors(errors.iter().map(|e| e.to_string()).collect::<Vec<_>>().join("\n")),
                },
            }
        }));
        let _ = tx.send(match result {
            Ok(r) => r,
            Err(p) => Real::Panic(
                p.downcast_ref::<String>().cloned().or_else(|| p.downcast_ref::<&str>().map(|s| (*s).to_owned())).unwrap_or_default(),
            ),
        });
    });
    match rx.recv_timeout(std::time::Duration::from_secs(20)) {
        Ok(r) => r,
        Err(_) => match rx.recv_timeout(std::time::Duration::from_secs(280)) {
            Ok(r) => r,
            Err(_) => Real::Timeout,
        },
    }
}

pub fn run_real(r: &Rendered, generator: &str, rules: &[&str]) -> Real {
    if let Some(batch) = &r.batch {
        let mut files = r.files.clone();
        files.extend(batch.extra_files.iter().cloned());
        return process_batch(files, batch.entries.clone(), r.entry.clone(), config_text(r, generator, rules));
    }
    process_files(r.files.clone(), r.entry.clone(), config_text(r, generator, rules))
}

static CHILD_COUNTER: std::sync::atomic::AtomicU64 = std::sync::atomic::AtomicU64::new(0);

/// The same bundling in a CHILD process (this binary re-invoked with `--replay child:<file>`), so that a
/// native stack overflow or an abort inside darklua — which no `catch_unwind` survives — is
/// observed as a result instead of killing the harness. Used for cyclic graphs.
pub fn run_real_isolated(r: &Rendered, generator: &str, rules: &[&str]) -> Real {
    let n = CHILD_COUNTER.fetch_add(1, std::sync::atomic::Ordering::Relaxed);
    let base = std::env::temp_dir().join(format!("dlv-c05-child-{}-{}", std::process::id(), n));
    let input = base.with_extension("in.json");
    let output = base.with_extension("out.json");
    let payload = json!({"files": r.files.iter().map(|(p, c)| json!([p, c])).collect::<Vec<_>>(), "entry": r.entry, "config": config_text(r, generator, rules)});
    if std::fs::write(&input, payload.to_string()).is_err() {
        return run_real(r, generator, rules);
    }
    let exe = match std::env::current_exe() {
        Ok(e) => e,
        Err(_) => return run_real(r, generator, rules),
    };
    let spawned = std::process::Command::new(exe)
        .args(["C05", "--replay", &format!("child:{}", input.display()), "--out", &output.display().to_string()])
        .stdin(std::process::Stdio::null())
        .stdout(std::process::Stdio::null())
        .stderr(std::process::Stdio::null())
        .spawn();
    let mut child = match spawned {
        Ok(c) => c,
        Err(_) => return run_real(r, generator, rules),
    };
    let started = std::time::Instant::now();
    let status = loop {
        match child.try_wait() {
            Ok(Some(status)) => break Some(status),
            Ok(None) => {
                if started.elapsed() > std::time::Duration::from_secs(330) {
                    let _ = child.kill();
                    let _ = child.wait();
                    break None;
                }
                std::thread::sleep(std::time::Duration::from_millis(2));
            }
            Err(_) => break None,
        }
    };
    let result = match status {
        None => Real::Timeout,
        Some(status) if !status.success() => Real::Panic(format!("the process running the bundler died ({}): native stack overflow or abort", status)),
        Some(_) => {
            let parsed = std::fs::read_to_string(&output).ok().and_then(|t| serde_json::from_str::<Value>(&t).ok());
            let note = parsed.as_ref().and_then(|v| v["notes"][0].as_str()).and_then(|t| serde_json::from_str::<Value>(t).ok());
            match note {
                Some(v) => match (v["kind"].as_str(), v["text"].as_str()) {
                    (Some("ok"), Some(t)) => Real::Ok(t.to_owned()),
                    (Some("errors"), Some(t)) => Real::Errors(t.to_owned()),
                    (Some("panic"), Some(t)) => Real::Panic(t.to_owned()),
                    (Some("timeout"), _) => Real::Timeout,
                    _ => Real::Panic("child: unreadable result".to_owned()),
                },
                None => Real::Panic("child: no result written".to_owned()),
            }
        }
    };
    let _ = std::fs::remove_file(&input);
    let _ = std::fs::remove_file(&output);
    result
}

/// the child side of `run_real_isolated`
pub fn child_main(report: &mut Report, input: &str) {
    let v: Value = match std::fs::read_to_string(input).ok().and_then(|t| serde_json::from_str(&t).ok()) {
        Some(v) => v,
        None => return,
    };
    let files: Vec<(String, String)> = v["files"].as_array().map(|a| a.iter().filter_map(|f| Some((f[0].as_str()?.to_owned(), f[1].as_str()?.to_owned()))).collect()).unwrap_or_default();
    let real = process_files(files, v["entry"].as_str().unwrap_or("").to_owned(), v["config"].as_str().unwrap_or("").to_owned());
    let (kind, text) = match real {
        Real::Ok(t) => ("ok", t),
        Real::Errors(t) => ("errors", t),
        Real::Panic(t) => ("panic", t),
        Real::Timeout => ("timeout", String::new()),
    };
    report.notes.push(json!({"kind": kind, "text": text}).to_string());
}

/// the same rules on a single file without bundling (to tell rule defects from bundling defects)
fn process_plain(code: &str, generator: &str, rules: &[&str]) -> Real {
    let rule_list: Vec<String> = rules.iter().map(|x| format!("'{}'", x)).collect();
    let config = format!("{{ generator: '{}', rules: [{}] }}", generator, rule_list.join(", "));
    process_files(vec![("src/main.lua".to_owned(), code.to_owned())], "src/main.lua".to_owned(), config)
}

/// (kind, named files) in message order
pub fn parse_real_errors(message: &str) -> Vec<(String, Vec<String>)> {
    let mut found: Vec<(usize, String, Vec<String>)> = Vec::new();
    let tick = |from: usize| -> Option<(String, usize)> {
        let rest = &message[from..];
        rest.find('`').map(|end| (rest[..end].to_owned(), from + end))
    };
    let mut scan = |needle: &str, f: &mut dyn FnMut(usize, usize) -> Option<(String, Vec<String>)>| {
        let mut at = 0;
        while let Some(i) = message[at..].find(needle) {
            let start = at + i;
            if let Some((kind, paths)) = f(start, start + needle.len()) {
                found.push((start, kind, paths));
            }
            at = start + needle.len();
        }
    };
    scan("cyclic require detected with `", &mut |_, after| {
        let line_end = message[after..].find('\n').map(|e| after + e).unwrap_or(message.len());
        let body = message[after..line_end].trim_end_matches('`');
        Some(("cyclic".to_owned(), body.split("` > `").map(|s| s.to_owned()).collect()))
    });
    scan("unable to find `", &mut |_, after| tick(after).map(|(p, _)| ("notfound".to_owned(), vec![p])));
    scan("unable to parse `", &mut |_, after| tick(after).map(|(p, _)| ("parse".to_owned(), vec![p])));
    scan("invalid Lua module at `", &mut |_, after| {
        tick(after).map(|(p, end)| {
            let rest = &message[end..];
            if rest.starts_with("`: module must return exactly one value") {
                ("manyreturn".to_owned(), vec![p])
            } else if rest.starts_with("`: module must end with a return statement") {
                ("noreturn".to_owned(), vec![p])
            } else {
                ("invalid-module".to_owned(), vec![p])
            }
        })
    });
    scan("unable to require resource with extension `", &mut |_, after| {
        tick(after).and_then(|(_, end)| {
            let rest = &message[end..];
            rest.strip_prefix("` at `").and_then(|r| r.find('`').map(|e| ("badext".to_owned(), vec![r[..e].to_owned()])))
        })
    });
    scan("unable to require resource without an extension at `", &mut |_, after| tick(after).map(|(p, _)| ("badext".to_owned(), vec![p])));
    for label in ["json", "yaml", "toml"] {
        // `unable to read json data: <message> (while reading `<path>`)`
        scan(&format!("unable to read {} data", label), &mut |_, after| {
            let marker = "(while reading `";
            let named = message[after..].find(marker).and_then(|i| tick(after + i + marker.len())).map(|(p, _)| vec![p]);
            Some(("parse".to_owned(), named.unwrap_or_default()))
        });
    }
    scan("unable to require resource at `", &mut |_, after| tick(after).map(|(p, _)| ("missing".to_owned(), vec![p])));
    found.sort_by_key(|x| x.0);
    found.into_iter().map(|(_, k, p)| (k, p)).collect()
}

// ------------------------------------------------------------------ the Lean model

fn site_sexp(s: &SiteInfo, honour_shadow: bool) -> String {
    let _ = honour_shadow;
    let target = if s.target == "excluded" {
        "excluded".to_owned()
    } else if let Some(q) = s.target.strip_prefix("notfound:") {
        format!("(notfound {})", hex(q.as_bytes()))
    } else {
        format!("(file {})", hex(s.target[5..].as_bytes()))
    };
    format!("({} {})", s.shadowed, target)
}

pub fn graph_request(r: &Rendered) -> (String, String) {
    let mut entries = Vec::new();
    for (i, (path, _)) in r.files.iter().enumerate() {
        let module = match r.shapes[i].as_str() {
            "data" => "data".to_owned(),
            "parse-error" => "parse-error".to_owned(),
            "bad-ext" => "bad-ext".to_owned(),
            shape => {
                let ret = match shape { "lua:one" => "one", "lua:none" => "none", _ => "many" };
                format!("(lua ({}) {})", r.sites[i].iter().map(|s| site_sexp(s, false)).collect::<Vec<_>>().join(" "), ret)
            }
        };
        entries.push(format!("({} {})", hex(path.as_bytes()), module));
    }
    let entry_index = r.files.iter().position(|(p, _)| *p == r.entry).unwrap_or(0);
    let sites = format!("({})", r.sites[entry_index].iter().map(|s| site_sexp(s, true)).collect::<Vec<_>>().join(" "));
    (format!("({})", entries.join(" ")), sites)
}

#[derive(Clone, Debug, Default, PartialEq)]
pub struct ModelBundle {
    pub defs: Vec<(String, String, Vec<Option<String>>)>,
    pub entry: Vec<Option<String>>,
    pub errors: Vec<(String, Vec<String>)>,
}

fn name_of(s: &Sexp) -> Option<String> {
    s.atom().and_then(unhex).and_then(|b| String::from_utf8(b).ok())
}

fn decisions(items: &[Sexp]) -> Vec<Option<String>> {
    items.iter().map(|d| if d.atom() == Some("-") { None } else { name_of(d) }).collect()
}

pub fn model_inline(model: &mut Model, r: &Rendered) -> Result<ModelBundle, String> {
    let (graph, sites) = graph_request(r);
    let answer = model.ask(&format!("c05.inline {} {}", graph, sites));
    let tree = Sexp::parse(&answer).map_err(|e| format!("{}: {}", e, answer))?;
    let items = tree.list().ok_or_else(|| answer.clone())?;
    if items.len() != 4 || items[0].atom() != Some("bundle") {
        return Err(answer);
    }
    let mut out = ModelBundle::default();
    for d in &items[1].list().ok_or("defs")?[1..] {
        let parts = d.list().ok_or("def")?;
        out.defs.push((
            name_of(&parts[0]).ok_or("def path")?,
            name_of(&parts[1]).ok_or("def name")?,
            decisions(parts[2].list().ok_or("def decisions")?),
        ));
    }
    out.entry = decisions(&items[2].list().ok_or("entry")?[1..]);
    for e in &items[3].list().ok_or("errors")?[1..] {
        match e {
            Sexp::Atom(a) => out.errors.push((a.clone(), vec![])),
            Sexp::List(parts) => out.errors.push((
                parts[0].atom().unwrap_or("?").to_owned(),
                parts[1..].iter().map(|p| name_of(p).unwrap_or_default()).collect(),
            )),
        }
    }
    Ok(out)
}

const REQUIRE_HEAD: &str = "(call (var x72657175697265) - ";

/// rewrite the k-th matched require call of a block S-expression as the k-th decision says
fn substitute(block_sexp: &str, m_ident: &str, decisions: &[Option<String>]) -> Result<String, String> {
    let mut out = String::with_capacity(block_sexp.len());
    let mut at = 0;
    let mut k = 0;
    while let Some(i) = block_sexp[at..].find(REQUIRE_HEAD) {
        let start = at + i;
        let after = start + REQUIRE_HEAD.len();
        let rest = &block_sexp[after..];
        // t|s, then exactly one string literal argument
        let matched = (rest.starts_with("t (str x") || rest.starts_with("s (str x"))
            && rest[8..].find(')').map(|e| rest[8 + e..].starts_with("))") && rest[8..8 + e].bytes().all(|b| b.is_ascii_hexdigit())).unwrap_or(false);
        if !matched {
            out.push_str(&block_sexp[at..after]);
            at = after;
            continue;
        }
        let end = after + 8 + rest[8..].find(')').unwrap() + 2;
        out.push_str(&block_sexp[at..start]);
        match decisions.get(k) {
            None => return Err(format!("more require calls in the source than sites ({})", decisions.len())),
            Some(None) => out.push_str(&block_sexp[start..end]),
            Some(Some(name)) => out.push_str(&format!("(call (field (var {}) {}) - t)", hex(m_ident.as_bytes()), hex(name.as_bytes()))),
        }
        k += 1;
        at = end;
    }
    out.push_str(&block_sexp[at..]);
    if k != decisions.len() {
        return Err(format!("{} require calls in the source, {} sites", k, decisions.len()));
    }
    Ok(out)
}

fn file_text<'a>(r: &'a Rendered, path: &str) -> Option<&'a str> {
    r.files.iter().find(|(p, _)| p == path).map(|(_, c)| c.as_str())
}

/// the bundled block the model predicts: Lean `assemble` over the rewritten sources
pub fn expected_bundle(model: &mut Model, r: &Rendered, mb: &ModelBundle) -> Result<String, String> {
    let m_ident = r.modules_identifier.clone().unwrap_or_else(|| "__DARKLUA_BUNDLE_MODULES".to_owned());
    let mut mods = Vec::new();
    for (path, name, decs) in &mb.defs {
        let source = match r.data_lua.get(path) {
            Some(lua) => lua.clone(),
            None => file_text(r, path).ok_or("missing file")?.to_owned(),
        };
        let block = exec::parse(&source).map_err(|e| format!("harness cannot parse {}: {}", path, e))?;
        let body = substitute(&astsexp::block_to_sexp(&block), &m_ident, decs)?;
        mods.push(format!("({} {})", hex(name.as_bytes()), body));
    }
    let entry_block = exec::parse(file_text(r, &r.entry).ok_or("missing entry")?).map_err(|e| format!("entry: {}", e))?;
    let entry = substitute(&astsexp::block_to_sexp(&entry_block), &m_ident, &mb.entry)?;
    Ok(model.ask(&format!("c05.assemble {} ({}) {}", hex(m_ident.as_bytes()), mods.join(" "), entry)))
}

// ------------------------------------------------------------------ the property's own view of a graph

#[derive(Clone, Debug, Default)]
pub struct Expectation {
    /// files (or looked-for paths) that are defective and reachable: an error must name them
    pub must_name: Vec<String>,
    pub cyclic: bool,
    /// nodes on some reachable cycle
    pub on_cycle: BTreeSet<String>,
    /// reachable malformed data files (listed finding: the error does not name them)
    pub unnamed_data: Vec<String>,
    /// a required module shadows `require` at a call site (listed finding F8)
    pub module_shadow: bool,
    pub reachable: BTreeSet<String>,
}

impl Expectation {
    pub fn clean(&self) -> bool {
        self.must_name.is_empty() && !self.cyclic && self.unnamed_data.is_empty()
    }
}

pub fn expectation(r: &Rendered) -> Expectation {
    let index: BTreeMap<&str, usize> = r.files.iter().enumerate().map(|(i, (p, _))| (p.as_str(), i)).collect();
    let entry = index[r.entry.as_str()];
    let mut exp = Expectation::default();
    // edges the textbook semantics follows
    let edges = |i: usize, is_entry: bool| -> Vec<&SiteInfo> {
        let _ = is_entry;
        if r.shapes[i].starts_with("lua:") { r.sites[i].iter().filter(|s| !s.shadowed).collect() } else { Vec::new() }
    };
    let mut color: BTreeMap<usize, u8> = BTreeMap::new();
    // iterative DFS with an explicit stack of (node, next edge)
    let mut stack: Vec<(usize, usize, bool)> = vec![(entry, 0, true)];
    let mut path: Vec<usize> = Vec::new();
    // the entry itself is only "on the stack" when required as a module
    while let Some((node, next, is_entry)) = stack.pop() {
        let es = edges(node, is_entry);
        if next == 0 && !is_entry {
            color.insert(node, 1);
            path.push(node);
            exp.reachable.insert(r.files[node].0.clone());
            match r.shapes[node].as_str() {
                "lua:one" | "data" => {}
                _ => exp.must_name.push(r.files[node].0.clone()),
            }
            if r.sites[node].iter().any(|s| s.shadowed) {
                exp.module_shadow = true;
            }
        }
        if next < es.len() {
            stack.push((node, next + 1, is_entry));
            let s = es[next];
            if let Some(q) = s.target.strip_prefix("notfound:") {
                if !exp.must_name.iter().any(|x| x == q) {
                    exp.must_name.push(q.to_owned());
                }
            } else if let Some(p) = s.target.strip_prefix("file:") {
                if let Some(&j) = index.get(p) {
                    match color.get(&j) {
                        None => stack.push((j, 0, false)),
                        Some(1) => {
                            exp.cyclic = true;
                            let from = path.iter().position(|&x| x == j).unwrap_or(0);
                            for &x in &path[from..] {
                                exp.on_cycle.insert(r.files[x].0.clone());
                            }
                        }
                        _ => {}
                    }
                }
            }
        } else if !is_entry {
            color.insert(node, 2);
            path.pop();
        }
    }
    // nodes on a cycle: x reaches x (independent of the traversal order above)
    exp.on_cycle.clear();
    let nodes: Vec<usize> = color.keys().cloned().collect();
    let succ = |i: usize| -> Vec<usize> {
        edges(i, false).iter().filter_map(|s| s.target.strip_prefix("file:").and_then(|p| index.get(p).cloned())).collect()
    };
    for &x in &nodes {
        let mut seen: BTreeSet<usize> = BTreeSet::new();
        let mut todo = succ(x);
        while let Some(y) = todo.pop() {
            if seen.insert(y) {
                todo.extend(succ(y));
            }
        }
        if seen.contains(&x) {
            exp.on_cycle.insert(r.files[x].0.clone());
        }
    }
    exp
}

// ------------------------------------------------------------------ execution

fn extern_list() -> String {
    let mut names: Vec<String> = progen::EXTERNS.iter().map(|n| hex(n.as_bytes())).collect();
    names.push(hex(b"require"));
    format!("({})", names.join(" "))
}

pub fn run_text(model: &mut Model, code: &str) -> Result<String, String> {
    let block = exec::parse(code)?;
    Ok(model.ask(&format!("sem.run {} {} {}", LEVEL, extern_list(), astsexp::block_to_sexp(&block))))
}

pub fn rendered_json(r: &Rendered) -> Value {
    json!({
        "mode": r.mode, "entry": r.entry, "excludes": r.excludes, "modules_identifier": r.modules_identifier,
        "aliases": r.aliases.iter().map(|(k, v)| json!([k, v])).collect::<Vec<_>>(),
        "files": r.files.iter().map(|(p, c)| json!([p, c])).collect::<Vec<_>>(),
        "shapes": r.shapes,
        "sites": r.sites.iter().map(|ss| ss.iter().map(|s| json!({"literal": s.literal, "string_form": s.string_form, "shadowed": s.shadowed, "target": s.target})).collect::<Vec<_>>()).collect::<Vec<_>>(),
        "reference": r.reference,
        "data_lua": r.data_lua,
        "batch": r.batch.as_ref().map(|b| json!({"entries": b.entries, "extra_files": b.extra_files.iter().map(|(p, c)| json!([p, c])).collect::<Vec<_>>()})),
    })
}

pub fn rendered_from_json(v: &Value) -> Option<Rendered> {
    let mut r = Rendered::default();
    r.mode = v["mode"].as_str()?.to_owned();
    r.entry = v["entry"].as_str()?.to_owned();
    r.excludes = v["excludes"].as_array()?.iter().filter_map(|x| x.as_str().map(|s| s.to_owned())).collect();
    r.modules_identifier = v["modules_identifier"].as_str().map(|s| s.to_owned());
    if let Some(list) = v["aliases"].as_array() {
        for a in list {
            r.aliases.push((a[0].as_str()?.to_owned(), a[1].as_str()?.to_owned()));
        }
    }
    for f in v["files"].as_array()? {
        r.files.push((f[0].as_str()?.to_owned(), f[1].as_str()?.to_owned()));
    }
    r.shapes = v["shapes"].as_array()?.iter().filter_map(|x| x.as_str().map(|s| s.to_owned())).collect();
    for ss in v["sites"].as_array()? {
        let mut list = Vec::new();
        for s in ss.as_array()? {
            list.push(SiteInfo {
                literal: s["literal"].as_str()?.to_owned(),
                string_form: s["string_form"].as_bool()?,
                shadowed: s["shadowed"].as_bool()?,
                target: s["target"].as_str()?.to_owned(),
            });
        }
        r.sites.push(list);
    }
    r.reference = v["reference"].as_str().map(|s| s.to_owned());
    if let Some(map) = v["data_lua"].as_object() {
        for (k, val) in map {
            r.data_lua.insert(k.clone(), val.as_str()?.to_owned());
        }
    }
    if v["batch"].is_object() {
        let mut b = g::Batch::default();
        b.entries = v["batch"]["entries"].as_array()?.iter().filter_map(|x| x.as_str().map(|s| s.to_owned())).collect();
        for f in v["batch"]["extra_files"].as_array()? {
            b.extra_files.push((f[0].as_str()?.to_owned(), f[1].as_str()?.to_owned()));
        }
        r.batch = Some(b);
    }
    Some(r)
}

include!("c05_check.rs");
