//! Token descriptions shared by the real code and the Lean model: construction of real tokens,
//! recovery of token data from `Debug` output (fields are private), S-expression codec.
use crate::model::{hex, unhex};
use darklua_core::nodes::{Position, Token, Trivia, TriviaKind};

#[derive(Clone, Debug, PartialEq, Eq, Hash)]
pub enum Pos {
    Ref(usize, usize, usize),
    Ln(Vec<u8>, usize),
    Any(Vec<u8>),
}

#[derive(Clone, Debug, PartialEq, Eq, Hash)]
pub struct Triv {
    pub comment: bool,
    pub pos: Pos,
}

#[derive(Clone, Debug, PartialEq, Eq, Hash)]
pub struct Tok {
    pub pos: Pos,
    pub leading: Vec<Triv>,
    pub trailing: Vec<Triv>,
}

impl Pos {
    pub fn sexp(&self) -> String {
        match self {
            Pos::Ref(s, e, l) => format!("(ref {} {} {})", s, e, l),
            Pos::Ln(c, l) => format!("(ln {} {})", hex(c), l),
            Pos::Any(c) => format!("(any {})", hex(c)),
        }
    }
    pub fn is_ref(&self) -> bool {
        matches!(self, Pos::Ref(..))
    }
    fn real(&self) -> Option<Position> {
        Some(match self {
            Pos::Ref(s, e, l) => Position::LineNumberReference { start: *s, end: *e, line_number: *l },
            Pos::Ln(c, l) => Position::LineNumber {
                content: String::from_utf8(c.clone()).ok()?.into(),
                line_number: *l,
            },
            Pos::Any(c) => Position::Any { content: String::from_utf8(c.clone()).ok()?.into() },
        })
    }
}

impl Triv {
    pub fn sexp(&self) -> String {
        format!("({} {})", if self.comment { "c" } else { "w" }, self.pos.sexp())
    }
    /// only `ref` and `any` trivia can be built through the public API
    pub fn real(&self) -> Option<Trivia> {
        let kind = if self.comment { TriviaKind::Comment } else { TriviaKind::Whitespace };
        match &self.pos {
            Pos::Ref(s, e, l) => Some(kind.at(*s, *e, *l)),
            Pos::Any(c) => Some(kind.with_content(String::from_utf8(c.clone()).ok()?)),
            Pos::Ln(..) => None,
        }
    }
}

impl Tok {
    pub fn sexp(&self) -> String {
        format!(
            "(tok {} ({}) ({}))",
            self.pos.sexp(),
            self.leading.iter().map(Triv::sexp).collect::<Vec<_>>().join(" "),
            self.trailing.iter().map(Triv::sexp).collect::<Vec<_>>().join(" ")
        )
    }
    pub fn real(&self) -> Option<Token> {
        let mut token = Token::from_position(self.pos.real()?);
        for t in &self.leading {
            token.push_leading_trivia(t.real()?);
        }
        for t in &self.trailing {
            token.push_trailing_trivia(t.real()?);
        }
        Some(token)
    }
    pub fn has_reference(&self) -> bool {
        self.pos.is_ref()
            || self.leading.iter().any(|t| t.pos.is_ref())
            || self.trailing.iter().any(|t| t.pos.is_ref())
    }
}

// ---- recovering token data from `{:?}` ---------------------------------------------------

struct Scan<'a> {
    s: &'a [u8],
    i: usize,
}

impl<'a> Scan<'a> {
    fn eat(&mut self, lit: &str) -> Option<()> {
        if self.s[self.i..].starts_with(lit.as_bytes()) {
            self.i += lit.len();
            Some(())
        } else {
            None
        }
    }
    fn number(&mut self) -> Option<usize> {
        let start = self.i;
        while self.i < self.s.len() && self.s[self.i].is_ascii_digit() {
            self.i += 1;
        }
        std::str::from_utf8(&self.s[start..self.i]).ok()?.parse().ok()
    }
    /// a Rust `str` Debug literal
    fn string(&mut self) -> Option<Vec<u8>> {
        self.eat("\"")?;
        let text = std::str::from_utf8(&self.s[self.i..]).ok()?;
        let mut out = String::new();
        let mut chars = text.char_indices();
        while let Some((offset, c)) = chars.next() {
            match c {
                '"' => {
                    self.i += offset + 1;
                    return Some(out.into_bytes());
                }
                '\\' => {
                    let (_, e) = chars.next()?;
                    match e {
                        'n' => out.push('\n'),
                        'r' => out.push('\r'),
                        't' => out.push('\t'),
                        '0' => out.push('\0'),
                        '\\' => out.push('\\'),
                        '"' => out.push('"'),
                        '\'' => out.push('\''),
                        'u' => {
                            let (_, open) = chars.next()?;
                            if open != '{' {
                                return None;
                            }
                            let mut value = 0u32;
                            loop {
                                let (_, d) = chars.next()?;
                                if d == '}' {
                                    break;
                                }
                                value = value.checked_mul(16)?.checked_add(d.to_digit(16)?)?;
                            }
                            out.push(char::from_u32(value)?);
                        }
                        _ => return None,
                    }
                }
                other => out.push(other),
            }
        }
        None
    }
    fn pos(&mut self) -> Option<Pos> {
        if self.eat("LineNumberReference { start: ").is_some() {
            let s = self.number()?;
            self.eat(", end: ")?;
            let e = self.number()?;
            self.eat(", line_number: ")?;
            let l = self.number()?;
            self.eat(" }")?;
            Some(Pos::Ref(s, e, l))
        } else if self.eat("LineNumber { content: ").is_some() {
            let c = self.string()?;
            self.eat(", line_number: ")?;
            let l = self.number()?;
            self.eat(" }")?;
            Some(Pos::Ln(c, l))
        } else if self.eat("Any { content: ").is_some() {
            let c = self.string()?;
            self.eat(" }")?;
            Some(Pos::Any(c))
        } else {
            None
        }
    }
    fn trivias(&mut self) -> Option<Vec<Triv>> {
        self.eat("[")?;
        let mut out = Vec::new();
        if self.eat("]").is_some() {
            return Some(out);
        }
        loop {
            self.eat("Trivia { position: ")?;
            let pos = self.pos()?;
            self.eat(", kind: ")?;
            let comment = if self.eat("Comment").is_some() {
                true
            } else {
                self.eat("Whitespace")?;
                false
            };
            self.eat(" }")?;
            out.push(Triv { comment, pos });
            if self.eat(", ").is_some() {
                continue;
            }
            self.eat("]")?;
            return Some(out);
        }
    }
    fn token(&mut self) -> Option<Tok> {
        self.eat("Token { position: ")?;
        let pos = self.pos()?;
        self.eat(", leading_trivia: ")?;
        let leading = self.trivias()?;
        self.eat(", trailing_trivia: ")?;
        let trailing = self.trivias()?;
        self.eat(" }")?;
        Some(Tok { pos, leading, trailing })
    }
}

/// the description of one real token (through its `Debug` output)
pub fn describe(token: &Token) -> Tok {
    let text = format!("{:?}", token);
    let mut scan = Scan { s: text.as_bytes(), i: 0 };
    let tok = scan.token().unwrap_or_else(|| panic!("harness: cannot read back token debug output: {}", text));
    assert_eq!(scan.i, text.len(), "harness: trailing data in token debug output: {}", text);
    tok
}

/// every `Token { … }` of a `{:?}` rendering (of a block, a statement, …), in order of
/// appearance; string literals and char literals of the rendering are skipped
pub fn tokens_of_debug(text: &str) -> Result<Vec<Tok>, String> {
    let bytes = text.as_bytes();
    let mut scan = Scan { s: bytes, i: 0 };
    let mut out = Vec::new();
    while scan.i < bytes.len() {
        let b = bytes[scan.i];
        if b == b'"' {
            scan.string().ok_or_else(|| format!("bad string literal at {}", scan.i))?;
        } else if b == b'\'' {
            // char literal: 'x' or '\…'
            let rest = &text[scan.i + 1..];
            let mut it = rest.char_indices();
            let (_, c) = it.next().ok_or("dangling quote")?;
            if c == '\\' {
                // skip to the closing quote
                let mut closed = false;
                let mut first = true;
                for (off, ch) in it.by_ref() {
                    if ch == '\'' && !first {
                        scan.i += 1 + off + 1;
                        closed = true;
                        break;
                    }
                    first = false;
                }
                if !closed {
                    return Err("unterminated char literal".to_owned());
                }
            } else {
                let (off, q) = it.next().ok_or("dangling char literal")?;
                if q != '\'' {
                    return Err(format!("bad char literal at {}", scan.i));
                }
                scan.i += 1 + off + 1;
            }
        } else if b == b'T'
            && bytes[scan.i..].starts_with(b"Token { position: ")
            && (scan.i == 0 || !(bytes[scan.i - 1].is_ascii_alphanumeric() || bytes[scan.i - 1] == b'_'))
        {
            let at = scan.i;
            out.push(scan.token().ok_or_else(|| format!("bad token rendering at {}", at))?);
        } else {
            scan.i += 1;
        }
    }
    Ok(out)
}

/// the `{:?}` rendering with every string literal blanked (so that markers are only found in
/// the structure, not in token contents)
pub fn debug_structure(text: &str) -> String {
    let bytes = text.as_bytes();
    let mut scan = Scan { s: bytes, i: 0 };
    let mut out = String::with_capacity(text.len());
    while scan.i < bytes.len() {
        if bytes[scan.i] == b'"' {
            if scan.string().is_none() {
                break;
            }
            out.push_str("\"\"");
        } else {
            // copy one char
            let rest = &text[scan.i..];
            let c = rest.chars().next().unwrap();
            out.push(c);
            scan.i += c.len_utf8();
        }
    }
    out
}

/// marker of a method call carrying a type instantiation (`obj:method<<T>>()`): `Method.types`
pub const METHOD_TYPES_MARKER: &str = ", types: Some(";

// ---- S-expressions coming back from the model ----------------------------------------------

#[derive(Clone, Debug, PartialEq, Eq)]
pub enum Sx {
    Atom(String),
    List(Vec<Sx>),
}

pub fn parse_sexp(text: &str) -> Option<Sx> {
    fn go(chars: &[u8], i: &mut usize) -> Option<Sx> {
        while *i < chars.len() && chars[*i] == b' ' {
            *i += 1;
        }
        if *i >= chars.len() {
            return None;
        }
        if chars[*i] == b'(' {
            *i += 1;
            let mut items = Vec::new();
            loop {
                while *i < chars.len() && chars[*i] == b' ' {
                    *i += 1;
                }
                if *i >= chars.len() {
                    return None;
                }
                if chars[*i] == b')' {
                    *i += 1;
                    return Some(Sx::List(items));
                }
                items.push(go(chars, i)?);
            }
        } else if chars[*i] == b')' {
            None
        } else {
            let start = *i;
            while *i < chars.len() && !matches!(chars[*i], b' ' | b'(' | b')') {
                *i += 1;
            }
            Some(Sx::Atom(String::from_utf8(chars[start..*i].to_vec()).ok()?))
        }
    }
    let mut i = 0;
    let sx = go(text.as_bytes(), &mut i)?;
    if text[i..].trim().is_empty() {
        Some(sx)
    } else {
        None
    }
}

impl Sx {
    pub fn atom(&self) -> Option<&str> {
        match self {
            Sx::Atom(a) => Some(a),
            _ => None,
        }
    }
    pub fn list(&self) -> Option<&[Sx]> {
        match self {
            Sx::List(l) => Some(l),
            _ => None,
        }
    }
    fn num(&self) -> Option<usize> {
        self.atom()?.parse().ok()
    }
    fn bytes(&self) -> Option<Vec<u8>> {
        unhex(self.atom()?)
    }
    pub fn pos(&self) -> Option<Pos> {
        let l = self.list()?;
        match (l.first()?.atom()?, l.len()) {
            ("ref", 4) => Some(Pos::Ref(l[1].num()?, l[2].num()?, l[3].num()?)),
            ("ln", 3) => Some(Pos::Ln(l[1].bytes()?, l[2].num()?)),
            ("any", 2) => Some(Pos::Any(l[1].bytes()?)),
            _ => None,
        }
    }
    pub fn triv(&self) -> Option<Triv> {
        let l = self.list()?;
        if l.len() != 2 {
            return None;
        }
        let comment = match l[0].atom()? {
            "c" => true,
            "w" => false,
            _ => return None,
        };
        Some(Triv { comment, pos: l[1].pos()? })
    }
    pub fn tok(&self) -> Option<Tok> {
        let l = self.list()?;
        if l.len() != 4 || l[0].atom()? != "tok" {
            return None;
        }
        Some(Tok {
            pos: l[1].pos()?,
            leading: l[2].list()?.iter().map(Sx::triv).collect::<Option<_>>()?,
            trailing: l[3].list()?.iter().map(Sx::triv).collect::<Option<_>>()?,
        })
    }
    /// `(node (tok…) (tree…))` flattened to its tokens in visiting order
    pub fn tree_tokens(&self, out: &mut Vec<Tok>) -> Option<()> {
        let l = self.list()?;
        if l.len() != 3 || l[0].atom()? != "node" {
            return None;
        }
        for t in l[1].list()? {
            out.push(t.tok()?);
        }
        for k in l[2].list()? {
            k.tree_tokens(out)?;
        }
        Some(())
    }
    pub fn bytes_list(&self) -> Option<Vec<Vec<u8>>> {
        self.list()?.iter().map(Sx::bytes).collect()
    }
}
