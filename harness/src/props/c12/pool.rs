//! Worker pool with per-case `catch_unwind` and a wall-clock watchdog.
use std::cell::RefCell;
use std::collections::VecDeque;
use std::panic::{catch_unwind, AssertUnwindSafe};
use std::sync::{mpsc, Arc, Mutex};
use std::time::{Duration, Instant};

/// stack of every thread that runs darklua code (probe child and workers alike)
pub const STACK_BYTES: usize = 8 * 1024 * 1024;
/// a case running longer than this is reported as a hang
pub const HANG_SECS: u64 = 10;

thread_local! {
    static LAST_PANIC: RefCell<Option<PanicInfo>> = const { RefCell::new(None) };
    static GUARD_DEPTH: std::cell::Cell<u32> = const { std::cell::Cell::new(0) };
}

#[derive(Clone, Debug, PartialEq, Eq)]
pub struct PanicInfo {
    pub message: String,
    /// `file:line:col` of the panic, when known
    pub location: String,
}

impl PanicInfo {
    pub fn file(&self) -> &str {
        self.location.split(':').next().unwrap_or("")
    }
    pub fn describe(&self) -> String {
        format!("{} @ {}", self.message, self.location)
    }
}

/// record message + location of panics on the panicking thread (and keep stderr quiet)
pub fn install_panic_hook() {
    std::panic::set_hook(Box::new(|info| {
        let message = if let Some(s) = info.payload().downcast_ref::<&str>() {
            (*s).to_owned()
        } else if let Some(s) = info.payload().downcast_ref::<String>() {
            s.clone()
        } else {
            "<non-string panic payload>".to_owned()
        };
        let location = info
            .location()
            .map(|l| format!("{}:{}:{}", l.file(), l.line(), l.column()))
            .unwrap_or_default();
        if GUARD_DEPTH.with(|d| d.get()) == 0 {
            // not inside `guarded`: a defect of the harness itself — say so
            eprintln!("C12 harness panic: {} @ {}", message, location);
        }
        LAST_PANIC.with(|p| *p.borrow_mut() = Some(PanicInfo { message, location }));
    }));
}

/// run `f`; `Err` carries the panic's message and location
pub fn guarded<T>(f: impl FnOnce() -> T) -> Result<T, PanicInfo> {
    LAST_PANIC.with(|p| *p.borrow_mut() = None);
    GUARD_DEPTH.with(|d| d.set(d.get() + 1));
    let outcome = catch_unwind(AssertUnwindSafe(f));
    GUARD_DEPTH.with(|d| d.set(d.get() - 1));
    match outcome {
        Ok(v) => Ok(v),
        Err(_) => Err(LAST_PANIC.with(|p| p.borrow_mut().take()).unwrap_or(PanicInfo {
            message: "<panic without hook record>".to_owned(),
            location: String::new(),
        })),
    }
}

pub enum Done<R> {
    Finished(usize, R, Duration),
    /// job index that exceeded the time limit (its thread is abandoned)
    Hung(usize),
}

/// Runs `jobs` on `threads` workers (8 MiB stacks). `work` is called once per job under no
/// `catch_unwind` of its own: it is expected to guard the calls it makes. Results come back in
/// completion order through `sink`. A job exceeding `HANG_SECS` is reported as `Hung` and its
/// worker is abandoned (a replacement worker is started so the queue still drains).
pub fn run_pool<J, R, W, S>(jobs: Vec<J>, threads: usize, work: W, mut sink: S)
where
    J: Send + Sync + 'static,
    R: Send + 'static,
    W: Fn(&J) -> R + Send + Sync + 'static,
    S: FnMut(Done<R>, &J),
{
    let total = jobs.len();
    if total == 0 {
        return;
    }
    let jobs: Arc<Vec<J>> = Arc::new(jobs);
    let queue: Arc<Mutex<VecDeque<usize>>> = Arc::new(Mutex::new((0..total).collect()));
    let work = Arc::new(work);
    let (tx, rx) = mpsc::channel::<(usize, R, Duration)>();
    type Slot = Arc<Mutex<Option<(usize, Instant)>>>;
    let mut slots: Vec<Slot> = Vec::new();

    let spawn_worker = |slots: &mut Vec<Slot>| {
        let slot: Slot = Arc::new(Mutex::new(None));
        slots.push(slot.clone());
        let (jobs, queue, work, tx) = (jobs.clone(), queue.clone(), work.clone(), tx.clone());
        std::thread::Builder::new()
            .stack_size(STACK_BYTES)
            .spawn(move || loop {
                let next = queue.lock().unwrap().pop_front();
                let Some(index) = next else { break };
                let start = Instant::now();
                *slot.lock().unwrap() = Some((index, start));
                let result = work(&jobs[index]);
                let abandoned = slot.lock().unwrap().take().is_none();
                if abandoned {
                    // the watchdog already reported this job as hung and replaced this worker
                    break;
                }
                if tx.send((index, result, start.elapsed())).is_err() {
                    break;
                }
            })
            .expect("cannot spawn worker thread");
    };
    for _ in 0..threads.max(1).min(total) {
        spawn_worker(&mut slots);
    }

    let mut accounted = 0usize;
    while accounted < total {
        match rx.recv_timeout(Duration::from_millis(250)) {
            Ok((index, result, elapsed)) => {
                accounted += 1;
                sink(Done::Finished(index, result, elapsed), &jobs[index]);
            }
            Err(mpsc::RecvTimeoutError::Timeout) => {
                let mut hung = Vec::new();
                for slot in slots.iter() {
                    let mut guard = slot.lock().unwrap();
                    if let Some((index, start)) = *guard {
                        if start.elapsed() > Duration::from_secs(HANG_SECS) {
                            *guard = None; // abandon
                            hung.push(index);
                        }
                    }
                }
                for index in hung {
                    accounted += 1;
                    sink(Done::Hung(index), &jobs[index]);
                    spawn_worker(&mut slots);
                }
            }
            Err(mpsc::RecvTimeoutError::Disconnected) => break,
        }
    }
}

/// run one closure on a fresh 8 MiB thread with the hang limit; `None` = hang
pub fn run_limited<R: Send + 'static>(f: impl FnOnce() -> R + Send + 'static) -> Option<R> {
    run_limited_for(Duration::from_secs(HANG_SECS), f)
}

/// same with an explicit limit (used to confirm a suspected hang on a quiet thread)
pub fn run_limited_for<R: Send + 'static>(limit: Duration, f: impl FnOnce() -> R + Send + 'static) -> Option<R> {
    let (tx, rx) = mpsc::channel();
    std::thread::Builder::new()
        .stack_size(STACK_BYTES)
        .spawn(move || {
            let _ = tx.send(f());
        })
        .expect("cannot spawn thread");
    rx.recv_timeout(limit).ok()
}
