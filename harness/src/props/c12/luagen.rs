//! Input generation: grammar-derived Luau programs, mutations, the truncation corpus,
//! nesting builders, rule configurations.
use crate::rng::Rng;
use serde_json::{json, Value};

const NAMES: &[&str] = &[
    "a", "b", "x", "y", "foo", "value", "self", "t", "math", "debug", "assert", "require", "DEBUG",
    "_G", "print", "string", "i", "k", "v", "obj", "é",
];
const FIELDS: &[&str] = &["x", "y", "sqrt", "floor", "profilebegin", "profileend", "m", "new", "len"];
const MULTIBYTE: &[&str] = &["é", "€", "𝄞", "\u{feff}", "\u{a0}", "\u{2028}", "ß", "漢", "²", "٣", "½", "③", "\u{301}"];

/// string contents, one or more per boundary class tested by the rules and the evaluator
pub const CLASS_CONTENTS: &[&str] = &[
    "abc", "_x", "x1", "end", "nil", "function", "é", "été", "ключ", "名前", "größe_2", "ß", "1a", "9", "",
    " ", "  ", "\t", "12", " 12 ", "0x10", "-5", "- 5", "1e2", "1e400", ".5", "5.", "-", "+", "--", "0x", "1_0",
    "a b", "a-b", "a.b", "Été", "_é", "é1", "١٢", "ⅷ", "true", "inf", "nan", "-0", "0b11", "\\n",
    // byte strings (written with escapes): not UTF-8 / UTF-8 mixed with stray bytes, ending in an
    // escaped byte or in a plain one, control byte followed by a digit, NUL, truncated sequences
    "\\255\\254", "\\0\\255", "\\x89PNG\\r\\n\\x1a\\n", "a\\255", "\\255a", "\\200\\0012", "é\\255", "\\xC3", "\\xE2\\x82",
    "\\3\\4\\200", "\\1\\0019", "\\x7f\\x80", "\\240\\159\\146", "\\u{D800}x", "\\255\\n", "\\n\\255", "\\0", "\\\\\\255", "\\'\\255",
];

fn quoted(content: &str, style: usize) -> String {
    match style % 4 {
        0 => format!("'{}'", content),
        1 => format!("\"{}\"", content),
        2 if !content.contains('\\') => format!("[[{}]]", content),
        3 if !content.contains('\\') => format!("[=[{}]=]", content),
        _ => format!("'{}'", content),
    }
}

/// literals spanning several lines, in every string form (enumerated: each goes through every
/// generator with no rule and through every rule alone)
pub const MULTILINE_TEXTS: &[&str] = &[
    "local s = `a\\\nb{x}c`\nreturn s\n",
    "local s = `{x}\\z\n   y`\nreturn s\n",
    "local s = `\\\n`\nlocal t = `\\z\n\n`\nreturn s, t\n",
    "local s = `{a}mid\\\r\ndle{b}`\nreturn s\n",
    "f(`one\\\ntwo{1}three\\\nfour{2}\\z\n  five`, `é\\\n€{`in\\\nner`}`)\nreturn `last\\\n` -- c\n",
    "local q = 'a\\\nb'\nlocal r = \"\\z\n   x\\\ny\"\nlocal l = [[\nline\n]]\nlocal m = [==[\r\nx]==]\nreturn q .. r .. l .. m\n",
    "local t = {\n  [`k\\\n{1}`] = `v{2}\\z\n  w`,\n}\nprint(`{t}\\\n`)\n",
    "--[[ multi\nline ]] local s = `x{--[[ c\n ]] 1}\\\ny` --[==[\n]==]\nreturn s\n",
];

/// one program per content: the literal in every operand / key / argument position
pub fn class_program(content: &str, rotate: usize) -> String {
    const TEMPLATES: &[&str] = &[
        "local a1 = @ + 1", "local a2 = 1 - @", "local a3 = @ * @", "local a4 = @ / 2", "local a5 = @ // 2",
        "local a6 = 7 % @", "local a7 = @ ^ 2", "local a8 = -@", "local a9 = #@", "local a10 = @ .. 1",
        "local a11 = @ == 1", "local a12 = @ < 'a'", "local a13 = not @", "local a14 = @ and 1 or 2",
        "local a15 = - - @", "local a16 = (@) + (@)", "local t = { [ @ ] = 1, @ }", "local v = t[ @ ]", "t[ @ ] = 2",
        "t[ @ ]()", "f(@)", "f @", "obj:m(@)", "local n = (@):len()", "local s = `{@}`", "if @ then end",
        "a17 += @", "local a18 = if @ then @ else 1", "local a20 = 'PK' .. @", "local a21 = @ .. '\\3\\4\\200'", "local a22 = @ .. @", "local a19 = t[ @ ][ @ ]", "t[ @ ].x = t.x[ @ ]", "return @",
    ];
    let mut out = String::new();
    for (i, template) in TEMPLATES.iter().enumerate() {
        let mut k = 0;
        for part in template.split('@') {
            if k > 0 {
                out.push_str(&quoted(content, rotate + i + k));
            }
            out.push_str(part);
            k += 1;
        }
        out.push('\n');
    }
    out
}

pub struct Gen<'r> {
    pub rng: &'r mut Rng,
    out: String,
    budget: i32,
}

impl<'r> Gen<'r> {
    pub fn program(rng: &'r mut Rng, size: i32) -> String {
        let mut g = Gen { rng, out: String::new(), budget: size };
        if g.rng.chance(1, 12) {
            g.out.push_str("--!strict\n");
        }
        g.block(0, true);
        g.out
    }

    fn name(&mut self) -> &'static str {
        // "é" is not an identifier in Luau: keep it rare (produces a parse error value)
        let n = *self.rng.pick(NAMES);
        if n == "é" && !self.rng.chance(1, 6) {
            "e"
        } else {
            n
        }
    }

    fn ws(&mut self) {
        match self.rng.below(40) {
            0 => self.out.push_str(" -- note\n"),
            1 => self.out.push_str(" --[[ block ]] "),
            2 => self.out.push_str(" --[==[ é€ ]==] "),
            3 => self.out.push_str("\n"),
            4 => self.out.push_str("\t"),
            5 => self.out.push_str("  "),
            6 => self.out.push_str(" --!native\n"),
            7 => self.out.push_str("\r\n"),
            _ => self.out.push(' '),
        }
    }

    fn put(&mut self, s: &str) {
        self.out.push_str(s);
        self.ws();
    }

    fn block(&mut self, depth: u32, top: bool) {
        let n = if top { 1 + self.rng.below(5) } else { self.rng.below(3) };
        for _ in 0..n {
            if self.budget <= 0 {
                break;
            }
            self.statement(depth);
            if self.rng.chance(1, 10) {
                self.put(";");
            }
        }
        if self.rng.chance(1, 5) {
            match self.rng.below(4) {
                0 => {
                    self.put("return");
                    if self.rng.chance(2, 3) {
                        self.exprlist(depth, 2);
                    }
                }
                1 if !top => self.put("break"),
                2 if !top => self.put("continue"),
                _ => {
                    self.put("return");
                    self.expr(depth);
                }
            }
        }
    }

    fn exprlist(&mut self, depth: u32, max: usize) {
        let n = 1 + self.rng.below(max);
        for i in 0..n {
            if i > 0 {
                self.put(",");
            }
            self.expr(depth);
        }
    }

    fn statement(&mut self, depth: u32) {
        self.budget -= 1;
        let deep = depth >= 3;
        match self.rng.below(if deep { 9 } else { 22 }) {
            0 => {
                self.put("local");
                let n = 1 + self.rng.below(2);
                for i in 0..n {
                    if i > 0 {
                        self.put(",");
                    }
                    let name = self.name();
                    self.put(name);
                    if self.rng.chance(1, 5) {
                        self.put(":");
                        self.ty(depth);
                    }
                }
                if self.rng.chance(4, 5) {
                    self.put("=");
                    if self.rng.chance(1, 6) {
                        self.put("nil");
                    } else {
                        self.exprlist(depth, 2);
                    }
                }
            }
            1 => {
                self.var(depth);
                self.put("=");
                self.expr(depth);
            }
            2 => {
                self.var(depth);
                let op = *self.rng.pick(&["+=", "-=", "*=", "/=", "//=", "%=", "^=", "..="]);
                self.put(op);
                self.expr(depth);
            }
            3 => self.call(depth),
            4 => {
                let c = *self.rng.pick(&[
                    "t['été'] = 1", "local r = t[\"clé\"]", "local e = '' + 1", "local u = -\"\"", "local w = '  ' * 2",
                    "local k = t['end']", "local d = t['1a']", "local h = \"0x10\" + 0", "local g = #''",
                    "assert(x)", "debug.profilebegin('a')", "debug.profileend()", "print(math.sqrt(x))",
                    "local m = require('./m')", "obj:m(1)", "f'str'", "f{1}", "local z = t['key']",
                    "local q = a // b",
                ]);
                self.put(c);
            }
            5 => {
                self.put("local");
                self.put("function");
                let name = self.name();
                self.put(name);
                self.funcbody(depth);
            }
            6 => {
                self.put("local");
                let name = self.name();
                self.put(name);
                self.put("=");
                self.put("nil");
            }
            7 => {
                self.put("do");
                if !deep {
                    self.block(depth + 1, false);
                }
                self.put("end");
            }
            8 => {
                let name = self.name();
                self.put(name);
                self.put("=");
                self.expr(depth);
            }
            9 => {
                self.put("while");
                if self.rng.chance(1, 3) {
                    self.put("false");
                } else {
                    self.expr(depth);
                }
                self.put("do");
                self.block(depth + 1, false);
                self.put("end");
            }
            10 => {
                self.put("repeat");
                self.block(depth + 1, false);
                self.put("until");
                self.expr(depth);
            }
            11 => {
                self.put("if");
                if self.rng.chance(1, 3) {
                    let c = *self.rng.pick(&["true", "false", "nil", "1"]);
                    self.put(c);
                } else {
                    self.expr(depth);
                }
                self.put("then");
                self.block(depth + 1, false);
                for _ in 0..self.rng.below(3) {
                    self.put("elseif");
                    self.expr(depth);
                    self.put("then");
                    self.block(depth + 1, false);
                }
                if self.rng.chance(1, 2) {
                    self.put("else");
                    self.block(depth + 1, false);
                }
                self.put("end");
            }
            12 => {
                self.put("for");
                let name = self.name();
                self.put(name);
                self.put("=");
                self.expr(depth);
                self.put(",");
                self.expr(depth);
                if self.rng.chance(1, 3) {
                    self.put(",");
                    self.expr(depth);
                }
                self.put("do");
                self.block(depth + 1, false);
                self.put("end");
            }
            13 => {
                self.put("for");
                self.put("k");
                if self.rng.chance(1, 2) {
                    self.put(",");
                    self.put("v");
                }
                self.put("in");
                self.exprlist(depth, 2);
                self.put("do");
                self.block(depth + 1, false);
                self.put("end");
            }
            14 => {
                if self.rng.chance(1, 4) {
                    let a = *self.rng.pick(&["@native", "@checked", "@deprecated", "@[native]"]);
                    self.put(a);
                }
                self.put("function");
                let name = self.name();
                self.put(name);
                for _ in 0..self.rng.below(2) {
                    self.put(".");
                    let f = *self.rng.pick(FIELDS);
                    self.put(f);
                }
                if self.rng.chance(1, 3) {
                    self.put(":");
                    let f = *self.rng.pick(FIELDS);
                    self.put(f);
                }
                self.funcbody(depth);
            }
            15 => {
                if self.rng.chance(1, 3) {
                    self.put("export");
                }
                self.put("type");
                let n = *self.rng.pick(&["T", "Obj", "Fn", "Map"]);
                self.put(n);
                if self.rng.chance(1, 4) {
                    self.put("<");
                    self.put("K");
                    if self.rng.chance(1, 2) {
                        self.put(",");
                        self.put("V...");
                    }
                    self.put(">");
                }
                self.put("=");
                self.ty(depth);
            }
            16 => {
                self.put("local");
                let name = self.name();
                self.put(name);
                self.put("=");
                self.interp(depth);
            }
            17 => {
                self.put("local");
                let name = self.name();
                self.put(name);
                self.put("=");
                self.put("if");
                self.expr(depth);
                self.put("then");
                self.expr(depth);
                self.put("else");
                self.expr(depth);
            }
            18 => {
                self.put("local");
                self.put("s");
                self.put("=");
                self.string();
            }
            19 => {
                // statement starting with a parenthese after a statement ending with a prefix
                self.put("local");
                self.put("w");
                self.put("=");
                self.put("f");
                self.put("(");
                self.put("g");
                self.put(")");
                self.put(".");
                self.put("x");
                self.put("=");
                self.expr(depth);
            }
            20 => {
                self.put("local");
                self.put("n");
                self.put("=");
                self.number();
            }
            _ => self.call(depth),
        }
    }

    fn funcbody(&mut self, depth: u32) {
        if self.rng.chance(1, 8) {
            self.put("<");
            self.put("T");
            self.put(">");
        }
        self.put("(");
        let n = self.rng.below(3);
        for i in 0..n {
            if i > 0 {
                self.put(",");
            }
            let name = self.name();
            self.put(name);
            if self.rng.chance(1, 4) {
                self.put(":");
                self.ty(depth);
            }
        }
        if self.rng.chance(1, 4) {
            if n > 0 {
                self.put(",");
            }
            self.put("...");
            if self.rng.chance(1, 3) {
                self.put(":");
                self.put("number");
            }
        }
        self.put(")");
        if self.rng.chance(1, 5) {
            self.put(":");
            self.ty(depth);
        }
        if depth < 4 {
            self.block(depth + 1, false);
        }
        self.put("end");
    }

    fn var(&mut self, depth: u32) {
        let name = self.name();
        self.put(name);
        match self.rng.below(4) {
            0 => {
                self.put(".");
                let f = *self.rng.pick(FIELDS);
                self.put(f);
            }
            1 => {
                self.put("[");
                self.expr(depth + 1);
                self.put("]");
            }
            _ => {}
        }
    }

    fn call(&mut self, depth: u32) {
        let name = self.name();
        self.put(name);
        match self.rng.below(5) {
            0 => {
                self.put(".");
                let f = *self.rng.pick(FIELDS);
                self.put(f);
            }
            1 => {
                self.put(":");
                let f = *self.rng.pick(FIELDS);
                self.put(f);
            }
            _ => {}
        }
        match self.rng.below(8) {
            0 => self.string(),
            1 => self.table(depth + 1),
            2 => {
                self.put("<<");
                self.ty(depth);
                self.put(">>");
                self.put("(");
                self.put(")");
            }
            _ => {
                self.put("(");
                if self.rng.chance(2, 3) {
                    self.exprlist(depth + 1, 3);
                }
                self.put(")");
            }
        }
    }

    fn number(&mut self) {
        let n = *self.rng.pick(&[
            "0", "1", "2", "10", "0.5", ".5", "5.", "1e3", "1E-2", "0x10", "0XfF", "0b101", "1_000", "0x_ff",
            "1e308", "1e309", "0xffffffffffffffff", "9007199254740993", "3.14159", "0b1111_0000",
        ]);
        self.put(n);
    }

    /// string literals whose CONTENT falls in one of the boundary classes the rules and the
    /// evaluator test: identifier-shaped, keyword, non-ASCII letters only, digit-first, empty,
    /// whitespace-only, numeric-looking (decimal, hex, signed, padded, exponent), lone sign
    fn class_string(&mut self) {
        let content = *self.rng.pick(CLASS_CONTENTS);
        let literal = match self.rng.below(4) {
            0 => format!("\"{}\"", content),
            1 if !content.contains('\\') => format!("[[{}]]", content),
            2 if !content.contains('\\') => format!("[=[{}]=]", content),
            _ => format!("'{}'", content),
        };
        self.put(&literal);
    }

    /// a quoted literal made of random items: plain ASCII, valid multi-byte characters, escaped
    /// bytes (decimal / hex, >= 128 or control), so that valid and invalid UTF-8 values, values
    /// ending in an escaped or in a plain byte, and control bytes followed by digits all occur
    fn byte_string(&mut self) {
        let quote = *self.rng.pick(&['\'', '"']);
        let mut literal = String::new();
        literal.push(quote);
        for _ in 0..(1 + self.rng.below(6)) {
            match self.rng.below(8) {
                0 => literal.push(*self.rng.pick(&['a', 'Z', ' ', '0', '7', '9', '-', '[', ']', '='])),
                1 => literal.push_str(*self.rng.pick(&["é", "€", "𝄞", "ß"])),
                2 => literal.push_str(&format!("\\{}", 128 + self.rng.below(128))),
                3 => literal.push_str(&format!("\\x{:02x}", 128 + self.rng.below(128))),
                4 => literal.push_str(&format!("\\{}", self.rng.below(32))),
                5 => literal.push_str(&format!("\\{:03}", self.rng.below(256))),
                6 => literal.push_str(*self.rng.pick(&["\\n", "\\r", "\\t", "\\0", "\\\\", "\\'", "\\\"", "\\a", "\\x1a"])),
                _ => literal.push_str(*self.rng.pick(&["\\xC3", "\\xE2\\x82", "\\xF0\\x9F", "\\u{D800}", "\\u{7FF}", "\\xC3\\xA9"])),
            }
        }
        literal.push(quote);
        self.put(&literal);
    }

    fn string(&mut self) {
        match self.rng.below(6) {
            0 | 1 | 2 => return self.class_string(),
            3 => return self.byte_string(),
            _ => {}
        }
        let s = *self.rng.pick(&[
            "'a'", "\"b\"", "''", "\"\"", "[[long]]", "[==[ ]] ]==]", "'é€'", "\"\\n\\t\\\\\"", "'\\65\\x41\\u{48}'",
            "\"\\z\n   x\"", "[[\nline]]", "'it\\'s'", "\"𝄞\"", "'\\u{10FFFF}'", "\"\\255\"", "'--not a comment'",
            "\"a\\\nb\"", "'\\x89PNG\\r\\n\\x1a\\n'", "'\\255\\254'", "'\\0\\255'", "'PK' .. '\\3\\4\\200'", "\"\\200\\0012\"",
            "'a\\\r\nb'", "\"\\z\r\n\t x\\z\n\ny\"", "[[\r\nline]]", "[=[\n\n]=]",
        ]);
        self.put(s);
    }

    /// a literal part of an interpolated string; half of them span several lines
    fn interp_literal(&mut self) -> &'static str {
        *self.rng.pick(&[
            "", "a", "é€", " x ", "\\n", "\\{", "\\`", "a\\\nb", "\\\n", "\\z\n   y", "mid\\\r\ndle", "\\z\n\n  ", "x\\\n\\\ny",
            "é\\z\r\n €", "\\\n\\z\n", "tail\\\n",
        ])
    }

    fn interp(&mut self, depth: u32) {
        match self.rng.below(14) {
            12 | 13 => {
                // a value segment whose LEFT SPINE (binary operators / type casts, 1-3 levels deep) ends in
                // a table: the generators must keep the `{` of the segment apart from the `{` of the table
                // at every depth of the spine (utils::starts_with_table) — seeded C12-m9
                self.out.push_str("`{ ");
                self.table(depth + 2);
                for _ in 0..(1 + self.rng.below(3)) {
                    if self.rng.chance(1, 3) {
                        self.out.push_str(" :: any");
                    } else {
                        let op = *self.rng.pick(&[" + ", " .. ", " == ", " and ", " or ", " < ", " * "]);
                        self.out.push_str(op);
                        let leaf = *self.rng.pick(&["1", "x", "nil", "'s'", "{}"]);
                        self.out.push_str(leaf);
                    }
                }
                self.out.push_str(" }`");
                self.ws();
            }
            6 => self.put("`a\\\nb{x}c`"),
            7 => self.put("`{x}\\z\n   y`"),
            8 => self.put("`\\\n`"),
            9 => self.put("`{a}mid\\\r\ndle{b}`"),
            10 | 11 => {
                // literal parts (single- and multi-line) alternating with values
                self.out.push('`');
                let parts = 1 + self.rng.below(3);
                for i in 0..parts {
                    if self.rng.chance(1, 2) {
                        let segment = random_segment(self.rng);
                        self.out.push_str(&segment);
                    }
                    let literal = self.interp_literal();
                    self.out.push_str(literal);
                    if i + 1 < parts || self.rng.chance(1, 2) {
                        self.out.push('{');
                        self.expr(depth + 3);
                        self.out.push('}');
                    }
                }
                let literal = self.interp_literal();
                self.out.push_str(literal);
                if self.rng.chance(1, 2) {
                    let segment = random_segment(self.rng);
                    self.out.push_str(&segment);
                }
                self.out.push('`');
                self.ws();
            }
            0 => self.put("`plain`"),
            1 => self.put("``"),
            2 => {
                self.out.push_str("`a{");
                self.expr(depth + 2);
                self.out.push_str("}b`");
                self.ws();
            }
            3 => self.put("`é{x}€{y}`"),
            4 => self.put("`\\{ \\n \\` {1}`"),
            _ => {
                self.out.push_str("`{");
                self.expr(depth + 2);
                self.out.push_str("}{");
                self.expr(depth + 2);
                self.out.push_str("}`");
                self.ws();
            }
        }
    }

    fn table(&mut self, depth: u32) {
        self.put("{");
        let n = if depth > 3 { 0 } else { self.rng.below(4) };
        for i in 0..n {
            match self.rng.below(3) {
                0 => self.expr(depth + 1),
                1 => {
                    let f = *self.rng.pick(FIELDS);
                    self.put(f);
                    self.put("=");
                    self.expr(depth + 1);
                }
                _ => {
                    self.put("[");
                    self.expr(depth + 1);
                    self.put("]");
                    self.put("=");
                    self.expr(depth + 1);
                }
            }
            if i + 1 < n || self.rng.chance(1, 3) {
                let sep = *self.rng.pick(&[",", ";"]);
                self.put(sep);
            }
        }
        self.put("}");
    }

    pub fn expr(&mut self, depth: u32) {
        self.budget -= 1;
        if depth > 4 || self.budget < -20 {
            let leaf = *self.rng.pick(&["1", "x", "nil", "true", "'s'", "..."]);
            self.put(leaf);
            return;
        }
        match self.rng.below(27) {
            0 => self.put("nil"),
            1 => self.put("true"),
            2 => self.put("false"),
            3 | 4 => self.number(),
            5 => self.string(),
            6 => self.put("..."),
            7 | 8 => {
                let name = self.name();
                self.put(name);
            }
            9 => self.table(depth + 1),
            10 => {
                self.put("function");
                self.funcbody(depth + 1);
            }
            11 | 12 | 13 => {
                self.expr(depth + 1);
                let op = *self.rng.pick(&[
                    "+", "-", "*", "/", "//", "%", "^", "..", "==", "~=", "<", "<=", ">", ">=", "and", "or",
                ]);
                self.put(op);
                self.expr(depth + 1);
            }
            14 => {
                let op = *self.rng.pick(&["-", "not", "#"]);
                self.put(op);
                if self.rng.chance(1, 3) {
                    self.class_string();
                } else {
                    self.expr(depth + 1);
                }
            }
            15 => {
                self.put("(");
                self.expr(depth + 1);
                self.put(")");
            }
            16 => self.call(depth + 1),
            17 => self.var(depth + 1),
            18 => {
                self.put("if");
                self.expr(depth + 1);
                self.put("then");
                self.expr(depth + 1);
                if self.rng.chance(1, 3) {
                    self.put("elseif");
                    self.expr(depth + 1);
                    self.put("then");
                    self.expr(depth + 1);
                }
                self.put("else");
                self.expr(depth + 1);
            }
            19 => self.interp(depth + 1),
            20 => {
                self.put("(");
                self.expr(depth + 1);
                self.put(")");
                self.put("::");
                self.ty(depth + 1);
            }
            21 => {
                let c = *self.rng.pick(&["math.sqrt(x)", "math.floor(a / b)", "a // b", "-2 ^ 2", "1 .. 2", "t[u[1]]"]);
                self.put(c);
            }
            22 => {
                self.put("(");
                self.call(depth + 1);
                self.put(")");
            }
            23 | 24 => {
                // a class string as operand of every arithmetic / comparison / concat operator
                let op = *self.rng.pick(&["+", "-", "*", "/", "//", "%", "^", "..", "==", "<", "<=", "and", "or"]);
                if self.rng.chance(1, 2) {
                    self.class_string();
                    self.put(op);
                    if self.rng.chance(1, 2) { self.class_string() } else { self.expr(depth + 1) }
                } else {
                    self.expr(depth + 1);
                    self.put(op);
                    self.class_string();
                }
            }
            25 => {
                // class strings as index keys and table keys
                match self.rng.below(3) {
                    0 => {
                        let name = self.name();
                        self.put(name);
                        self.put("[");
                        self.class_string();
                        self.put("]");
                    }
                    1 => {
                        self.put("{");
                        self.put("[");
                        self.class_string();
                        self.put("]");
                        self.put("=");
                        self.expr(depth + 1);
                        self.put("}");
                    }
                    _ => {
                        self.put("(");
                        self.class_string();
                        self.put(")");
                        self.put(":");
                        self.put("len");
                        self.put("(");
                        self.put(")");
                    }
                }
            }
            _ => {
                let name = self.name();
                self.put(name);
            }
        }
    }

    fn ty(&mut self, depth: u32) {
        if depth > 4 {
            self.put("number");
            return;
        }
        match self.rng.below(14) {
            0 => self.put("number"),
            1 => self.put("string"),
            2 => self.put("nil"),
            3 => self.put("true"),
            4 => self.put("'lit'"),
            5 => {
                self.ty(depth + 1);
                self.put("?");
            }
            6 => {
                self.ty(depth + 1);
                self.put("|");
                self.ty(depth + 1);
            }
            7 => {
                self.ty(depth + 1);
                self.put("&");
                self.ty(depth + 1);
            }
            8 => {
                self.put("{");
                self.ty(depth + 1);
                self.put("}");
            }
            9 => {
                self.put("{");
                self.put("x");
                self.put(":");
                self.ty(depth + 1);
                if self.rng.chance(1, 2) {
                    self.put(",");
                    self.put("[");
                    self.put("string");
                    self.put("]");
                    self.put(":");
                    self.ty(depth + 1);
                }
                self.put("}");
            }
            10 => {
                self.put("(");
                if self.rng.chance(1, 2) {
                    self.put("a");
                    self.put(":");
                    self.ty(depth + 1);
                    if self.rng.chance(1, 2) {
                        self.put(",");
                        self.put("...");
                        self.put("number");
                    }
                }
                self.put(")");
                self.put("->");
                if self.rng.chance(1, 3) {
                    self.put("(");
                    self.put(")");
                } else {
                    self.ty(depth + 1);
                }
            }
            11 => {
                self.put("typeof");
                self.put("(");
                self.expr(depth + 2);
                self.put(")");
            }
            12 => {
                self.put("Map");
                self.put("<");
                self.ty(depth + 1);
                self.put(",");
                self.ty(depth + 1);
                self.put(">");
            }
            _ => {
                self.put("mod");
                self.put(".");
                self.put("T");
            }
        }
    }
}

/// `count` edits of the text: delete / insert / replace / duplicate / swap, on char boundaries
pub fn mutate(rng: &mut Rng, text: &str, count: usize) -> String {
    const INSERTS: &[&str] = &[
        "(", ")", "{", "}", "[", "]", "`", "\"", "'", "--", "--[[", "]]", "[[", "end", "then", "do", "=", "==",
        "..", "...", ":", "::", ",", ";", "\\", "\n", "\0", "é", "€", "𝄞", "\u{feff}", "function", "local", "if",
        "return", "0x", "1e", "@", "<", ">", "<<", ">>", "->", "?", "|", "&", "#", "~", "\\u{D7FF}", "\\x4", "{}", " ",
    ];
    let mut chars: Vec<char> = text.chars().collect();
    for _ in 0..count {
        let len = chars.len();
        let at = if len == 0 { 0 } else { rng.below(len + 1) };
        match rng.below(6) {
            0 if len > 0 => {
                let at = at.min(len - 1);
                let n = 1 + rng.below(4.min(len - at));
                chars.drain(at..at + n);
            }
            1 | 2 => {
                let ins: Vec<char> = rng.pick(INSERTS).chars().collect();
                for (k, c) in ins.into_iter().enumerate() {
                    chars.insert(at + k, c);
                }
            }
            3 if len > 0 => {
                let at = at.min(len - 1);
                chars[at] = char::from_u32(rng.below(0x250) as u32).unwrap_or('?');
            }
            4 if len > 2 => {
                let a = rng.below(len - 1);
                let n = 1 + rng.below((len - a).min(12));
                let span: Vec<char> = chars[a..a + n].to_vec();
                for (k, c) in span.into_iter().enumerate() {
                    chars.insert(at.min(chars.len()) + 0 * k, c);
                }
            }
            5 if len > 1 => {
                let a = rng.below(len);
                let b = rng.below(len);
                chars.swap(a, b);
            }
            _ => {
                chars.insert(at, *rng.pick(&['(', '"', '`', '[', '-', '\n']));
            }
        }
    }
    chars.into_iter().collect()
}

/// random text that is not derived from the grammar
pub fn random_text(rng: &mut Rng) -> (String, &'static str) {
    let len = rng.below(60);
    match rng.below(4) {
        0 => {
            let bytes: Vec<u8> = (0..len).map(|_| rng.below(256) as u8).collect();
            (String::from_utf8_lossy(&bytes).into_owned(), "random-bytes-lossy")
        }
        1 => {
            const ALPHABET: &[u8] = b"abcxyz019 \n\t()[]{}<>=~+-*/%^#.,;:'\"`\\_@?|&!$";
            let s: String = (0..len).map(|_| *rng.pick(ALPHABET) as char).collect();
            (s, "random-lua-alphabet")
        }
        2 => {
            let s: String = (0..len)
                .map(|_| loop {
                    let c = match rng.below(4) {
                        0 => rng.below(0x80) as u32,
                        1 => rng.below(0x800) as u32,
                        2 => rng.below(0x10000) as u32,
                        _ => rng.below(0x110000) as u32,
                    };
                    if let Some(c) = char::from_u32(c) {
                        break c;
                    }
                })
                .collect();
            (s, "random-unicode")
        }
        _ => {
            const WORDS: &[&str] = &[
                "local", "function", "end", "if", "then", "else", "elseif", "return", "for", "in", "do", "while",
                "repeat", "until", "not", "and", "or", "nil", "true", "false", "type", "export", "continue", "break",
                "x", "1", "=", "(", ")", "{", "}", "[", "]", ",", ".", ":", "..", "...", "'s'", "`{", "}`", "--", "\n",
                "typeof", "::", "->", "<", ">", "@native", "+=", "//", "é",
            ];
            let n = rng.below(25);
            let s: Vec<&str> = (0..n).map(|_| *rng.pick(WORDS)).collect();
            (s.join(" "), "random-token-soup")
        }
    }
}

/// the truncation corpus: diverse snippets of about 200 bytes each
pub const SNIPPETS: &[&str] = &[
    "--!strict\nlocal Module = {}\nexport type Obj<T> = { value: T, next: Obj<T>? }\nfunction Module.new<T>(value: T): Obj<T>\n\treturn { value = value, next = nil }\nend\nlocal s = `héllo {1 + 2} €{{}}`\nreturn Module -- fin é\n",
    "local a, b = 0x1F, 1e-3 --[==[ long\ncomment ]==]\nfor i = 1, #t do if t[i] == nil then continue end a += t[i] // 2 end\nlocal f = function(...: number) return ... end\nrepeat a -= 1 until a <= 0 or (b and not a)\n",
    "@native function obj:method(x: number?, ...): (number, string) -> ()\n  local r = if x then x :: number else -1\n  self.v = r ^ 2 .. 'é' .. [[\nraw]]\n  return function() end\nend\ntype F = typeof(obj) & { [string]: 'a' | \"b\" }\n",
    "local t = { 1, 2; x = 'a', ['y'] = \"\\u{48}\\x41\\065\\z\n  z\", [3] = { {} }, f = function() end, }\nwhile true do break end\ndo local _ <const> = 1 end\nprint(t.x, t['y'], #t, -t[1], not t, f'lit', g{}, h:m():n())\n",
];

pub const MULTIBYTE_CHARS: &[&str] = MULTIBYTE;

/// positions between "tokens" (changes of character class) of a text, as byte offsets
pub fn token_boundaries(text: &str) -> Vec<usize> {
    fn class(c: char) -> u8 {
        if c.is_alphanumeric() || c == '_' {
            0
        } else if c.is_whitespace() {
            1
        } else {
            2
        }
    }
    let mut out = vec![0];
    let mut previous: Option<char> = None;
    for (offset, c) in text.char_indices() {
        if let Some(p) = previous {
            if class(p) != class(c) || class(c) == 2 {
                out.push(offset);
            }
        }
        previous = Some(c);
    }
    out.push(text.len());
    out.dedup();
    out
}

/// nesting kinds: (name, builder of a text nested `depth` deep)
pub const NESTING_KINDS: &[&str] = &[
    "paren", "table", "call", "index", "do", "function", "if", "unary-minus", "unary-not", "concat-right",
    "add-left", "type-array", "type-paren", "if-expression", "interpolation", "field-chain", "method-chain",
    "long-bracket-level", "type-optional", "while",
];

pub fn nested(kind: &str, depth: usize) -> String {
    let rep = |s: &str| s.repeat(depth);
    match kind {
        "paren" => format!("return {}1{}", rep("("), rep(")")),
        "table" => format!("return {}{}", rep("{"), rep("}")),
        "call" => format!("return {}{}", rep("f("), rep(")")),
        "index" => format!("return {}1{}", rep("a["), rep("]")),
        "do" => format!("{}{}", rep("do "), rep("end ")),
        "function" => format!("local f = {}1{}", rep("function() return "), rep(" end")),
        "if" => format!("{}{}", rep("if a then "), rep("end ")),
        "unary-minus" => format!("return {}1", rep("- ")),
        "unary-not" => format!("return {}x", rep("not ")),
        "concat-right" => format!("return {}a", rep("a..")),
        "add-left" => format!("return 1{}", rep("+1")),
        "type-array" => format!("type T = {}number{}", rep("{"), rep("}")),
        "type-paren" => format!("type T = {}number{}", rep("("), rep(")")),
        "if-expression" => format!("return {}2", rep("if a then 1 else ")),
        "interpolation" => format!("return {}1{}", rep("`{"), rep("}`")),
        "field-chain" => format!("return a{}", rep(".b")),
        "method-chain" => format!("return a{}", rep(":m()")),
        "long-bracket-level" => format!("return [{}[x]{}]", rep("="), rep("=")),
        "type-optional" => format!("type T = number{}", rep("?")),
        "while" => format!("{}{}", rep("while a do "), rep("end ")),
        _ => String::new(),
    }
}

// ---- configurations ------------------------------------------------------------------------

pub const GENERATORS: &[&str] = &["retain_lines", "dense", "readable"];
pub const SPANS: &[usize] = &[0, 1, 80];

/// text for `append_text_comment`: no brackets and no line breaks (F20/F21 of C18 are about those)
fn comment_text(rng: &mut Rng) -> String {
    const ALPHABET: &[char] = &['a', 'b', 'Z', '0', ' ', '-', '!', '.', 'é', '€', '\t', '*', '/'];
    (0..rng.below(12)).map(|_| *rng.pick(ALPHABET)).collect()
}

fn require_mode(rng: &mut Rng, target: bool) -> Value {
    match rng.below(if target { 6 } else { 4 }) {
        0 => json!("path"),
        1 => json!({"name": "path", "module_folder_name": *rng.pick(&["init", "index"])}),
        2 => json!("luau"),
        3 => json!({"name": "path", "sources": {"@pkg": "./Packages"}}),
        4 => json!("roblox"),
        _ => json!({"name": "roblox", "indexing_style": *rng.pick(&["find_first_child", "wait_for_child", "property"])}),
    }
}

/// one rule entry with randomised properties that the rule accepts
pub fn rule_entry(rng: &mut Rng, name: &str) -> Value {
    let mut entry = match name {
        "append_text_comment" => {
            let mut e = json!({"rule": name, "text": comment_text(rng)});
            if rng.chance(1, 2) {
                e["location"] = json!(*rng.pick(&["start", "end"]));
            }
            e
        }
        "inject_global_value" => {
            let identifier = *rng.pick(&["DEBUG", "x", "_G", "foo", "value"]);
            match rng.below(3) {
                0 => {
                    let value = match rng.below(7) {
                        0 => json!(true),
                        1 => json!(null),
                        2 => json!(1.5),
                        3 => json!("é text"),
                        4 => json!([1, "a", [true]]),
                        5 => json!({"k": 1, "nested": {"a": []}}),
                        _ => json!(-0.0),
                    };
                    json!({"rule": name, "identifier": identifier, "value": value})
                }
                1 => json!({"rule": name, "identifier": identifier}),
                _ => json!({"rule": name, "identifier": identifier, "env": "DLV_C12_UNSET", "default_value": 3}),
            }
        }
        "remove_assertions" | "remove_debug_profiling" => {
            if rng.chance(1, 2) {
                json!({"rule": name, "preserve_arguments_side_effects": rng.chance(1, 2)})
            } else {
                json!(name)
            }
        }
        "remove_attribute" => {
            if rng.chance(1, 2) {
                json!({"rule": name, "match": [*rng.pick(&["native", "^dep", ".*", "che"])]})
            } else {
                json!(name)
            }
        }
        "remove_comments" => {
            if rng.chance(1, 2) {
                json!({"rule": name, "except": [*rng.pick(&["^--!", "note", "é", "^--\\[\\["])]})
            } else {
                json!(name)
            }
        }
        "remove_interpolated_string" => {
            if rng.chance(1, 2) {
                json!({"rule": name, "strategy": *rng.pick(&["string", "tostring"])})
            } else {
                json!(name)
            }
        }
        "rename_variables" => match rng.below(3) {
            0 => json!(name),
            1 => json!({"rule": name, "globals": ["$default", "a"], "include_functions": rng.chance(1, 2)}),
            _ => json!({"rule": name, "globals": ["$roblox"], "detect_globals": rng.chance(1, 2), "include_functions": true}),
        },
        "convert_require" => json!({"rule": name, "current": require_mode(rng, false), "target": require_mode(rng, true)}),
        _ => {
            if rng.chance(1, 6) {
                json!({"rule": name})
            } else {
                json!(name)
            }
        }
    };
    if rng.chance(1, 25) {
        if let Value::String(n) = &entry {
            entry = json!({"rule": n});
        }
        entry["skip_files"] = json!(["**/other.lua"]);
    }
    entry
}

pub fn generator_value(generator: &str, span: usize) -> Value {
    match generator {
        "retain_lines" => json!("retain_lines"),
        g => json!({"name": g, "column_span": span}),
    }
}

pub fn configuration(rules: &[Value], generator: &str, span: usize, bundle: bool) -> String {
    let mut config = json!({"rules": rules, "generator": generator_value(generator, span)});
    if bundle {
        config["bundle"] = json!({"require_mode": "path"});
    }
    config.to_string()
}

// ---- round 4: escapes -------------------------------------------------------------------

/// what may follow a backslash: one representative per Unicode predicate / category the
/// string reader could confuse (numeric but not ASCII digit, letters, separators, format
/// characters, marks, symbols) and every ASCII class the reader dispatches on
pub const AFTER_BACKSLASH: &[&str] = &[
    "²", "٣", "½", "③", "Ⅷ", "൧", "𝟙", "é", "€", "ß", "\u{a0}", "\u{2028}", "\u{2029}", "\u{feff}", "\u{301}", "\u{200d}", "😀", "漢",
    "\u{85}", "\u{7f}", "q", "'", "\"", "`", "{", "}", "\\", "\n", "\r\n", " ", "\t", "0", "7", "9", "12", "255", "256", "999", "0012",
    "x", "x4", "xZZ", "x41", "u", "u{", "u{}", "u{41}", "u{110000}", "u{D800}", "u{FFFFFFFFF}", "z", "z\n  ", "a", "b", "f", "n", "r", "t", "v", "",
];

/// every string form holding `\` + `after`: quoted, interpolated (alone, before and after a
/// value), singleton string types — one tiny program each
pub fn escape_programs(after: &str) -> Vec<String> {
    vec![
        format!("return '\\{}'", after),
        format!("return \"\\{}\"", after),
        format!("return `\\{}`", after),
        format!("return `\\{}{{x}}`", after),
        format!("return `{{x}}\\{}`", after),
        format!("return `a\\{}b{{x}}c\\{}`", after, after),
        format!("type T = '\\{}'", after),
        format!("type T = \"\\{}\"", after),
        format!("local t = {{ ['\\{}'] = `\\{}` }}", after, after),
    ]
}

/// interpolated strings whose literal parts hold an ESCAPED backslash in the positions where
/// writing it unescaped changes the string: at the end of the part (before the closing
/// backtick or a `{`), before `x` / `u` / `z` / a quote / a newline letter, before digits
pub const BACKSLASH_SEGMENT_TEXTS: &[&str] = &[
    "return `C:\\\\games\\\\`\n",
    "return `a\\\\{x}b\\\\`\n",
    "return `{x}\\\\`\n",
    "return `\\\\`\n",
    "return `\\\\x41 \\\\u{41} \\\\z \\\\n`\n",
    "return `\\\\300 \\\\999 \\\\12`\n",
    "return `\\\\\\\\ \\\\' \\\\\"`\n",
    "local s = `path\\\\to\\\\{name}\\\\file`\nreturn s .. `\\\\{s}`\n",
    "return `plain ascii only`, `tab\\\\t`, `é\\\\`\n",
    "f(`\\\\u`, `\\\\x`, `\\\\{1}\\\\x`, `{1}\\\\u{2}`)\n",
];

/// a literal part drawn from an alphabet that contains the escaped backslash
pub fn random_segment(rng: &mut Rng) -> String {
    const ITEMS: &[&str] = &[
        "a", "Z", " ", "0", "3", "9", "x", "u", "z", "n", ":", "/", "é", "\\\\", "\\\\", "\\\\", "\\`", "\\{", "\\n", "'", "\"", "-", "}", "]]",
    ];
    (0..rng.below(7)).map(|_| *rng.pick(ITEMS)).collect()
}
