//! Property C01: default rules preserve program behaviour.
//!  (1) per rule: correspondence of the Lean rule models (`lean/DarkluaModel/Rules/*.lean`, the
//!      definitions the theorems of `C01/Thm.lean` are about) with the real `Rule::process`
//!      — output trees must be identical;
//!  (2) oracle: original vs REAL output executed on the Lean reference semantics, for every
//!      default rule alone, the default list, and random subsets in random order;
//!  (3) end to end through `darklua_core::process` and the three generators: the generated
//!      TEXT is parsed back and executed.
//! Known defects (F5, F6, F24 …): the partial theorems carry a decidable hypothesis `H`
//! (`c01.region <rule> <block>`); generated programs outside `H` are not judged by the oracle
//! for that rule (the correspondence still runs on them — the models mirror the defects), the
//! listed witnesses are replayed one by one from `known_findings.json`, and any behavioural
//! difference inside `H` is a VIOLATION.
use crate::exec;
use crate::model::{hex, Model};
use crate::progen::{self, Features};
use crate::progen_c01;
use crate::report::{self, Report, Violation};
use crate::rng::Rng;
use crate::rulecheck::{self, CaseResult};
use darklua_core::nodes::Block;
use darklua_core::rules::Rule;
use serde_json::{json, Value};

pub const DEFAULT_RULES: [&str; 13] = [
    "remove_spaces",
    "remove_comments",
    "compute_expression",
    "remove_unused_if_branch",
    "remove_unused_while",
    "filter_after_early_return",
    "remove_empty_do",
    "remove_unused_variable",
    "remove_method_definition",
    "convert_index_to_field",
    "remove_nil_declaration",
    "rename_variables",
    "remove_function_call_parens",
];

fn modelled_rules(model: &mut Model) -> Vec<String> {
    model.ask("c01.rules").split(' ').map(|s| s.to_owned()).filter(|s| !s.is_empty() && !s.starts_with("unknown")).collect()
}

fn make_rules(names: &[&str]) -> Vec<Box<dyn Rule>> {
    names.iter().map(|n| exec::rule_from_json(&format!("'{}'", n)).expect("rule")).collect()
}

/// `H` of the rule's (partial) theorem on this block, decided by the Lean driver: "in" or "out <why>"
fn region(model: &mut Model, rule: &str, sexp: &str) -> String {
    model.ask(&format!("c01.region {} {}", hex(rule.as_bytes()), sexp))
}

fn apply_caught(block: &mut Block, rules: &[Box<dyn Rule>], code: &str) -> Result<Result<(), String>, ()> {
    std::panic::catch_unwind(std::panic::AssertUnwindSafe(|| exec::apply_rules(block, rules, code))).map_err(|_| ())
}

thread_local! {
    static LIT_CACHE: std::cell::RefCell<crate::srclit::LitCache> = std::cell::RefCell::new(Default::default());
    static LIT_REPORTED: std::cell::RefCell<std::collections::HashSet<(String, String)>> = std::cell::RefCell::new(Default::default());
}

/// The ORIGINAL program as its SOURCE TEXT denotes it: parsed by darklua, with the value of every string /
/// number / interpolated-segment token replaced by the independent decoding of the token text
/// (`srclit`, the Lean reference decoder of C13). `None`: the text does not parse.
fn independent_original(model: &mut Model, code: &str) -> Option<(Block, crate::srclit::LitReport)> {
    LIT_CACHE.with(|cache| crate::srclit::independent_block(model, &mut cache.borrow_mut(), code).ok())
}

/// token-text → value check of darklua's parser on this program; one violation per distinct token text
fn check_literals(r: &mut Report, code: &str, origin: &str, lit: &crate::srclit::LitReport) {
    r.count("source_literals_checked", (lit.strings + lit.numbers + lit.segments) as u64);
    if lit.undecided > 0 {
        r.count("source_literals_reference_undecided", lit.undecided as u64);
    }
    for m in &lit.mismatches {
        let fresh = LIT_REPORTED.with(|s| s.borrow_mut().insert((m.kind.to_owned(), m.token_text.clone())));
        if !fresh {
            continue;
        }
        // the smallest failing input: the token alone
        let minimal = format!("return {}\n", if m.kind == "interp" { format!("`{}`", m.token_text) } else { m.token_text.clone() });
        r.violation(Violation {
            kind: "oracle".into(),
            check: format!("source-literal:{}", m.kind),
            what: "parser decoded literal wrongly: the value darklua computed for a literal token differs from what its text denotes (independent reference decoder); every later stage (rules, generators) works on the wrong value".into(),
            input: json!({"code": minimal, "found_in": code, "origin": origin, "token_text": m.token_text,
                "darklua_value": m.darklua_value, "reference_value": m.reference_value}),
            failing_input_found: true,
        });
    }
}

/// Does the REAL rule list break behaviour on this program, with every step inside `H`?
/// Returns (original outcome, transformed outcome, transformed tree).
fn oracle_fails_inside(model: &mut Model, names: &[&str], code: &str) -> Option<(String, String, String)> {
    let block0 = exec::parse(code).ok()?;
    // the original runs with the values its source text denotes
    let o0 = match independent_original(model, code) {
        Some((blocki, lit)) if !lit.mismatches.is_empty() => exec::run_block(model, rulecheck::LEVEL, &blocki),
        _ => exec::run_block(model, rulecheck::LEVEL, &block0),
    };
    if !exec::outcome_ok(&o0) {
        return None;
    }
    let mut block = block0.clone();
    for name in names {
        let sexp = crate::astsexp::block_to_sexp(&block);
        if region(model, name, &sexp) != "in" {
            return None;
        }
        let rules = make_rules(&[name]);
        match apply_caught(&mut block, &rules, code) {
            Ok(Ok(())) => {}
            _ => return None,
        }
    }
    let o1 = exec::run_block(model, rulecheck::LEVEL, &block);
    if o0 != o1 {
        Some((o0, o1, crate::astsexp::block_to_sexp(&block)))
    } else {
        None
    }
}

/// model answer for one rule on one tree
fn ask_rule(model: &mut Model, rule: &str, sexp: &str) -> String {
    model.ask(&format!("c01.rule {} {}", hex(rule.as_bytes()), sexp))
}

/// does the Lean model of `rule` disagree with the real rule on this program text?
fn model_differs(model: &mut Model, rule: &str, code: &str) -> bool {
    let b0 = match exec::parse(code) { Ok(b) => b, Err(_) => return false };
    let mut b1 = b0.clone();
    let rules = make_rules(&[rule]);
    match apply_caught(&mut b1, &rules, code) {
        Ok(Ok(())) => {}
        _ => return false,
    }
    let a = ask_rule(model, rule, &crate::astsexp::block_to_sexp(&b0));
    a != "evallite-uncovered" && a != crate::astsexp::block_to_sexp(&b1)
}

pub struct Program<'a> {
    pub code: &'a str,
    /// which generator produced it (histogram bucket)
    pub origin: &'a str,
}

/// One program through a set of single rules: oracle (inside `H`) + correspondence.
pub fn check_rules(model: &mut Model, r: &mut Report, modelled: &[String], program: &Program, rule_names: &[&str]) {
    let code = program.code;
    let block0 = match exec::parse(code) {
        Ok(b) => b,
        Err(_) => {
            r.hist("skipped", &format!("parse ({})", program.origin));
            r.case(None::<u8>);
            return;
        }
    };
    let sexp0 = crate::astsexp::block_to_sexp(&block0);
    // source-text leg: every literal token decoded independently of darklua's parser; the reference run of the
    // ORIGINAL uses the independently decoded values (identical to darklua's unless a mismatch is reported)
    let independent = independent_original(model, code);
    if let Some((_, lit)) = &independent {
        check_literals(r, code, program.origin, lit);
    }
    let o0 = match &independent {
        Some((blocki, lit)) if !lit.mismatches.is_empty() => exec::run_block(model, rulecheck::LEVEL, blocki),
        _ => exec::run_block(model, rulecheck::LEVEL, &block0),
    };
    let original_ok = exec::outcome_ok(&o0);
    r.hist("original_run", if original_ok { "error-free" } else if o0 == "timeout" { "timeout" } else { "error (correspondence only)" });
    for rule in rule_names {
        let rules = make_rules(&[rule]);
        let mut block1 = block0.clone();
        match apply_caught(&mut block1, &rules, code) {
            Ok(Ok(())) => {}
            Ok(Err(_)) => {
                r.hist("skipped", "rule-error");
                r.case(None::<u8>);
                continue;
            }
            Err(()) => {
                r.violation(Violation {
                    kind: "oracle".into(),
                    check: format!("{}:panic", rule),
                    what: format!("rule {} panicked", rule),
                    input: json!({"rules": [rule], "code": code}),
                    failing_input_found: true,
                });
                continue;
            }
        }
        let sexp1 = crate::astsexp::block_to_sexp(&block1);
        let fired = sexp0 != sexp1;
        // ---- oracle on the real output (an unchanged tree trivially behaves the same)
        let mut oracle_failed = false;
        if fired && original_ok {
            let reg = region(model, rule, &sexp0);
            if reg == "in" {
                let o1 = exec::run_block(model, rulecheck::LEVEL, &block1);
                r.count("oracle_compared", 1);
                if o0 != o1 {
                    oracle_failed = true;
                    let names = [*rule];
                    let mut fails = |text: &str| oracle_fails_inside(model, &names, text).is_some();
                    let small = rulecheck::shrink_lines(code, &mut fails);
                    let detail = oracle_fails_inside(model, &names, &small);
                    r.violation(Violation {
                        kind: "oracle".into(),
                        check: format!("{}:behaviour", rule),
                        what: format!("rule {} changes the behaviour of a program whose original run is error-free (inside the hypothesis of its theorem){}", rule,
                            if independent.as_ref().map_or(false, |(_, lit)| !lit.mismatches.is_empty()) { " — NOTE: darklua's parser decoded a literal of this program wrongly (see the source-literal violation); the original was run with the values its source text denotes, so the difference may be the parser's, not the rule's" } else { "" }),
                        input: json!({"rules": [rule], "code": small, "origin": program.origin,
                            "original_outcome": detail.as_ref().map(|d| d.0.clone()),
                            "transformed_outcome": detail.as_ref().map(|d| d.1.clone()),
                            "transformed_tree": detail.as_ref().map(|d| d.2.clone())}),
                        failing_input_found: true,
                    });
                }
            } else {
                r.hist("outside_H (oracle not applied)", &format!("{}: {}", rule, reg));
            }
        }
        // ---- correspondence with the Lean rule model
        if modelled.iter().any(|m| m == rule) {
            let answer = ask_rule(model, rule, &sexp0);
            if answer == "evallite-uncovered" {
                r.hist("evallite_uncovered (correspondence not applied)", rule);
            } else {
                r.count("correspondence_compared", 1);
                if fired {
                    r.hist("correspondence_on_fired", rule);
                }
                if answer != sexp1 {
                    let rule_name = rule.to_string();
                    let mut differs = |text: &str| model_differs(model, &rule_name, text);
                    let small = rulecheck::shrink_lines(code, &mut differs);
                    // search around the disagreement for an input on which the property itself fails
                    let mut failing: Option<String> = None;
                    if !oracle_failed {
                        let names = [*rule];
                        let lines: Vec<&str> = small.lines().collect();
                        let mut candidates: Vec<String> = vec![small.clone(), code.to_owned()];
                        for i in 0..lines.len().min(40) {
                            let c: Vec<&str> = lines.iter().enumerate().filter(|(j, _)| *j != i).map(|(_, l)| *l).collect();
                            candidates.push(c.join("\n"));
                        }
                        for c in candidates {
                            if oracle_fails_inside(model, &names, &c).is_some() {
                                failing = Some(c);
                                break;
                            }
                        }
                    }
                    if let Some(f) = &failing {
                        let names = [*rule];
                        let detail = oracle_fails_inside(model, &names, f);
                        r.violation(Violation {
                            kind: "oracle".into(),
                            check: format!("{}:behaviour", rule),
                            what: format!("rule {} changes behaviour (found while searching around a model/code disagreement)", rule),
                            input: json!({"rules": [rule], "code": f,
                                "original_outcome": detail.as_ref().map(|d| d.0.clone()),
                                "transformed_outcome": detail.as_ref().map(|d| d.1.clone())}),
                            failing_input_found: true,
                        });
                    }
                    r.violation(Violation {
                        kind: "correspondence".into(),
                        check: format!("{}:model", rule),
                        what: format!("Lean model of rule {} and the real rule produce different trees; the theorem about the model no longer speaks about this code", rule),
                        input: json!({"rules": [rule], "code": small, "origin": program.origin, "model_answer_prefix": answer.chars().take(300).collect::<String>()}),
                        failing_input_found: oracle_failed || failing.is_some(),
                    });
                }
            }
        }
        if fired && *rule == "remove_nil_declaration" {
            let a = model.ask(&format!("c01.ndguard {}", sexp0));
            r.hist("remove_nil_declaration: inside H of the whole-rule theorem", &a);
        }
        if fired && matches!(*rule, "remove_unused_while" | "remove_unused_if_branch" | "convert_index_to_field" | "compute_expression") {
            // hypothesis H of the whole-rule theorems for the real evaluator (`…_upto_C08`, `…_upto_alloc_C08`)
            let a = model.ask(&format!("c01.c08guard {} {}", hex(rule.as_bytes()), sexp0));
            r.hist(&format!("{}: inside H of the whole-rule theorem (real evaluator)", rule), &a);
        }
        if fired && *rule == "remove_unused_variable" {
            // hypothesis H of rule_refines_remove_unused_variable_partial (guarded rule == rule), for the coverage record
            let a = model.ask(&format!("c01.uvguard {}", sexp0));
            r.hist("remove_unused_variable: inside H of the whole-rule theorem", &a);
        }
        if fired {
            r.hist("rule_fired", rule);
            r.hist(&format!("fired_by_origin:{}", program.origin), rule);
            r.case(Some((rule, code)));
            if r.samples.len() < r.max_samples && r.samples.iter().all(|s| s["rule"] != **rule) {
                r.sample(json!({"rule": rule, "origin": program.origin, "code": code}));
            }
        } else {
            r.case(None::<u8>);
        }
    }
}

/// Walk a rule list step by step with the real rules; `Some(rule: why)` when some step leaves `H`.
fn pipeline_leaves_h(model: &mut Model, names: &[&str], code: &str) -> Option<String> {
    let mut block = exec::parse(code).ok()?;
    for name in names {
        let sexp = crate::astsexp::block_to_sexp(&block);
        let reg = region(model, name, &sexp);
        if reg != "in" {
            return Some(format!("{}: {}", name, reg));
        }
        let rules = make_rules(&[name]);
        match apply_caught(&mut block, &rules, code) {
            Ok(Ok(())) => {}
            _ => return Some(format!("{}: rule failed", name)),
        }
    }
    None
}

/// end to end: real pipeline on memory resources, output text re-parsed and executed
fn end_to_end(model: &mut Model, report: &mut Report, code: &str, rules: &[&str], generator: &str) {
    let resources = darklua_core::Resources::from_memory();
    resources.write("src/main.lua", code).unwrap();
    let rule_list: Vec<String> = rules.iter().map(|r| format!("'{}'", r)).collect();
    let config_text = format!("{{ generator: '{}', rules: [{}] }}", generator, rule_list.join(", "));
    let config: darklua_core::Configuration = json5::from_str(&config_text).expect("configuration");
    let result = std::panic::catch_unwind(std::panic::AssertUnwindSafe(|| {
        darklua_core::process(&resources, darklua_core::Options::new("src").with_configuration(config))
    }));
    let ok = match result {
        Ok(Ok(r)) => r.result().is_ok(),
        Ok(Err(_)) => false,
        Err(_) => {
            report.violation(Violation {
                kind: "oracle".into(),
                check: "e2e:panic".into(),
                what: "darklua_core::process panicked".into(),
                input: json!({"config": config_text, "code": code}),
                failing_input_found: true,
            });
            return;
        }
    };
    if !ok {
        report.count("e2e_process_error", 1);
        return;
    }
    let output = resources.get("src/main.lua").unwrap();
    let block0 = match exec::parse(code) { Ok(b) => b, Err(_) => return };
    let block0 = match independent_original(model, code) {
        Some((blocki, lit)) => {
            check_literals(report, code, "e2e", &lit);
            if lit.mismatches.is_empty() { block0 } else { blocki }
        }
        None => block0,
    };
    let block1 = match exec::parse(&output) {
        Ok(b) => b,
        Err(e) => {
            report.violation(Violation {
                kind: "oracle".into(),
                check: "e2e:reparse".into(),
                what: format!("output of the pipeline does not parse: {}", e),
                input: json!({"config": config_text, "code": code, "output": output}),
                failing_input_found: true,
            });
            return;
        }
    };
    if let Some((o0, o1)) = rulecheck::oracle_compare(model, &block0, &block1) {
        report.count("e2e_compared", 1);
        if o0 != o1 {
            if let Some(why) = pipeline_leaves_h(model, rules, code) {
                report.hist("outside_H (oracle not applied)", &format!("e2e: {}", why));
                return;
            }
            report.violation(Violation {
                kind: "oracle".into(),
                check: format!("e2e:{}", generator),
                what: "processed file behaves differently from the original".into(),
                input: json!({"config": config_text, "rules": rules, "code": code, "output": output, "original_outcome": o0, "transformed_outcome": o1}),
                failing_input_found: true,
            });
        }
    }
}

/// Replay the listed known findings of C01: `witness = {"rules": [...], "code": "..."}`.
fn replay_known_findings(model: &mut Model, report: &mut Report) {
    for entry in report::known_findings("C01") {
        // a fixed entry suppresses nothing: its witness lives in corpus/C01 and must pass
        if entry["status"] == "fixed" {
            continue;
        }
        let id = entry["id"].as_str().unwrap_or("?").to_owned();
        let code = match entry["witness"]["code"].as_str() { Some(c) => c.to_owned(), None => continue };
        let names: Vec<String> = entry["witness"]["rules"].as_array().map(|a| a.iter().filter_map(|v| v.as_str().map(|s| s.to_owned())).collect()).unwrap_or_default();
        let name_refs: Vec<&str> = names.iter().map(|s| s.as_str()).collect();
        let rules = make_rules(&name_refs);
        // the witness must be OUTSIDE the hypothesis of the partial theorem …
        let outside = pipeline_leaves_h(model, &name_refs, &code);
        // … and still fail on the real code
        match rulecheck::oracle_fails(model, &rules, &code) {
            Some((o0, o1, _)) => {
                if outside.is_some() {
                    report.known_finding(&id, &format!("{} — still reproduces: {} | original {} | transformed {}",
                        entry["expected_wrong"].as_str().unwrap_or(""), code.replace('\n', " "), o0, o1));
                } else {
                    report.violation(Violation {
                        kind: "oracle".into(),
                        check: format!("known-finding:{}", id),
                        what: "a listed witness fails INSIDE the hypothesis of the partial theorem: the hypothesis no longer excludes it".into(),
                        input: json!({"rules": names, "code": code, "original_outcome": o0, "transformed_outcome": o1}),
                        failing_input_found: true,
                    });
                }
            }
            None => {
                report.notes.push(format!("known finding {} no longer reproduces", id));
            }
        }
    }
}

fn replay_file(model: &mut Model, report: &mut Report, modelled: &[String], path: &str) {
    let text = match std::fs::read_to_string(path) { Ok(t) => t, Err(_) => return };
    let v: Value = match serde_json::from_str(&text) { Ok(v) => v, Err(_) => return };
    let input = if v["input"].is_object() { v["input"].clone() } else { v.clone() };
    let code = match input["code"].as_str() { Some(c) => c.to_owned(), None => return };
    let names: Vec<String> = input["rules"].as_array().map(|a| a.iter().filter_map(|x| x.as_str().map(|s| s.to_owned())).collect()).unwrap_or_default();
    let name_refs: Vec<&str> = names.iter().map(|s| s.as_str()).collect();
    if name_refs.len() == 1 || input["config"].is_null() {
        let refs: Vec<&str> = if name_refs.is_empty() { DEFAULT_RULES.to_vec() } else { name_refs.clone() };
        check_rules(model, report, modelled, &Program { code: &code, origin: "replay" }, &refs);
    }
    if !input["config"].is_null() {
        let refs: Vec<&str> = if name_refs.is_empty() { DEFAULT_RULES.to_vec() } else { name_refs };
        for g in ["retain_lines", "dense", "readable"] {
            end_to_end(model, report, &code, &refs, g);
        }
    }
}

pub fn run(report: &mut Report, replay: Option<&str>) {
    let thorough = report.is_thorough();
    let programs_per_thread: usize = if thorough { 2500 } else { 90 };
    let threads = 14;
    report.rule = "(a) type-directed random Lua 5.1 programs (closures, upvalues, shadowing, varargs, multiple returns, \
        effectful metamethods, loops with break, method calls, dead code) and (b) targeted programs (progen_c01: every small \
        expression shape in every context kind, constant conditions of every evaluator-decidable form in while/if, early returns in \
        every block kind, method definitions, local declarations with nil/duplicate/unused names); each program through the relevant \
        default rules alone (real Rule::process; tree compared with the Lean model; original and output executed on the Lean \
        reference semantics when the program is inside the hypothesis H of the rule's theorem), plus the default list and a random \
        subset in random order end-to-end through darklua_core::process with each generator. Non-trivial = the rule changed the tree; \
        distinct by (rule, program text). Source-text leg: every string / number / interpolated-segment TOKEN of every original program is decoded by the independent reference decoder (C13 Spec, Luau) and compared with the value darklua's parser computed; the reference run of the original uses the independently decoded values."
        .to_owned();
    let seed = report.seed;
    {
        let mut model = Model::spawn();
        let modelled = modelled_rules(&mut model);
        report.notes.push(format!("modelled rules: {}", modelled.join(" ")));
        replay_known_findings(&mut model, report);
        if let Some(path) = replay {
            replay_file(&mut model, report, &modelled, path);
            return;
        }
        // corpus: minimised past disagreements
        let corpus = concat!(env!("CARGO_MANIFEST_DIR"), "/../corpus/C01");
        if let Ok(dir) = std::fs::read_dir(corpus) {
            let mut paths: Vec<_> = dir.filter_map(|e| e.ok()).map(|e| e.path()).collect();
            paths.sort();
            for p in paths {
                if p.extension().map(|e| e == "json").unwrap_or(false) {
                    replay_file(&mut model, report, &modelled, &p.to_string_lossy());
                    report.count("corpus_replayed", 1);
                }
            }
        }
    }
    // the targeted programs are enumerated once and dealt round-robin to the threads
    let targeted = progen_c01::targeted(seed, thorough);
    report.count("targeted_programs", targeted.len() as u64);
    for (what, exhaustive) in progen_c01::exhaustive_parts(thorough) {
        report.exhaustive.insert(what.to_owned(), exhaustive);
    }
    let targeted = &targeted;
    report.parallel(threads, |tid, r| {
        let mut model = Model::spawn();
        let modelled = modelled_rules(&mut model);
        let mut rng = Rng::new(seed.wrapping_mul(1000).wrapping_add(tid as u64));
        // ---- (b) targeted
        for (i, t) in targeted.iter().enumerate() {
            if i % threads != tid {
                continue;
            }
            r.hist("targeted_family", t.family);
            check_rules(&mut model, r, &modelled, &Program { code: &t.code, origin: t.family }, &t.rules);
            if t.pipeline {
                let generator = *rng.pick(&["retain_lines", "dense", "readable"]);
                end_to_end(&mut model, r, &t.code, &DEFAULT_RULES, generator);
            }
        }
        // ---- (a) random programs
        for _ in 0..programs_per_thread {
            // one program in four uses the Luau extensions (compound assignment, continue, if-expressions,
            // interpolated strings, type annotations)
            let luau = rng.chance(1, 4);
            let (code, used) = progen::generate(&mut rng.fork(), if luau { Features::luau() } else { Features::lua51() }, 60);
            r.hist("dialect", if luau { "luau" } else { "lua51" });
            for u in &used {
                r.hist("constructs", u);
            }
            check_rules(&mut model, r, &modelled, &Program { code: &code, origin: if luau { "random-luau" } else { "random" } }, &DEFAULT_RULES);
            // pipelines end to end
            let generator = *rng.pick(&["retain_lines", "dense", "readable"]);
            end_to_end(&mut model, r, &code, &DEFAULT_RULES, generator);
            let mut subset: Vec<&str> = DEFAULT_RULES.iter().copied().filter(|_| rng.chance(1, 2)).collect();
            rng.shuffle(&mut subset);
            let generator = *rng.pick(&["retain_lines", "dense", "readable"]);
            end_to_end(&mut model, r, &code, &subset, generator);
            r.case(None::<u8>);
        }
    });
    let _ = CaseResult::Trivial;
}
