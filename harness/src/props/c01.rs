//! Property C01: default rules preserve program behaviour.
//!  (1) per rule: correspondence of the Lean rule models with the real `Rule::process`
//!      (output trees identical) — `rulecheck::check_program`;
//!  (2) oracle: original vs REAL output executed on the Lean reference semantics, for every
//!      default rule alone, the default list, and random subsets in random order;
//!  (3) end to end through `darklua_core::process` and the three generators: the generated
//!      TEXT is parsed back and executed.
use crate::exec;
use crate::model::Model;
use crate::progen::{self, Features};
use crate::report::{Report, Violation};
use crate::rng::Rng;
use crate::rulecheck::{self, CaseResult, RuleCase};
use serde_json::json;

pub const DEFAULT_RULES: [&str; 13] = [
    "remove_spaces",
    "remove_comments",
    "compute_expression",
    "remove_unused_if_branch",
    "remove_unused_while",
    "filter_after_early_return",
    "remove_empty_do",
    "remove_unused_variable",
    "remove_method_definition",
    "convert_index_to_field",
    "remove_nil_declaration",
    "rename_variables",
    "remove_function_call_parens",
];

fn modelled_rules(model: &mut Model) -> Vec<String> {
    model.ask("c01.rules").split(' ').map(|s| s.to_owned()).filter(|s| !s.is_empty() && !s.starts_with("unknown")).collect()
}

/// end to end: real pipeline on memory resources, output text re-parsed and executed
fn end_to_end(model: &mut Model, report: &mut Report, code: &str, rules: &[&str], generator: &str) {
    let resources = darklua_core::Resources::from_memory();
    resources.write("src/main.lua", code).unwrap();
    let rule_list: Vec<String> = rules.iter().map(|r| format!("'{}'", r)).collect();
    let config_text = format!("{{ generator: '{}', rules: [{}] }}", generator, rule_list.join(", "));
    let config: darklua_core::Configuration = json5::from_str(&config_text).expect("configuration");
    let result = std::panic::catch_unwind(std::panic::AssertUnwindSafe(|| {
        darklua_core::process(&resources, darklua_core::Options::new("src").with_configuration(config))
    }));
    let ok = match result {
        Ok(Ok(r)) => r.result().is_ok(),
        Ok(Err(_)) => false,
        Err(_) => {
            report.violation(Violation {
                kind: "oracle".into(),
                check: "e2e:panic".into(),
                what: "darklua_core::process panicked".into(),
                input: json!({"config": config_text, "code": code}),
                failing_input_found: true,
            });
            return;
        }
    };
    if !ok {
        report.count("e2e_process_error", 1);
        return;
    }
    let output = resources.get("src/main.lua").unwrap();
    let block0 = match exec::parse(code) { Ok(b) => b, Err(_) => return };
    let block1 = match exec::parse(&output) {
        Ok(b) => b,
        Err(e) => {
            report.violation(Violation {
                kind: "oracle".into(),
                check: "e2e:reparse".into(),
                what: format!("output of the pipeline does not parse: {}", e),
                input: json!({"config": config_text, "code": code, "output": output}),
                failing_input_found: true,
            });
            return;
        }
    };
    if let Some((o0, o1)) = rulecheck::oracle_compare(model, &block0, &block1) {
        report.count("e2e_compared", 1);
        if o0 != o1 {
            report.violation(Violation {
                kind: "oracle".into(),
                check: format!("e2e:{}", generator),
                what: "processed file behaves differently from the original".into(),
                input: json!({"config": config_text, "code": code, "output": output, "original_outcome": o0, "transformed_outcome": o1}),
                failing_input_found: true,
            });
        }
    }
}

pub fn run(report: &mut Report, _replay: Option<&str>) {
    let programs_per_thread: usize = if report.is_thorough() { 600 } else { 60 };
    let threads = 12;
    report.rule = "type-directed random Lua 5.1 programs (closures, upvalues, shadowing, varargs, multiple returns, \
        effectful metamethods, loops with break, method calls, dead code); each program through every default rule alone \
        (real Rule::process; tree compared with the Lean model where one exists; original and output executed on the \
        Lean reference semantics), the default list and a random subset in random order end-to-end through \
        darklua_core::process with each generator. Non-trivial = the rule changed the tree; distinct by (rule, program text)."
        .to_owned();
    let seed = report.seed;
    report.parallel(threads, |tid, r| {
        let mut model = Model::spawn();
        let modelled = modelled_rules(&mut model);
        let mut rng = Rng::new(seed.wrapping_mul(1000).wrapping_add(tid as u64));
        for _ in 0..programs_per_thread {
            let (code, used) = progen::generate(&mut rng.fork(), Features::lua51(), 60);
            for u in &used {
                r.hist("constructs", u);
            }
            for rule in DEFAULT_RULES.iter() {
                let json_text = format!("'{}'", rule);
                let case = RuleCase { prop: "c01", rule_name: rule, rule_json: &json_text, modelled: modelled.iter().any(|m| m == rule) };
                let result = rulecheck::check_program(&mut model, r, &case, &code);
                match &result {
                    CaseResult::Fired => {
                        r.hist("rule_fired", rule);
                        r.case(Some((rule, &code)));
                    }
                    CaseResult::Trivial => r.case(None::<u8>),
                    CaseResult::Skipped(why) => {
                        r.hist("skipped", why);
                        r.case(None::<u8>);
                    }
                }
                if r.samples.is_empty() && result == CaseResult::Fired {
                    r.sample(json!({"rule": rule, "code": code}));
                }
            }
            // pipelines end to end
            let generator = *rng.pick(&["retain_lines", "dense", "readable"]);
            end_to_end(&mut model, r, &code, &DEFAULT_RULES, generator);
            let mut subset: Vec<&str> = DEFAULT_RULES.iter().copied().filter(|_| rng.chance(1, 2)).collect();
            rng.shuffle(&mut subset);
            let generator = *rng.pick(&["retain_lines", "dense", "readable"]);
            end_to_end(&mut model, r, &code, &subset, generator);
            r.case(None::<u8>);
        }
    });
}
