//! C14: the serde data model as a tree (`D`), a recording serializer (independent of darklua)
//! and a replaying `Serialize` implementation (`S`) that reaches every `serialize_*` method.
use crate::model::hex;
use serde::ser::{self, Serialize};
use std::fmt;

/// Mirror of the Lean `Data` type (wire format: see lean/DarkluaModel/C14/Driver.lean).
#[derive(Clone, Debug, PartialEq)]
pub enum D {
    Null,
    Bool(bool),
    I64(i64),
    U64(u64),
    F64(u64),
    Str(Vec<u8>),
    Bytes(Vec<u8>),
    Some(Box<D>),
    Seq(Vec<D>),
    Map(Vec<(D, D)>),
    Variant(Vec<u8>, Box<D>),
}

impl D {
    pub fn sexp(&self, out: &mut String) {
        match self {
            D::Null => out.push_str("null"),
            D::Bool(b) => out.push_str(if *b { "(bool true)" } else { "(bool false)" }),
            D::I64(v) => out.push_str(&format!("(i64 {})", v)),
            D::U64(v) => out.push_str(&format!("(u64 {})", v)),
            D::F64(b) => out.push_str(&format!("(f64 f{:016x})", b)),
            D::Str(s) => out.push_str(&format!("(str {})", hex(s))),
            D::Bytes(s) => out.push_str(&format!("(bytes {})", hex(s))),
            D::Some(d) => {
                out.push_str("(some ");
                d.sexp(out);
                out.push(')');
            }
            D::Seq(xs) => {
                out.push_str("(seq");
                for x in xs {
                    out.push(' ');
                    x.sexp(out);
                }
                out.push(')');
            }
            D::Map(kvs) => {
                out.push_str("(map");
                for (k, v) in kvs {
                    out.push_str(" (");
                    k.sexp(out);
                    out.push(' ');
                    v.sexp(out);
                    out.push(')');
                }
                out.push(')');
            }
            D::Variant(name, d) => {
                out.push_str(&format!("(variant {} ", hex(name)));
                d.sexp(out);
                out.push(')');
            }
        }
    }
    pub fn to_sexp(&self) -> String {
        let mut s = String::new();
        self.sexp(&mut s);
        s
    }
    pub fn size(&self) -> usize {
        match self {
            D::Some(d) | D::Variant(_, d) => 1 + d.size(),
            D::Seq(xs) => 1 + xs.iter().map(D::size).sum::<usize>(),
            D::Map(kvs) => 1 + kvs.iter().map(|(k, v)| k.size() + v.size()).sum::<usize>(),
            _ => 1,
        }
    }
}

// ---------------------------------------------------------------------------------------
// recorder: any `Serialize` value -> D

#[derive(Debug)]
pub struct RecErr(String);
impl fmt::Display for RecErr {
    fn fmt(&self, f: &mut fmt::Formatter) -> fmt::Result {
        f.write_str(&self.0)
    }
}
impl std::error::Error for RecErr {}
impl ser::Error for RecErr {
    fn custom<T: fmt::Display>(msg: T) -> Self {
        RecErr(msg.to_string())
    }
}

pub struct Rec;
pub struct SeqRec {
    variant: Option<Vec<u8>>,
    items: Vec<D>,
}
pub struct MapRec {
    variant: Option<Vec<u8>>,
    entries: Vec<(D, D)>,
    key: Option<D>,
}

pub fn record<T: Serialize + ?Sized>(value: &T) -> Result<D, String> {
    value.serialize(Rec).map_err(|e| e.0)
}

fn wrap(variant: Option<Vec<u8>>, d: D) -> D {
    match variant {
        Some(name) => D::Variant(name, Box::new(d)),
        None => d,
    }
}

impl ser::Serializer for Rec {
    type Ok = D;
    type Error = RecErr;
    type SerializeSeq = SeqRec;
    type SerializeTuple = SeqRec;
    type SerializeTupleStruct = SeqRec;
    type SerializeTupleVariant = SeqRec;
    type SerializeMap = MapRec;
    type SerializeStruct = MapRec;
    type SerializeStructVariant = MapRec;

    fn serialize_bool(self, v: bool) -> Result<D, RecErr> {
        Ok(D::Bool(v))
    }
    fn serialize_i8(self, v: i8) -> Result<D, RecErr> {
        Ok(D::I64(v as i64))
    }
    fn serialize_i16(self, v: i16) -> Result<D, RecErr> {
        Ok(D::I64(v as i64))
    }
    fn serialize_i32(self, v: i32) -> Result<D, RecErr> {
        Ok(D::I64(v as i64))
    }
    fn serialize_i64(self, v: i64) -> Result<D, RecErr> {
        Ok(D::I64(v))
    }
    fn serialize_u8(self, v: u8) -> Result<D, RecErr> {
        Ok(D::U64(v as u64))
    }
    fn serialize_u16(self, v: u16) -> Result<D, RecErr> {
        Ok(D::U64(v as u64))
    }
    fn serialize_u32(self, v: u32) -> Result<D, RecErr> {
        Ok(D::U64(v as u64))
    }
    fn serialize_u64(self, v: u64) -> Result<D, RecErr> {
        Ok(D::U64(v))
    }
    fn serialize_f32(self, v: f32) -> Result<D, RecErr> {
        Ok(D::F64((v as f64).to_bits()))
    }
    fn serialize_f64(self, v: f64) -> Result<D, RecErr> {
        Ok(D::F64(v.to_bits()))
    }
    fn serialize_char(self, v: char) -> Result<D, RecErr> {
        let mut buf = [0u8; 4];
        Ok(D::Str(v.encode_utf8(&mut buf).as_bytes().to_vec()))
    }
    fn serialize_str(self, v: &str) -> Result<D, RecErr> {
        Ok(D::Str(v.as_bytes().to_vec()))
    }
    fn serialize_bytes(self, v: &[u8]) -> Result<D, RecErr> {
        Ok(D::Bytes(v.to_vec()))
    }
    fn serialize_none(self) -> Result<D, RecErr> {
        Ok(D::Null)
    }
    fn serialize_some<T: ?Sized + Serialize>(self, value: &T) -> Result<D, RecErr> {
        Ok(D::Some(Box::new(value.serialize(Rec)?)))
    }
    fn serialize_unit(self) -> Result<D, RecErr> {
        Ok(D::Null)
    }
    fn serialize_unit_struct(self, _name: &'static str) -> Result<D, RecErr> {
        Ok(D::Null)
    }
    fn serialize_unit_variant(self, _n: &'static str, _i: u32, variant: &'static str) -> Result<D, RecErr> {
        Ok(D::Str(variant.as_bytes().to_vec()))
    }
    fn serialize_newtype_struct<T: ?Sized + Serialize>(self, _n: &'static str, value: &T) -> Result<D, RecErr> {
        Ok(D::Some(Box::new(value.serialize(Rec)?)))
    }
    fn serialize_newtype_variant<T: ?Sized + Serialize>(
        self,
        _n: &'static str,
        _i: u32,
        variant: &'static str,
        value: &T,
    ) -> Result<D, RecErr> {
        Ok(D::Variant(variant.as_bytes().to_vec(), Box::new(value.serialize(Rec)?)))
    }
    fn serialize_seq(self, _len: Option<usize>) -> Result<SeqRec, RecErr> {
        Ok(SeqRec { variant: None, items: Vec::new() })
    }
    fn serialize_tuple(self, _len: usize) -> Result<SeqRec, RecErr> {
        Ok(SeqRec { variant: None, items: Vec::new() })
    }
    fn serialize_tuple_struct(self, _n: &'static str, _len: usize) -> Result<SeqRec, RecErr> {
        Ok(SeqRec { variant: None, items: Vec::new() })
    }
    fn serialize_tuple_variant(self, _n: &'static str, _i: u32, variant: &'static str, _len: usize) -> Result<SeqRec, RecErr> {
        Ok(SeqRec { variant: Some(variant.as_bytes().to_vec()), items: Vec::new() })
    }
    fn serialize_map(self, _len: Option<usize>) -> Result<MapRec, RecErr> {
        Ok(MapRec { variant: None, entries: Vec::new(), key: None })
    }
    fn serialize_struct(self, _n: &'static str, _len: usize) -> Result<MapRec, RecErr> {
        Ok(MapRec { variant: None, entries: Vec::new(), key: None })
    }
    fn serialize_struct_variant(self, _n: &'static str, _i: u32, variant: &'static str, _len: usize) -> Result<MapRec, RecErr> {
        Ok(MapRec { variant: Some(variant.as_bytes().to_vec()), entries: Vec::new(), key: None })
    }
}

impl ser::SerializeSeq for SeqRec {
    type Ok = D;
    type Error = RecErr;
    fn serialize_element<T: ?Sized + Serialize>(&mut self, value: &T) -> Result<(), RecErr> {
        self.items.push(value.serialize(Rec)?);
        Ok(())
    }
    fn end(self) -> Result<D, RecErr> {
        Ok(wrap(self.variant, D::Seq(self.items)))
    }
}
impl ser::SerializeTuple for SeqRec {
    type Ok = D;
    type Error = RecErr;
    fn serialize_element<T: ?Sized + Serialize>(&mut self, value: &T) -> Result<(), RecErr> {
        self.items.push(value.serialize(Rec)?);
        Ok(())
    }
    fn end(self) -> Result<D, RecErr> {
        Ok(wrap(self.variant, D::Seq(self.items)))
    }
}
impl ser::SerializeTupleStruct for SeqRec {
    type Ok = D;
    type Error = RecErr;
    fn serialize_field<T: ?Sized + Serialize>(&mut self, value: &T) -> Result<(), RecErr> {
        self.items.push(value.serialize(Rec)?);
        Ok(())
    }
    fn end(self) -> Result<D, RecErr> {
        Ok(wrap(self.variant, D::Seq(self.items)))
    }
}
impl ser::SerializeTupleVariant for SeqRec {
    type Ok = D;
    type Error = RecErr;
    fn serialize_field<T: ?Sized + Serialize>(&mut self, value: &T) -> Result<(), RecErr> {
        self.items.push(value.serialize(Rec)?);
        Ok(())
    }
    fn end(self) -> Result<D, RecErr> {
        Ok(wrap(self.variant, D::Seq(self.items)))
    }
}
impl ser::SerializeMap for MapRec {
    type Ok = D;
    type Error = RecErr;
    fn serialize_key<T: ?Sized + Serialize>(&mut self, key: &T) -> Result<(), RecErr> {
        self.key = Some(key.serialize(Rec)?);
        Ok(())
    }
    fn serialize_value<T: ?Sized + Serialize>(&mut self, value: &T) -> Result<(), RecErr> {
        let k = self.key.take().ok_or_else(|| RecErr("value without key".into()))?;
        self.entries.push((k, value.serialize(Rec)?));
        Ok(())
    }
    fn end(self) -> Result<D, RecErr> {
        Ok(wrap(self.variant, D::Map(self.entries)))
    }
}
impl ser::SerializeStruct for MapRec {
    type Ok = D;
    type Error = RecErr;
    fn serialize_field<T: ?Sized + Serialize>(&mut self, key: &'static str, value: &T) -> Result<(), RecErr> {
        self.entries.push((D::Str(key.as_bytes().to_vec()), value.serialize(Rec)?));
        Ok(())
    }
    fn end(self) -> Result<D, RecErr> {
        Ok(wrap(self.variant, D::Map(self.entries)))
    }
}
impl ser::SerializeStructVariant for MapRec {
    type Ok = D;
    type Error = RecErr;
    fn serialize_field<T: ?Sized + Serialize>(&mut self, key: &'static str, value: &T) -> Result<(), RecErr> {
        self.entries.push((D::Str(key.as_bytes().to_vec()), value.serialize(Rec)?));
        Ok(())
    }
    fn end(self) -> Result<D, RecErr> {
        Ok(wrap(self.variant, D::Map(self.entries)))
    }
}

// ---------------------------------------------------------------------------------------
// S: a tree of serde *calls*, replayed through `Serialize` so that the real serializer sees
// every method of the data model (i8..u64, f32, char, bytes, some, unit struct, newtype,
// tuple, struct, all four variant kinds, maps with arbitrary keys).

/// static names for struct fields / variants (serde demands `&'static str`)
pub const NAMES: [&str; 16] = [
    "a", "do", "_x1", "1st", "end", "Value", "", "na\u{ef}ve", "with space", "nil", "A9_", "quo\"te",
    "x\n", "\0", "until", "Z",
];

#[derive(Clone, Debug)]
pub enum S {
    Unit,
    None,
    UnitStruct,
    Bool(bool),
    I8(i8),
    I16(i16),
    I32(i32),
    I64(i64),
    U8(u8),
    U16(u16),
    U32(u32),
    U64(u64),
    F32(f32),
    F64(f64),
    Char(char),
    Str(String),
    Bytes(Vec<u8>),
    Some(Box<S>),
    Newtype(Box<S>),
    UnitVariant(usize),
    NewtypeVariant(usize, Box<S>),
    Seq(Vec<S>),
    Tuple(Vec<S>),
    TupleStruct(Vec<S>),
    TupleVariant(usize, Vec<S>),
    Map(Vec<(S, S)>),
    Struct(Vec<(usize, S)>),
    StructVariant(usize, Vec<(usize, S)>),
}

impl Serialize for S {
    fn serialize<Z: ser::Serializer>(&self, z: Z) -> Result<Z::Ok, Z::Error> {
        use ser::{SerializeMap, SerializeSeq, SerializeStruct, SerializeStructVariant, SerializeTuple,
                  SerializeTupleStruct, SerializeTupleVariant};
        match self {
            S::Unit => z.serialize_unit(),
            S::None => z.serialize_none(),
            S::UnitStruct => z.serialize_unit_struct("U"),
            S::Bool(v) => z.serialize_bool(*v),
            S::I8(v) => z.serialize_i8(*v),
            S::I16(v) => z.serialize_i16(*v),
            S::I32(v) => z.serialize_i32(*v),
            S::I64(v) => z.serialize_i64(*v),
            S::U8(v) => z.serialize_u8(*v),
            S::U16(v) => z.serialize_u16(*v),
            S::U32(v) => z.serialize_u32(*v),
            S::U64(v) => z.serialize_u64(*v),
            S::F32(v) => z.serialize_f32(*v),
            S::F64(v) => z.serialize_f64(*v),
            S::Char(v) => z.serialize_char(*v),
            S::Str(v) => z.serialize_str(v),
            S::Bytes(v) => z.serialize_bytes(v),
            S::Some(v) => z.serialize_some(&**v),
            S::Newtype(v) => z.serialize_newtype_struct("N", &**v),
            S::UnitVariant(i) => z.serialize_unit_variant("E", *i as u32, NAMES[*i % NAMES.len()]),
            S::NewtypeVariant(i, v) => z.serialize_newtype_variant("E", *i as u32, NAMES[*i % NAMES.len()], &**v),
            S::Seq(xs) => {
                let mut q = z.serialize_seq(Some(xs.len()))?;
                for x in xs {
                    q.serialize_element(x)?;
                }
                q.end()
            }
            S::Tuple(xs) => {
                let mut q = z.serialize_tuple(xs.len())?;
                for x in xs {
                    q.serialize_element(x)?;
                }
                q.end()
            }
            S::TupleStruct(xs) => {
                let mut q = z.serialize_tuple_struct("T", xs.len())?;
                for x in xs {
                    q.serialize_field(x)?;
                }
                q.end()
            }
            S::TupleVariant(i, xs) => {
                let mut q = z.serialize_tuple_variant("E", *i as u32, NAMES[*i % NAMES.len()], xs.len())?;
                for x in xs {
                    q.serialize_field(x)?;
                }
                q.end()
            }
            S::Map(kvs) => {
                let mut q = z.serialize_map(Some(kvs.len()))?;
                for (k, v) in kvs {
                    q.serialize_key(k)?;
                    q.serialize_value(v)?;
                }
                q.end()
            }
            S::Struct(kvs) => {
                let mut q = z.serialize_struct("S", kvs.len())?;
                for (k, v) in kvs {
                    q.serialize_field(NAMES[*k % NAMES.len()], v)?;
                }
                q.end()
            }
            S::StructVariant(i, kvs) => {
                let mut q = z.serialize_struct_variant("E", *i as u32, NAMES[*i % NAMES.len()], kvs.len())?;
                for (k, v) in kvs {
                    q.serialize_field(NAMES[*k % NAMES.len()], v)?;
                }
                q.end()
            }
        }
    }
}
