//! Property C20: file and rule filters select exactly the matching files.
//!
//! Part A (glob matrix): the real `FilterPattern::matches` (hook `filter_pattern_matches`) against the
//!   Lean reference matcher `C20.Spec.glob` on an exhaustive pattern x path grid of the documented subset.
//! Part B (metamorphic): real `darklua_core::process` on memory resources with filters at the top level
//!   and/or on rules of a multi-rule pipeline. Reference outputs are real runs of the *unfiltered*
//!   configuration containing only a subset of the rules; every subset gives a different output on the
//!   probe files, so the output of a filtered run names the set of rules that really ran on each file.
//!   * correspondence: that set == `C20.processFile` (the Lean model the theorems are about) evaluated
//!     with the real matcher's match matrix;
//!   * oracle: that set == the property statement evaluated with the reference matcher's matrix.
use crate::model::{hex, Model};
use crate::report::{Report, Violation};
use crate::rng::Rng;
use darklua_core::verif_hooks::{filter_pattern_matches, filter_pattern_matches_many};
use darklua_core::{process, Configuration, Options, Resources};
use serde::{Deserialize, Serialize};
use serde_json::{json, Value};
use std::collections::{BTreeMap, BTreeSet};
use std::path::Path;

// ---------------------------------------------------------------------------------------------
// Part A: glob matrix
// ---------------------------------------------------------------------------------------------

fn sequences(comps: &[&str], max_depth: usize) -> Vec<String> {
    let mut out: Vec<String> = Vec::new();
    let mut level: Vec<String> = vec![String::new()];
    for _ in 0..max_depth {
        let mut next = Vec::new();
        for prefix in &level {
            for c in comps {
                let s = if prefix.is_empty() { (*c).to_owned() } else { format!("{}/{}", prefix, c) };
                next.push(s);
            }
        }
        out.extend(next.iter().cloned());
        level = next;
    }
    out
}

struct GlobMismatch {
    pattern: String,
    path: Option<String>,
    real: String,
    spec: String,
}

struct GlobStats {
    compared: u64,
    ok_patterns: u64,
    invalid_patterns: u64,
    outside_patterns: u64,
    matches_true: u64,
    mismatches: Vec<GlobMismatch>,
}

fn real_match(pattern: &str, path: &str) -> Result<bool, String> {
    match std::panic::catch_unwind(|| filter_pattern_matches(pattern, Path::new(path))) {
        Ok(r) => r,
        Err(_) => Err("panic".to_owned()),
    }
}

/// one pattern, compiled once, against all paths
fn real_row(pattern: &str, paths: &[String]) -> Result<Vec<bool>, String> {
    let refs: Vec<&Path> = paths.iter().map(|p| Path::new(p.as_str())).collect();
    match std::panic::catch_unwind(|| filter_pattern_matches_many(pattern, &refs)) {
        Ok(r) => r,
        Err(_) => Err("panic".to_owned()),
    }
}

fn glob_chunk(patterns: &[String], paths: &[String]) -> GlobStats {
    let mut model = Model::spawn();
    let mut stats = GlobStats {
        compared: 0,
        ok_patterns: 0,
        invalid_patterns: 0,
        outside_patterns: 0,
        matches_true: 0,
        mismatches: Vec::new(),
    };
    let hex_paths: Vec<String> = paths.iter().map(|p| hex(p.as_bytes())).collect();
    let joined = hex_paths.join(" ");
    let requests: Vec<String> = patterns
        .iter()
        .map(|p| format!("c20.globrow {} {}", hex(p.as_bytes()), joined))
        .collect();
    let answers = model.ask_batch(&requests);
    for (pattern, answer) in patterns.iter().zip(answers) {
        match answer.as_str() {
            "outside" => {
                stats.outside_patterns += 1;
            }
            "invalid" => {
                stats.invalid_patterns += 1;
                // the pattern language rejects it: the real constructor must return an error
                if let Ok(b) = real_match(pattern, "a") {
                    stats.mismatches.push(GlobMismatch {
                        pattern: pattern.clone(),
                        path: None,
                        real: format!("accepted (matches `a`: {})", b),
                        spec: "invalid".to_owned(),
                    });
                }
            }
            row if row.len() == paths.len() && row.chars().all(|c| "01-".contains(c)) => {
                stats.ok_patterns += 1;
                let real_all = real_row(pattern, paths);
                for (i, (path, c)) in paths.iter().zip(row.chars()).enumerate() {
                    if c == '-' {
                        continue;
                    }
                    stats.compared += 1;
                    let real = match &real_all {
                        Ok(v) => Ok(v[i]),
                        Err(e) => Err(e.clone()),
                    };
                    let spec = c == '1';
                    if spec {
                        stats.matches_true += 1;
                    }
                    if real != Ok(spec) && stats.mismatches.len() < 20 {
                        stats.mismatches.push(GlobMismatch {
                            pattern: pattern.clone(),
                            path: Some(path.clone()),
                            real: format!("{:?}", real),
                            spec: spec.to_string(),
                        });
                    }
                }
            }
            other => {
                stats.mismatches.push(GlobMismatch {
                    pattern: pattern.clone(),
                    path: None,
                    real: "-".to_owned(),
                    spec: format!("driver answered `{}`", other),
                });
            }
        }
    }
    stats
}

fn part_a(report: &mut Report) {
    let thorough = report.is_thorough();
    let pat_comps: Vec<&str> = if thorough {
        vec!["a", "b", "*", "?", "**", "a*", "*b", "?b", "*.lua", "a.lua", "a?", "*a*", "??", "b.*"]
    } else {
        vec!["a", "b", "*", "?", "**", "a*", "*b", "?b", "*.lua", "a.lua", "a?"]
    };
    let path_comps: Vec<&str> = if thorough {
        vec!["a", "b", "ab", "ba", "a.lua", "b.lua", "aab", ".lua"]
    } else {
        vec!["a", "b", "ab", "ba", "a.lua", "b.lua"]
    };
    let mut patterns = sequences(&pat_comps, 3);
    if thorough {
        // depth 4 over a reduced alphabet
        let deep: Vec<String> = sequences(&["a", "*", "**", "?b", "*.lua", "b"], 4)
            .into_iter()
            .filter(|p| p.matches('/').count() == 3)
            .collect();
        patterns.extend(deep);
    }
    // outside the subset / malformed stream: must be classified, never silently compared
    for extra in [
        "a**", "**a", "***", "a/**b", "**/**", "a//b", "a/**/**/b", "[ab]", "{a,b}", "a/[!a]", "<a:1,>",
        "/a", "a/", "", "/**", "a\\*", "(a)", "a|b", "$", "a/$", "!a", "~", "a,b", "a:b", "a b/*",
    ] {
        patterns.push(extra.to_owned());
    }
    let paths = sequences(&path_comps, if thorough { 4 } else { 3 });
    let n_threads = 16usize;
    let chunk = (patterns.len() + n_threads - 1) / n_threads;
    let results: Vec<GlobStats> = std::thread::scope(|s| {
        let handles: Vec<_> = patterns
            .chunks(chunk.max(1))
            .map(|c| {
                let paths = &paths;
                s.spawn(move || glob_chunk(c, paths))
            })
            .collect();
        handles.into_iter().map(|h| h.join().expect("glob thread")).collect()
    });
    let mut compared = 0;
    for st in results {
        compared += st.compared;
        report.count("glob_pairs_compared", st.compared);
        report.count("glob_pairs_matching", st.matches_true);
        report.count("glob_patterns_ok", st.ok_patterns);
        report.count("glob_patterns_invalid", st.invalid_patterns);
        report.count("glob_patterns_outside_subset", st.outside_patterns);
        for m in st.mismatches {
            report.violation(Violation {
                kind: "oracle".to_owned(),
                check: "glob-matrix".to_owned(),
                what: format!(
                    "FilterPattern `{}` on path {:?}: real {} but the documented meaning is {}",
                    m.pattern, m.path, m.real, m.spec
                ),
                input: json!({"kind": "glob", "pattern": m.pattern, "path": m.path}),
                failing_input_found: true,
            });
        }
    }
    report.evaluations += compared;
    report.hist("part", "glob-matrix pairs");
    report.exhaustive.insert(
        format!(
            "glob matrix: all patterns of <= 3 components over {} component shapes x all paths of <= {} components over {} names",
            pat_comps.len(),
            if thorough { 4 } else { 3 },
            path_comps.len()
        ),
        true,
    );
}

// ---------------------------------------------------------------------------------------------
// Part B: metamorphic runs of the real `process`
// ---------------------------------------------------------------------------------------------

#[derive(Clone, Debug, Serialize, Deserialize, PartialEq, Eq, Hash)]
pub enum Pats {
    None,
    One(String),
    Many(Vec<String>),
}

impl Pats {
    fn list(&self) -> Vec<String> {
        match self {
            Pats::None => vec![],
            Pats::One(s) => vec![s.clone()],
            Pats::Many(v) => v.clone(),
        }
    }
    fn json(&self) -> Option<Value> {
        match self {
            Pats::None => None,
            Pats::One(s) => Some(json!(s)),
            Pats::Many(v) => Some(json!(v)),
        }
    }
    fn form(&self) -> &'static str {
        match self {
            Pats::None => "absent",
            Pats::One(_) => "string",
            Pats::Many(v) if v.is_empty() => "empty-array",
            Pats::Many(v) if v.len() == 1 => "array-1",
            Pats::Many(_) => "array-n",
        }
    }
}

struct Tree {
    name: &'static str,
    input: &'static str,
    /// all files written to the resources
    files: &'static [&'static str],
    /// the files `process` is expected to pick up, as (source path, path relative to the input)
    work: &'static [(&'static str, &'static str)],
    pool: &'static [&'static str],
}

const STATIC_TREES: &[Tree] = &[
    Tree {
        name: "root",
        input: "",
        files: &["main.lua", "src/a.lua", "src/b.lua", "src/sub/a.lua", "src/sub/deep/c.luau", "lib/a.lua", "notes.txt"],
        work: &[
            ("main.lua", "main.lua"),
            ("src/a.lua", "src/a.lua"),
            ("src/b.lua", "src/b.lua"),
            ("src/sub/a.lua", "src/sub/a.lua"),
            ("src/sub/deep/c.luau", "src/sub/deep/c.luau"),
            ("lib/a.lua", "lib/a.lua"),
        ],
        pool: &[
            "**", "**/*.lua", "*.lua", "*", "src/**", "src/*", "src/*.lua", "src/**/*.lua", "**/a.lua", "src/sub/**",
            "**/sub/**", "lib/a.lua", "src/?.lua", "main.lua", "*/a.lua", "**/deep/*", "nomatch/**", "s*/**/c.luau",
            "out/**", "./src/**", "src/sub", "**/*.luau", "src/**/a.lua", "?????lua", "**/?.lua",
            // outside the documented subset: correspondence only
            "src/{a,b}.lua", "**/[ab].lua",
        ],
    },
    Tree {
        name: "dir",
        input: "./src/../src/",
        files: &["src/a.lua", "src/x/a.lua", "src/x/y/b.lua", "src/x/y/a b.lua", "other/a.lua"],
        work: &[
            ("src/a.lua", "a.lua"),
            ("src/x/a.lua", "x/a.lua"),
            ("src/x/y/b.lua", "x/y/b.lua"),
            ("src/x/y/a b.lua", "x/y/a b.lua"),
        ],
        pool: &[
            "**", "src/**", "a.lua", "*.lua", "src/*.lua", "**/a.lua", "src/x/**", "x/**", "**/y/*", "src/*/a.lua",
            "src/**/b.lua", "./src/**", "src/../src/**", "**/x/**/b.lua", "src/x/y/a b.lua", "**/a*", "src/*/*/*",
            "src/x/?/b.lua", "**/a ?.lua", "other/**",
        ],
    },
    Tree {
        name: "single-file",
        input: "src/x/a.lua",
        files: &["src/a.lua", "src/x/a.lua"],
        work: &[("src/x/a.lua", "a.lua")],
        pool: &["**", "a.lua", "src/x/a.lua", "**/a.lua", "src/*", "src/**", "x/**", "src/x/*", "*/*/*", "*/*"],
    },
];

/// owned form (static trees + seeded random trees)
struct TreeO {
    name: String,
    input: String,
    files: Vec<String>,
    work: Vec<(String, String)>,
    pool: Vec<String>,
    /// output location given to `with_output` in output mode; a work item whose relative path is empty is
    /// written to the output location itself (single file to an output file)
    output: String,
    /// single-site sweep: keep one case out of `sweep_mod.0` (quick) / `.1` (thorough)
    sweep_mod: (usize, usize),
    /// random multi-site cases per (pipeline, mode): quick / thorough
    random_cases: (usize, usize),
}

static ALL_TREES: std::sync::OnceLock<Vec<TreeO>> = std::sync::OnceLock::new();

fn trees() -> &'static [TreeO] {
    ALL_TREES.get().expect("trees not initialised")
}

/// a random tree of Lua files below the root (input ""), with a pattern pool derived from its paths
fn random_tree(rng: &mut Rng, index: usize) -> TreeO {
    let dirs = ["src", "lib", "a", "b", "x y", "deep"];
    let names = ["a.lua", "b.lua", "init.lua", "c.luau", "ab.lua", "a b.lua"];
    let mut files: Vec<String> = Vec::new();
    let n = 4 + rng.below(4);
    let mut guard = 0;
    while files.len() < n && guard < 100 {
        guard += 1;
        let depth = rng.below(4);
        let mut parts: Vec<&str> = (0..depth).map(|_| *rng.pick(&dirs)).collect();
        parts.push(*rng.pick(&names));
        let path = parts.join("/");
        // a file cannot also be a directory of another file
        if files.iter().any(|f| *f == path || f.starts_with(&format!("{}/", path)) || path.starts_with(&format!("{}/", f))) {
            continue;
        }
        files.push(path);
    }
    files.sort();
    let mut pool: Vec<String> = vec!["**".into(), "*".into(), "*.lua".into(), "**/*.lua".into(), "nomatch/**".into(), "**/*.luau".into()];
    for f in &files {
        let comps: Vec<&str> = f.split('/').collect();
        let base = comps[comps.len() - 1];
        let mut candidates = vec![f.clone(), format!("**/{}", base)];
        if comps.len() > 1 {
            let dir = comps[..comps.len() - 1].join("/");
            candidates.push(format!("{}/**", dir));
            candidates.push(format!("{}/*", dir));
            candidates.push(format!("{}/**/{}", comps[0], base));
            candidates.push(format!("{}/**", comps[0]));
            let mut starred = comps.clone();
            let i = rng.below(comps.len());
            starred[i] = "*";
            candidates.push(starred.join("/"));
            candidates.push(format!("**/{}/**", comps[comps.len() - 2]));
        }
        let stem_q: String = base.chars().enumerate().map(|(i, c)| if i == 0 { '?' } else { c }).collect();
        candidates.push(format!("**/{}", stem_q));
        for c in candidates {
            if !pool.contains(&c) && pool.len() < 28 {
                pool.push(c);
            }
        }
    }
    let work = files.iter().map(|f| (f.clone(), f.clone())).collect();
    let mut all_files = files.clone();
    all_files.push("readme.md".into());
    TreeO {
        name: format!("random-{}", index),
        input: String::new(),
        files: all_files,
        work,
        pool,
        output: "out".into(),
        sweep_mod: (40, 16),
        random_cases: (500, 2500),
    }
}

/// every KIND of input (directory / single file) x SPELLING of it (normalised, `./` prefix, inner `.`, `..`,
/// trailing slash) x OUTPUT (new directory, existing directory, output file): the filters must see the
/// normalised source path whatever the spelling (worker_tree.rs add_source_if_missing / collect_work)
fn spelling_trees() -> Vec<TreeO> {
    let dir_pool: Vec<String> = STATIC_TREES[1].pool.iter().map(|x| x.to_string()).collect();
    let file_pool: Vec<String> = STATIC_TREES[2].pool.iter().map(|x| x.to_string()).collect();
    let mut out = Vec::new();
    let dir_files = ["src/a.lua", "src/x/a.lua", "src/x/y/b.lua", "src/x/y/a b.lua", "other/a.lua"];
    let dir_work = [("src/a.lua", "a.lua"), ("src/x/a.lua", "x/a.lua"), ("src/x/y/b.lua", "x/y/b.lua"), ("src/x/y/a b.lua", "x/y/a b.lua")];
    for (si, input) in ["src", "./src", "src/", "src/.", "src/x/..", "./src/./x/../"].iter().enumerate() {
        for existing in [false, true] {
            let mut files: Vec<String> = dir_files.iter().map(|x| x.to_string()).collect();
            if existing {
                files.push("out/placeholder.txt".into());
            }
            out.push(TreeO {
                name: format!("spelling-dir-{}-{}", si, if existing { "existing-out" } else { "new-out" }),
                input: (*input).to_owned(),
                files,
                work: dir_work.iter().map(|(a, b)| (a.to_string(), b.to_string())).collect(),
                pool: dir_pool.clone(),
                output: "out".into(),
                sweep_mod: (24, 4),
                random_cases: (60, 400),
            });
        }
    }
    // single-file spellings: dot components, and EMPTY components (separator runs `/{2,3}` at every component
    // boundary) without any dot component
    for (si, input) in [
        "src/x/a.lua",
        "./src/x/a.lua",
        "src/./x/a.lua",
        "src/x/y/../a.lua",
        "./src/../src/x/./a.lua",
        "src//x/a.lua",
        "src/x//a.lua",
        "src///x/a.lua",
        "src//x//a.lua",
        "src/x///a.lua",
    ]
    .iter()
    .enumerate()
    {
        for (oi, (output, rel, existing)) in [("out", "a.lua", false), ("out", "a.lua", true), ("out/result.lua", "", false)].iter().enumerate() {
            let mut files: Vec<String> = vec!["src/a.lua".into(), "src/x/a.lua".into(), "src/x/y/b.lua".into()];
            if *existing {
                files.push("out/placeholder.txt".into());
            }
            out.push(TreeO {
                name: format!("spelling-file-{}-{}", si, ["new-out", "existing-out", "out-file"][oi]),
                input: (*input).to_owned(),
                files,
                work: vec![("src/x/a.lua".to_owned(), (*rel).to_owned())],
                pool: file_pool.clone(),
                output: (*output).to_owned(),
                sweep_mod: (6, 1),
                random_cases: (60, 400),
            });
        }
    }
    out
}

fn fixed_tree_count() -> usize {
    STATIC_TREES.len() + spelling_trees().len()
}

fn init_trees(seed: u64, n_random: usize) {
    let mut all: Vec<TreeO> = STATIC_TREES
        .iter()
        .enumerate()
        .map(|(i, t)| TreeO {
            name: t.name.to_owned(),
            input: t.input.to_owned(),
            files: t.files.iter().map(|x| x.to_string()).collect(),
            work: t.work.iter().map(|(a, b)| (a.to_string(), b.to_string())).collect(),
            pool: t.pool.iter().map(|x| x.to_string()).collect(),
            output: "out".into(),
            sweep_mod: if i == 0 { (1, 1) } else { (4, 1) },
            random_cases: (500, 2500),
        })
        .collect();
    all.extend(spelling_trees());
    let mut rng = Rng::new(seed ^ 0x7ee5);
    for i in 0..n_random {
        all.push(random_tree(&mut rng, i));
    }
    let _ = ALL_TREES.set(all);
}

struct Pipeline {
    name: &'static str,
    generator: &'static str,
    /// rule objects without filters
    rules: fn() -> Vec<Value>,
    content: &'static str,
}

const CONTENT_A: &str = "-- note\ndo end\nlocal a = 1 + 2\nlocal t = {}\nreturn a, _G.VALUE, t['k']\n";
const CONTENT_B: &str =
    "do end\nlocal a = 1 + 2\nlocal t = {}\nwhile false do end\nlocal n = nil\nprint('s')\nreturn a, _G.ALPHA, _G.BETA, t['k'], n\n";

const PIPELINES: &[Pipeline] = &[
    Pipeline {
        name: "retain-4",
        generator: "retain_lines",
        rules: || {
            vec![
                json!({"rule": "remove_comments"}),
                json!({"rule": "remove_empty_do"}),
                json!({"rule": "compute_expression"}),
                json!({"rule": "inject_global_value", "identifier": "VALUE", "value": 1}),
            ]
        },
        content: CONTENT_A,
    },
    Pipeline {
        name: "dense-5",
        generator: "dense",
        rules: || {
            vec![
                json!({"rule": "inject_global_value", "identifier": "ALPHA", "value": "x"}),
                json!({"rule": "remove_unused_while"}),
                json!({"rule": "convert_index_to_field"}),
                json!({"rule": "inject_global_value", "identifier": "BETA", "value": true}),
                json!({"rule": "remove_function_call_parens"}),
            ]
        },
        content: CONTENT_B,
    },
    Pipeline {
        name: "readable-3",
        generator: "readable",
        rules: || {
            vec![
                json!({"rule": "remove_nil_declaration"}),
                json!({"rule": "compute_expression"}),
                json!({"rule": "remove_empty_do"}),
            ]
        },
        content: CONTENT_B,
    },
];

#[derive(Clone, Debug, Serialize, Deserialize, PartialEq, Eq, Hash)]
pub struct Case {
    tree: usize,
    pipeline: usize,
    in_place: bool,
    top: (Pats, Pats),
    rules: Vec<(Pats, Pats)>,
}

fn file_content(pipeline: &Pipeline, path: &str) -> String {
    // the path is mentioned in a string so that outputs of different files differ
    format!("{}local _ = '{}'\n", "", path.replace('\'', "")) + pipeline.content
}

fn config_value(case: &Case, subset: Option<u32>) -> Value {
    let pipeline = &PIPELINES[case.pipeline];
    let base = (pipeline.rules)();
    let mut rules = Vec::new();
    for (i, mut rule) in base.into_iter().enumerate() {
        match subset {
            Some(mask) => {
                if mask & (1 << i) == 0 {
                    continue;
                }
            }
            None => {
                let (a, s) = &case.rules[i];
                if let Some(v) = a.json() {
                    rule["apply_to_files"] = v;
                }
                if let Some(v) = s.json() {
                    rule["skip_files"] = v;
                }
            }
        }
        // string form when the object carries nothing but the name
        if rule.as_object().map(|o| o.len()) == Some(1) {
            rules.push(rule["rule"].clone());
        } else {
            rules.push(rule);
        }
    }
    let mut cfg = json!({"generator": pipeline.generator, "rules": rules});
    if subset.is_none() {
        if let Some(v) = case.top.0.json() {
            cfg["apply_to_files"] = v;
        }
        if let Some(v) = case.top.1.json() {
            cfg["skip_files"] = v;
        }
    }
    cfg
}

/// outputs of the real `process` for every work file: None = no output written
fn run_real(case: &Case, cfg_text: &str) -> Result<Vec<Option<String>>, String> {
    let tree = &trees()[case.tree];
    let pipeline = &PIPELINES[case.pipeline];
    let in_place = case.in_place;
    let cfg_text = cfg_text.to_owned();
    let result = std::panic::catch_unwind(move || -> Result<Vec<Option<String>>, String> {
        let resources = Resources::from_memory();
        for f in &tree.files {
            resources.write(f, &file_content(pipeline, f)).map_err(|e| format!("{:?}", e))?;
        }
        let cfg: Configuration = json5::from_str(&cfg_text).map_err(|e| format!("config rejected: {}", e))?;
        let mut options = Options::new(tree.input.as_str()).with_configuration(cfg);
        if !in_place {
            options = options.with_output(tree.output.as_str());
        }
        let worker_tree = process(&resources, options).map_err(|e| format!("process error: {}", e))?;
        worker_tree
            .result()
            .map_err(|errs| format!("process errors: {}", errs.iter().map(|e| e.to_string()).collect::<Vec<_>>().join("; ")))?;
        let mut outs = Vec::new();
        for (source, rel) in &tree.work {
            let location = if in_place {
                source.clone()
            } else if rel.is_empty() {
                tree.output.clone()
            } else {
                format!("{}/{}", tree.output, rel)
            };
            outs.push(resources.get(&location).ok());
        }
        // files outside the input, or not Lua, are never touched
        for f in &tree.files {
            if !tree.work.iter().any(|(s, _)| s == f) {
                let now = resources.get(f).map_err(|e| format!("{:?}", e))?;
                if now != file_content(pipeline, f) {
                    return Err(format!("file `{}` outside the input was modified", f));
                }
            }
        }
        Ok(outs)
    });
    match result {
        Ok(r) => r,
        Err(_) => Err("panic".to_owned()),
    }
}

#[derive(Clone, Debug, PartialEq, Eq)]
enum Decoded {
    Untouched,
    Ran(u32),
    /// in-place with a generator that reproduces the source: untouched and "no rule ran" look the same
    UntouchedOrNone,
    Unknown(String),
}

struct Reference {
    /// [mask][file] -> output
    outputs: Vec<Vec<String>>,
    sources: Vec<String>,
}

fn build_reference(tree: usize, pipeline: usize, in_place: bool) -> Result<Reference, String> {
    let k = (PIPELINES[pipeline].rules)().len();
    let base = Case {
        tree,
        pipeline,
        in_place,
        top: (Pats::None, Pats::None),
        rules: vec![(Pats::None, Pats::None); k],
    };
    let mut outputs = Vec::new();
    for mask in 0..(1u32 << k) {
        let text = config_value(&base, Some(mask)).to_string();
        let outs = run_real(&base, &text)?;
        let mut row = Vec::new();
        for (i, o) in outs.into_iter().enumerate() {
            row.push(o.ok_or_else(|| format!("reference run mask {} wrote no output for file {}", mask, i))?);
        }
        outputs.push(row);
    }
    let n_files = trees()[tree].work.len();
    for f in 0..n_files {
        let mut seen = BTreeSet::new();
        for mask in 0..outputs.len() {
            if !seen.insert(outputs[mask][f].clone()) {
                return Err(format!(
                    "probe not discriminating: pipeline {} file {} mask {} repeats an output",
                    PIPELINES[pipeline].name, f, mask
                ));
            }
        }
    }
    let sources = trees()[tree].work.iter().map(|(s, _)| file_content(&PIPELINES[pipeline], s)).collect();
    Ok(Reference { outputs, sources })
}

fn decode(reference: &Reference, in_place: bool, file: usize, out: &Option<String>) -> Decoded {
    match out {
        None => Decoded::Untouched,
        Some(text) => {
            if in_place && *text == reference.sources[file] {
                if reference.outputs[0][file] == *text {
                    return Decoded::UntouchedOrNone;
                }
                return Decoded::Untouched;
            }
            for (mask, row) in reference.outputs.iter().enumerate() {
                if row[file] == *text {
                    return Decoded::Ran(mask as u32);
                }
            }
            Decoded::Unknown(text.clone())
        }
    }
}

fn same(decoded: &Decoded, expected: &Decoded) -> bool {
    match (decoded, expected) {
        (Decoded::UntouchedOrNone, Decoded::Untouched) | (Decoded::UntouchedOrNone, Decoded::Ran(0)) => true,
        (a, b) => a == b,
    }
}

/// the property statement, evaluated with a given match matrix
fn statement(case: &Case, patterns: &[String], matrix: &dyn Fn(usize, usize) -> Option<bool>, file: usize) -> Option<Decoded> {
    let index = |p: &String| patterns.iter().position(|q| q == p).unwrap();
    let verdict = |apply: &Pats, skip: &Pats| -> Option<bool> {
        let apply = apply.list();
        let skip = skip.list();
        let mut any_apply = apply.is_empty();
        for p in &apply {
            if matrix(index(p), file)? {
                any_apply = true;
            }
        }
        let mut any_skip = false;
        for p in &skip {
            if matrix(index(p), file)? {
                any_skip = true;
            }
        }
        Some(any_apply && !any_skip)
    };
    if !verdict(&case.top.0, &case.top.1)? {
        return Some(Decoded::Untouched);
    }
    let mut mask = 0u32;
    for (i, (a, s)) in case.rules.iter().enumerate() {
        if verdict(a, s)? {
            mask |= 1 << i;
        }
    }
    Some(Decoded::Ran(mask))
}

fn case_patterns(case: &Case) -> Vec<String> {
    let mut all = Vec::new();
    let mut push = |p: &Pats| {
        for s in p.list() {
            if !all.contains(&s) {
                all.push(s);
            }
        }
    };
    push(&case.top.0);
    push(&case.top.1);
    for (a, s) in &case.rules {
        push(a);
        push(s);
    }
    all
}

fn model_request(case: &Case, patterns: &[String], real_matrix: &[Vec<bool>], n_files: usize) -> String {
    let idx = |p: &Pats| -> String {
        p.list()
            .iter()
            .map(|s| patterns.iter().position(|q| q == s).unwrap().to_string())
            .collect::<Vec<_>>()
            .join(" ")
    };
    let rows: Vec<String> = real_matrix
        .iter()
        .map(|r| r.iter().map(|b| if *b { '1' } else { '0' }).collect::<String>())
        .collect();
    let rules: Vec<String> = case.rules.iter().map(|(a, s)| format!("(({}) ({}))", idx(a), idx(s))).collect();
    format!(
        "c20.decide (cfg (m {}) (apply {}) (skip {}) (rules {}) (paths {}))",
        rows.join(" "),
        idx(&case.top.0),
        idx(&case.top.1),
        rules.join(" "),
        n_files
    )
}

fn parse_model_answer(answer: &str, n_files: usize) -> Option<Vec<Decoded>> {
    let parts: Vec<&str> = answer.split(';').collect();
    if parts.len() != n_files {
        return None;
    }
    parts
        .iter()
        .map(|p| {
            let mut words = p.split(' ');
            match words.next()? {
                "untouched" => Some(Decoded::Untouched),
                "written" => {
                    let mut mask = 0u32;
                    for w in words {
                        mask |= 1 << w.parse::<u32>().ok()?;
                    }
                    Some(Decoded::Ran(mask))
                }
                _ => None,
            }
        })
        .collect()
}

#[derive(Default)]
struct CaseOutcome {
    violations: Vec<Violation>,
    nontrivial: bool,
    oracle_judged: bool,
    hist: Vec<(String, String)>,
    sample: Option<Value>,
}

type References = BTreeMap<(usize, usize, bool), Reference>;

type SpecCache = std::collections::HashMap<(usize, String), String>;

fn check_case(case: &Case, model: &mut Model, references: &References, spec_cache: &mut SpecCache) -> CaseOutcome {
    let mut outcome = CaseOutcome::default();
    let tree = &trees()[case.tree];
    let n_files = tree.work.len();
    let cfg_text = config_value(case, None).to_string();
    let case_json = json!({"kind": "process", "case": case, "config": cfg_text, "tree": tree.name,
        "input": tree.input, "files": tree.files, "pipeline": PIPELINES[case.pipeline].name,
        "seed": SEED.load(std::sync::atomic::Ordering::Relaxed), "random_trees": trees().len() - fixed_tree_count()});
    let patterns = case_patterns(case);
    // real matcher (rows cached per (tree, pattern): every call of the hook compiles the pattern)
    let mut real_matrix: Vec<Vec<bool>> = Vec::new();
    let mut invalid = None;
    for p in &patterns {
        let key = (case.tree, format!("real:{}", p));
        if !spec_cache.contains_key(&key) {
            let mut row = String::new();
            for (source, _) in &tree.work {
                row.push(match real_match(p, source) {
                    Ok(true) => '1',
                    Ok(false) => '0',
                    Err(_) => 'E',
                });
            }
            spec_cache.insert(key.clone(), row);
        }
        let row = &spec_cache[&key];
        if row.contains('E') {
            invalid = Some((p.clone(), "invalid pattern".to_owned()));
        }
        real_matrix.push(row.chars().map(|c| c == '1').collect());
    }
    let real = run_real(case, &cfg_text);
    if let Some((p, _)) = invalid {
        // an invalid pattern must make the configuration unreadable, never be ignored
        outcome.hist.push(("case-kind".into(), "invalid-pattern".into()));
        if !matches!(&real, Err(e) if e.starts_with("config rejected")) {
            outcome.violations.push(Violation {
                kind: "oracle".into(),
                check: "invalid-pattern-rejected".into(),
                what: format!("pattern `{}` is invalid but the configuration was accepted: {:?}", p, real.map(|_| ())),
                input: case_json,
                failing_input_found: true,
            });
        }
        return outcome;
    }
    let real = match real {
        Ok(r) => r,
        Err(e) => {
            outcome.violations.push(Violation {
                kind: "oracle".into(),
                check: "process-succeeds".into(),
                what: format!("valid filters, yet processing failed: {}", e),
                input: case_json,
                failing_input_found: true,
            });
            return outcome;
        }
    };
    let reference = &references[&(case.tree, case.pipeline, case.in_place)];
    let decoded: Vec<Decoded> = (0..n_files).map(|f| decode(reference, case.in_place, f, &real[f])).collect();
    // --- model (theorem defs) with the real match matrix
    let answer = model.ask(&model_request(case, &patterns, &real_matrix, n_files));
    let predicted = parse_model_answer(&answer, n_files);
    // --- oracle: the statement with the reference matcher
    // reference matcher rows, cached per (tree, pattern)
    let missing: Vec<&String> = patterns.iter().filter(|p| !spec_cache.contains_key(&(case.tree, (*p).clone()))).collect();
    if !missing.is_empty() {
        let paths: Vec<String> = tree.work.iter().map(|(s, _)| hex(s.as_bytes())).collect();
        let reqs: Vec<String> =
            missing.iter().map(|p| format!("c20.globrow {} {}", hex(p.as_bytes()), paths.join(" "))).collect();
        let answers = model.ask_batch(&reqs);
        for (p, a) in missing.iter().zip(answers) {
            spec_cache.insert((case.tree, (*p).clone()), a);
        }
    }
    let spec_rows: Vec<String> = patterns.iter().map(|p| spec_cache[&(case.tree, p.clone())].clone()).collect();
    let spec = |p: usize, f: usize| -> Option<bool> {
        match spec_rows[p].as_bytes().get(f) {
            Some(b'1') if spec_rows[p].len() == n_files => Some(true),
            Some(b'0') if spec_rows[p].len() == n_files => Some(false),
            _ => None,
        }
    };
    let mut oracle_failures = Vec::new();
    let mut judged_all = true;
    let mut yes = 0;
    let mut no = 0;
    for f in 0..n_files {
        match statement(case, &patterns, &spec, f) {
            Some(expected) => {
                match &expected {
                    Decoded::Untouched => no += 1,
                    Decoded::Ran(m) => {
                        let k = case.rules.len() as u32;
                        if *m == (1 << k) - 1 {
                            yes += 1
                        } else {
                            no += 1;
                            yes += 1
                        }
                    }
                    _ => {}
                }
                if !same(&decoded[f], &expected) {
                    oracle_failures.push(format!(
                        "file `{}`: the statement gives {:?}, the real run did {:?}",
                        tree.work[f].0, expected, decoded[f]
                    ));
                }
            }
            None => judged_all = false,
        }
    }
    outcome.oracle_judged = judged_all;
    outcome.nontrivial = yes > 0 && no > 0;
    if !oracle_failures.is_empty() {
        outcome.violations.push(Violation {
            kind: "oracle".into(),
            check: "filtered-run-equals-reduced-pipeline".into(),
            what: oracle_failures.join(" | "),
            input: case_json.clone(),
            failing_input_found: true,
        });
    }
    // --- correspondence
    let corr_ok = match &predicted {
        Some(pred) => (0..n_files).all(|f| same(&decoded[f], &pred[f])),
        None => false,
    };
    if !corr_ok && oracle_failures.is_empty() {
        // the model and the code differ although the statement (where judged) holds on this input
        outcome.violations.push(Violation {
            kind: "correspondence".into(),
            check: "model-decide".into(),
            what: format!("model answered `{}`, real run decoded as {:?}", answer, decoded),
            input: case_json.clone(),
            failing_input_found: false,
        });
    }
    if decoded.iter().any(|d| matches!(d, Decoded::Unknown(_))) && oracle_failures.is_empty() && corr_ok {
        outcome.violations.push(Violation {
            kind: "oracle".into(),
            check: "output-is-some-sub-pipeline".into(),
            what: format!("an output equals no unfiltered sub-pipeline: {:?}", decoded),
            input: case_json.clone(),
            failing_input_found: true,
        });
    }
    let sites = (if case.top != (Pats::None, Pats::None) { 1 } else { 0 })
        + case.rules.iter().filter(|r| **r != (Pats::None, Pats::None)).count();
    outcome.hist.push(("filter-sites".into(), sites.to_string()));
    outcome.hist.push(("top-apply-form".into(), case.top.0.form().into()));
    outcome.hist.push(("top-skip-form".into(), case.top.1.form().into()));
    for (a, s) in &case.rules {
        outcome.hist.push(("rule-apply-form".into(), a.form().into()));
        outcome.hist.push(("rule-skip-form".into(), s.form().into()));
    }
    outcome.hist.push((
        "tree".into(),
        if tree.name.starts_with("random") {
            "random".into()
        } else if tree.name.starts_with("spelling-dir") {
            "spelling-dir".into()
        } else if tree.name.starts_with("spelling-file") {
            "spelling-file".into()
        } else {
            tree.name.clone()
        },
    ));
    outcome.hist.push(("pipeline".into(), PIPELINES[case.pipeline].name.into()));
    outcome.hist.push(("mode".into(), if case.in_place { "in-place" } else { "output-dir" }.into()));
    outcome.hist.push((
        "verdicts".into(),
        match (yes > 0, no > 0) {
            (true, true) => "mixed",
            (true, false) => "all-yes",
            (false, true) => "all-no",
            _ => "not-judged",
        }
        .into(),
    ));
    outcome.sample = Some(json!({"config": cfg_text, "tree": tree.name, "decoded": format!("{:?}", decoded)}));
    outcome
}

fn pattern_lists(pool: &[String], rich: bool) -> Vec<Pats> {
    let mut lists = vec![Pats::None, Pats::Many(vec![])];
    for (i, p) in pool.iter().enumerate() {
        if i % 2 == 0 {
            lists.push(Pats::One((*p).to_owned()));
        } else {
            lists.push(Pats::Many(vec![(*p).to_owned()]));
        }
        if rich {
            if i % 2 == 0 {
                lists.push(Pats::Many(vec![(*p).to_owned()]));
            } else {
                lists.push(Pats::One((*p).to_owned()));
            }
        }
    }
    for i in 0..pool.len() {
        let j = (i * 7 + 3) % pool.len();
        if i != j {
            lists.push(Pats::Many(vec![pool[i].to_owned(), pool[j].to_owned()]));
        }
        if rich {
            let l = (i * 5 + 1) % pool.len();
            lists.push(Pats::Many(vec![pool[i].to_owned(), pool[j].to_owned(), pool[l].to_owned()]));
        }
    }
    lists
}

fn random_pats(rng: &mut Rng, pool: &[String]) -> Pats {
    match rng.below(10) {
        0..=3 => Pats::None,
        4 => Pats::Many(vec![]),
        5 | 6 => Pats::One((*rng.pick(pool)).to_owned()),
        7 => Pats::Many(vec![(*rng.pick(pool)).to_owned()]),
        _ => {
            let n = 2 + rng.below(3);
            Pats::Many((0..n).map(|_| (*rng.pick(pool)).to_owned()).collect())
        }
    }
}

fn generate_cases(report: &Report) -> Vec<Case> {
    let thorough = report.is_thorough();
    let mut cases = Vec::new();
    let mut rng = Rng::new(report.seed);
    for (ti, tree) in trees().iter().enumerate() {
        for (pi, pipeline) in PIPELINES.iter().enumerate() {
            let k = (pipeline.rules)().len();
            let lists = pattern_lists(&tree.pool, thorough);
            for in_place in [false, true] {
                // in-place runs repeat the sweep on a thinner list in the quick tier
                let step = if in_place && !thorough { 3 } else { 1 };
                // single-site sweep: every site x apply list x skip list
                for site in 0..=k {
                    for (ai, a) in lists.iter().enumerate() {
                        for (si, s) in lists.iter().enumerate() {
                            if (ai + si) % step != 0 {
                                continue;
                            }
                            let modulus = if thorough { tree.sweep_mod.1 } else { tree.sweep_mod.0 };
                            if (ai * 31 + si * 17 + site) % modulus != 0 {
                                continue;
                            }
                            let mut case = Case {
                                tree: ti,
                                pipeline: pi,
                                in_place,
                                top: (Pats::None, Pats::None),
                                rules: vec![(Pats::None, Pats::None); k],
                            };
                            if site == 0 {
                                case.top = (a.clone(), s.clone());
                            } else {
                                case.rules[site - 1] = (a.clone(), s.clone());
                            }
                            cases.push(case);
                        }
                    }
                }
                // random multi-site
                let n = if thorough { tree.random_cases.1 } else { tree.random_cases.0 };
                for _ in 0..n {
                    let mut case = Case {
                        tree: ti,
                        pipeline: pi,
                        in_place,
                        top: (Pats::None, Pats::None),
                        rules: Vec::new(),
                    };
                    if rng.chance(1, 2) {
                        case.top = (random_pats(&mut rng, &tree.pool), random_pats(&mut rng, &tree.pool));
                    }
                    for _ in 0..k {
                        case.rules.push(if rng.chance(2, 3) {
                            (random_pats(&mut rng, &tree.pool), random_pats(&mut rng, &tree.pool))
                        } else {
                            (Pats::None, Pats::None)
                        });
                    }
                    cases.push(case);
                }
            }
        }
    }
    // malformed stream: invalid patterns must reject the configuration
    for bad in ["a**", "**/**", "src/[", "{a", "a//b", "***"] {
        for site in 0..=2usize {
            let mut case = Case {
                tree: 0,
                pipeline: 0,
                in_place: false,
                top: (Pats::None, Pats::None),
                rules: vec![(Pats::None, Pats::None); 4],
            };
            let pats = if site % 2 == 0 { Pats::One(bad.to_owned()) } else { Pats::Many(vec!["**".into(), bad.to_owned()]) };
            if site == 0 {
                case.top.1 = pats;
            } else {
                case.rules[site].0 = pats;
            }
            cases.push(case);
        }
    }
    cases
}

fn part_b(report: &mut Report, only: Option<Vec<Case>>) {
    let mut references: References = BTreeMap::new();
    for ti in 0..trees().len() {
        for pi in 0..PIPELINES.len() {
            for in_place in [false, true] {
                match build_reference(ti, pi, in_place) {
                    Ok(r) => {
                        references.insert((ti, pi, in_place), r);
                    }
                    Err(e) => {
                        report.violation(Violation {
                            kind: "oracle".into(),
                            check: "reference-runs".into(),
                            what: format!("cannot build the unfiltered reference outputs: {}", e),
                            input: json!({"kind": "reference", "tree": trees()[ti].name, "pipeline": PIPELINES[pi].name, "in_place": in_place}),
                            failing_input_found: true,
                        });
                        return;
                    }
                }
            }
        }
    }
    report.count("reference_runs", references.values().map(|r| r.outputs.len() as u64).sum());
    let exhaustive_sweep = only.is_none();
    let cases = only.unwrap_or_else(|| generate_cases(report));
    let n_threads = 16usize;
    let chunk = ((cases.len() + n_threads - 1) / n_threads).max(1);
    let references = &references;
    let results: Vec<Vec<(Case, CaseOutcome)>> = std::thread::scope(|s| {
        let handles: Vec<_> = cases
            .chunks(chunk)
            .map(|c| {
                s.spawn(move || {
                    let mut model = Model::spawn();
                    let mut spec_cache = SpecCache::new();
                    c.iter().map(|case| (case.clone(), check_case(case, &mut model, references, &mut spec_cache))).collect::<Vec<_>>()
                })
            })
            .collect();
        handles.into_iter().map(|h| h.join().expect("case thread")).collect()
    });
    let mut n_samples = 0;
    for (case, outcome) in results.into_iter().flatten() {
        report.case(if outcome.nontrivial { Some(&case) } else { None });
        for (h, b) in &outcome.hist {
            report.hist(h, b);
        }
        if outcome.oracle_judged {
            report.count("cases_judged_by_oracle", 1);
        } else {
            report.count("cases_correspondence_only", 1);
        }
        if outcome.nontrivial && n_samples < 6 {
            if let Some(s) = outcome.sample {
                report.sample(s);
                n_samples += 1;
            }
        }
        for v in outcome.violations {
            report.violation(v);
        }
    }
    if exhaustive_sweep {
        report.exhaustive.insert(
            "single-site sweep on tree `root`, output-dir mode: every filter site (top level, each rule of each pipeline) x every apply list x every skip list of the tree's pattern lists (other trees / in-place mode: thinned in the quick tier, full in the thorough tier)".into(),
            true,
        );
    }
}

// ---------------------------------------------------------------------------------------------
// Part C: spelling invariance on the real file system (a directory input's spelling is invisible with
// memory resources: the walk yields the stored keys)
// ---------------------------------------------------------------------------------------------

fn part_c(report: &mut Report) {
    let root = std::path::PathBuf::from(concat!(env!("CARGO_MANIFEST_DIR"), "/target")).join(format!("c20-fs-{}", std::process::id()));
    let _ = std::fs::remove_dir_all(&root);
    let content = "-- note\ndo end\nlocal a = 1 + 2\nreturn a\n";
    let setup = || -> std::io::Result<()> {
        std::fs::create_dir_all(root.join("proj/src/sub"))?;
        for f in ["proj/src/a.lua", "proj/src/b.lua", "proj/src/sub/c.lua"] {
            std::fs::write(root.join(f), content)?;
        }
        Ok(())
    };
    if let Err(e) = setup() {
        report.notes.push(format!("part C skipped: cannot create {}: {}", root.display(), e));
        return;
    }
    let root_text = root.to_string_lossy().to_string();
    let config = "{generator:'retain_lines', apply_to_files:['**/proj/src/*.lua'], rules:['remove_comments', {rule:'remove_empty_do', skip_files:'**/proj/src/b.lua'}, {rule:'compute_expression', apply_to_files:['**/proj/src/a.*', 'nomatch/**']}]}";
    let spellings: Vec<(String, String)> = vec![
        ("canonical".into(), format!("{}/proj/src", root_text)),
        ("doubled inner separator".into(), format!("{}/proj//src", root_text)),
        ("doubled separator before the project".into(), format!("{}//proj/src", root_text)),
        ("tripled and trailing".into(), format!("{}/proj///src/", root_text)),
        ("dot component".into(), format!("{}/proj/./src", root_text)),
        ("parent component".into(), format!("{}/proj/src/sub/..", root_text)),
    ];
    let mut results: Vec<(String, String, String)> = Vec::new();
    for (i, (label, input)) in spellings.iter().enumerate() {
        let out_dir = root.join(format!("out-{}", i));
        let input_c = input.clone();
        let out_c = out_dir.clone();
        let run = std::panic::catch_unwind(move || -> Result<(), String> {
            let resources = Resources::from_file_system();
            let cfg: Configuration = json5::from_str(config).map_err(|e| e.to_string())?;
            let options = Options::new(input_c).with_output(out_c).with_configuration(cfg);
            let tree = process(&resources, options).map_err(|e| e.to_string())?;
            tree.result().map_err(|errs| errs.iter().map(|e| e.to_string()).collect::<Vec<_>>().join("; "))
        });
        let mut text = match run {
            Ok(Ok(())) => String::new(),
            Ok(Err(e)) => format!("error: {}\n", e.replace(&root_text, "<root>")),
            Err(_) => "panic\n".to_owned(),
        };
        for f in ["a.lua", "b.lua", "sub/c.lua"] {
            match std::fs::read_to_string(out_dir.join(f)) {
                Ok(c) => text.push_str(&format!("== {}\n{}\n", f, c)),
                Err(_) => text.push_str(&format!("== {} (absent)\n", f)),
            }
        }
        results.push((label.clone(), input.replace(&root_text, "<root>"), text));
    }
    // the statement on the canonical path: a.lua all three rules, b.lua without remove_empty_do and without
    // compute_expression, sub/c.lua not processed
    let expected = "== a.lua\n\n\nlocal a = 3\nreturn a\n\n== b.lua\n\ndo end\nlocal a = 1 + 2\nreturn a\n\n== sub/c.lua (absent)\n";
    for (label, input, text) in &results {
        report.case(Some(("part-c", input.clone())));
        report.hist("part", "fs spelling invariance");
        if text != expected {
            report.violation(Violation {
                kind: "oracle".into(),
                check: "fs-spelling-invariance".into(),
                what: format!(
                    "file-system run with input `{}` ({}): filters `**/proj/src/*.lua` (top), `**/proj/src/b.lua` (skip), `**/proj/src/a.*` (apply) must select by the normalised path; got {:?}, expected {:?}",
                    input, label, text, expected
                ),
                input: json!({"kind": "fs-spelling", "input": input, "config": config}),
                failing_input_found: true,
            });
        }
    }
    let _ = std::fs::remove_dir_all(&root);
}

static SEED: std::sync::atomic::AtomicU64 = std::sync::atomic::AtomicU64::new(0);

pub fn run(report: &mut Report, replay: Option<&str>) {
    report.rule = "Part A compares the real FilterPattern with the Lean reference glob on an exhaustive pattern x path grid \
        (every pair counts as an evaluation). Part B runs the real process() on memory trees with filters at one site \
        (exhaustive sweep over site x apply list x skip list) and at several sites (seeded random), on three fixed trees \
        (inputs '', './src/../src/', a single file), on 42 input-spelling trees (directory / file input x spelling x output kind) and on seeded random trees with pattern pools derived from their paths; a case is non-trivial \
        when, by the reference matcher, at least one (file, site) verdict is yes and at least one is no, i.e. the filters \
        really discriminate; distinct = distinct (tree, pipeline, mode, filters)."
        .to_owned();
    let mut tree_seed = report.seed;
    let mut n_random = if report.is_thorough() { 8 } else { 4 };
    if let Some(path) = replay {
        let text = std::fs::read_to_string(path).unwrap_or_default();
        let v: Value = serde_json::from_str(&text).unwrap_or(Value::Null);
        let input = if v.get("input").is_some() { v["input"].clone() } else { v.clone() };
        if let (Some(sd), Some(n)) = (input["seed"].as_u64(), input["random_trees"].as_u64()) {
            tree_seed = sd;
            n_random = n as usize;
        }
    }
    SEED.store(tree_seed, std::sync::atomic::Ordering::Relaxed);
    init_trees(tree_seed, n_random);
    report.count("random_trees", n_random as u64);
    if let Some(path) = replay {
        let text = std::fs::read_to_string(path).unwrap_or_default();
        let v: Value = serde_json::from_str(&text).unwrap_or(Value::Null);
        let input = if v.get("input").is_some() { v["input"].clone() } else { v.clone() };
        match input["kind"].as_str() {
            Some("process") => {
                if let Ok(case) = serde_json::from_value::<Case>(input["case"].clone()) {
                    part_b(report, Some(vec![case]));
                    return;
                }
            }
            Some("fs-spelling") => {
                part_c(report);
                return;
            }
            Some("glob") => {
                let pattern = input["pattern"].as_str().unwrap_or("").to_owned();
                let path = input["path"].as_str().unwrap_or("a").to_owned();
                let st = glob_chunk(&[pattern], &[path]);
                report.evaluations += st.compared;
                for m in st.mismatches {
                    report.violation(Violation {
                        kind: "oracle".into(),
                        check: "glob-matrix".into(),
                        what: format!("FilterPattern `{}` on {:?}: real {} / documented {}", m.pattern, m.path, m.real, m.spec),
                        input: input.clone(),
                        failing_input_found: true,
                    });
                }
                return;
            }
            _ => {}
        }
        report.notes.push("replay file not understood; running the full check".into());
    }
    // corpus first
    let corpus_dir = concat!(env!("CARGO_MANIFEST_DIR"), "/../corpus/C20");
    if let Ok(entries) = std::fs::read_dir(corpus_dir) {
        let mut cases = Vec::new();
        for e in entries.flatten() {
            if let Ok(text) = std::fs::read_to_string(e.path()) {
                if let Ok(v) = serde_json::from_str::<Value>(&text) {
                    if let Ok(case) = serde_json::from_value::<Case>(v["case"].clone()) {
                        cases.push(case);
                    }
                }
            }
        }
        if !cases.is_empty() {
            report.count("corpus_cases", cases.len() as u64);
            part_b(report, Some(cases));
        }
    }
    part_a(report);
    part_c(report);
    part_b(report, None);
}
